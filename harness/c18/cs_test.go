package c18

import (
	"bytes"
	"context"
	"crypto/hmac"
	"crypto/rand"
	"crypto/rsa"
	"crypto/sha256"
	"encoding/base64"
	"fmt"
	"io"
	"math/big"
	"net/http"
	"net/http/httptest"
	"net/url"
	"strconv"
	"strings"
	"time"

	"github.com/zeromicro/go-zero/core/codec"
	"github.com/zeromicro/go-zero/rest/handler"

	"verifsim/simrt"
)

var std64 = base64.StdEncoding

// ---------------------------------------------------------------------------
// client side of the content-security protocol (harness implementation)
// ---------------------------------------------------------------------------

// rsaCache remembers what the harness itself encrypted in this run (ciphertext -> key index,
// plaintext) so that the oracle does not need a second private-key operation for untouched
// secrets.  Unknown ciphertexts are really decrypted.
type rsaCache map[string]struct {
	key   int
	plain string
}

func rsaEncryptB64(c rsaCache, key int, plain string) string {
	pub := &rsaKeys[key].PublicKey
	limit := pub.Size() - 11
	var out []byte
	for i := 0; i < len(plain); i += limit {
		j := i + limit
		if j > len(plain) {
			j = len(plain)
		}
		ct, err := rsa.EncryptPKCS1v15(rand.Reader, pub, []byte(plain[i:j]))
		if err != nil {
			panic(err)
		}
		out = append(out, ct...)
	}
	s := std64.EncodeToString(out)
	c[s] = struct {
		key   int
		plain string
	}{key, plain}
	return s
}

func rsaDecryptB64(c rsaCache, key int, s string) (string, bool) {
	if e, ok := c[s]; ok {
		if e.key != key {
			return "", false // produced for another key: PKCS#1 v1.5 unpadding fails
		}
		return e.plain, true
	}
	if s == "" {
		return "", false
	}
	raw, err := std64.DecodeString(s)
	if err != nil {
		return "", false
	}
	priv := rsaKeys[key]
	k := priv.Size()
	var out []byte
	for i := 0; i < len(raw); i += k {
		j := i + k
		if j > len(raw) {
			j = len(raw)
		}
		pt, err := rsa.DecryptPKCS1v15(nil, priv, raw[i:j])
		if err != nil {
			return "", false
		}
		out = append(out, pt...)
	}
	return string(out), true
}

func parseAttrs(s string) map[string]string {
	m := map[string]string{}
	for _, f := range strings.Split(s, ";") {
		f = strings.TrimSpace(f)
		if i := strings.IndexByte(f, '='); i >= 0 {
			m[f[:i]] = f[i+1:]
		}
	}
	return m
}

func csSignature(key []byte, ts, method, path, query string, body []byte) string {
	d := sha256.Sum256(body)
	m := hmac.New(sha256.New, key)
	io.WriteString(m, strings.Join([]string{ts, method, path, query, fmt.Sprintf("%x", d[:])}, "\n"))
	return std64.EncodeToString(m.Sum(nil))
}

// wire is a request exactly as it is put on the (in-memory) wire.
type wire struct {
	method   string
	path     string
	query    string
	body     []byte
	csHeader string
	hasCS    bool
	reqURI   string     // X-Request-Uri ("" = not sent)
	chunked  bool       // body of undeclared length (chunked upload): ContentLength -1, opaque reader
	fault    *bodyFault // what the body reader does while it is read (fault_test.go); nil = plain in-memory body
}

// opaqueReader hides the concrete reader type from net/http, so that the request's length stays
// undeclared (ContentLength -1), as for a chunked upload.
type opaqueReader struct{ r io.Reader }

func (o *opaqueReader) Read(p []byte) (int, error) { return o.r.Read(p) }

func (q *wire) url() string {
	u := "http://localhost" + q.path
	if q.query != "" {
		u += "?" + q.query
	}
	return u
}

// mutation kinds of a signed request (0 = honest)
const (
	ckHonest = iota
	ckNoHeader
	ckMethod
	ckPath
	ckQuery
	ckBody
	ckSignedOtherTimestamp
	ckSigCorrupt
	ckSigOtherKey
	ckFingerprintUnknown
	ckFingerprintOtherKey
	ckSecretForOtherKey
	ckSecretUnconfiguredKey
	ckSecretCorrupt
	ckInnerNoTime
	ckInnerNoType
	ckInnerBadKey
	ckSignedPlaintext
	ckEmptyFields
	ckRequestURIMismatch
	ckRequestURIHonest
	ckCount
)

var ckNames = [...]string{"honest", "no-header", "method", "path", "query", "body", "signed-other-timestamp", "sig-corrupt", "sig-other-key",
	"fingerprint-unknown", "fingerprint-other-key", "secret-for-other-key", "secret-unconfigured-key", "secret-corrupt", "inner-no-time",
	"inner-no-type", "inner-bad-key", "signed-plaintext", "empty-fields", "request-uri-mismatch", "request-uri-honest"}

var csMethods = []string{http.MethodPost, http.MethodGet, http.MethodPut, http.MethodDelete}
var csPaths = []string{"/a/b", "/a", "/a/b/", "/a/bc", "/"}
var csQueries = []string{"", "c=d&e=f", "e=f&c=d", "c=d", "c=d&e=g", "c=d&e=f&x=1"}
var payloadSizes = []int{5, 0, 1, 15, 16, 17, 31, 32, 33, 100, 255, 1000, 47, 48, 49, 4096}

// other spellings of paths the routes know (percent-escapes, doubled slash, dot segment) and queries with
// repeated / empty / escaped / differently cased keys.  The signature covers the path as net/http presents
// it to the server (URL.Path, i.e. decoded, not cleaned) and the query exactly as sent (URL.RawQuery).
var csPathsExotic = []string{"/a%2Fb", "/%61/b", "//a", "/a/./b", "/a/b%2F"}
var csQueriesExotic = []string{"c=d&c=e", "c=&e", "c=d&", "&", "c=%64&e=f", "c=d+e&e=f", "C=d&e=f", "c=d&e=f&e=f", "c=%zz"}

func allQueries() []string { return append(append([]string{}, csQueries...), csQueriesExotic...) }

// header layouts of X-Content-Security: index 0 is the usual one
const (
	hfUsual = iota
	hfNoSpaces
	hfExtraSpaces
	hfReordered
	hfCount
)

// pathQueryOnWire: path and query as net/http hands them to the server for this request line.
func pathQueryOnWire(path, query string) (string, string) {
	raw := "http://localhost" + path
	if query != "" {
		raw += "?" + query
	}
	u, err := url.Parse(raw)
	if err != nil {
		return path, query
	}
	return u.Path, u.RawQuery
}

// timestamp offsets relative to the tolerance, in seconds; code*: see tsOffset
const (
	toNow = iota
	toPastInside
	toPastEdge
	toPastOutside
	toFutureInside
	toFutureEdge
	toFutureOutside
	toFarPast
	toFarFuture
	toExtreme // one of tsExtremes (extremes_test.go), chosen by csPlan.tsX
	toCount
)

func tsOffset(code int, tol int64) int64 {
	switch code {
	case toPastInside:
		return -(tol - 1)
	case toPastEdge:
		return -tol
	case toPastOutside:
		return -(tol + 1)
	case toFutureInside:
		return tol - 1
	case toFutureEdge:
		return tol
	case toFutureOutside:
		return tol + 1
	case toFarPast:
		return -(tol + 48*3600)
	case toFarFuture:
		return tol + 48*3600
	}
	return 0
}

type csPlan struct {
	think    time.Duration
	kind     int
	method   int
	path     int
	query    int
	size     int
	pseed    uint64
	crypt    bool
	keyLen   int // 16,24,32
	kseed    uint64
	fp       int // which configured key the client uses
	tsCode   int
	tsX      int // index into tsExtremes when tsCode == toExtreme
	delay    int // delivery delay code: 0 none; 1 tol-1ns.. see deliveryDelay
	mseed    uint64
	rsize    int // response payload size
	rseed    uint64
	chunks   int
	yields   int
	encEmpty bool   // encrypt the empty payload instead of sending no body
	chunked  bool   // the body travels with undeclared length (ContentLength -1)
	hb       hbPlan // how the protected handler treats the body (handler_test.go)
	hdrForm  int    // layout of the X-Content-Security header (hf*)
	bf       bfPlan // faults of the body reader (fault_test.go); only drawn by the scenarios that judge them
	sess     int    // 1 + index of the session whose secret blob the request carries (0 = a secret of its own)
	variant  int    // session member variant (sv*)
	pid      int    // payload identity: 0 = unique to the request, else shared by the copies of a session's base request
}

func drawCsPlan(t *simrt.Tape) csPlan {
	p := csPlan{think: drawThink(t)}
	if t.Chance(2, 5) {
		p.kind = 1 + t.Intn(ckCount-1)
	}
	p.method = t.Intn(len(csMethods))
	p.path = t.Intn(len(csPaths))
	p.query = t.Intn(len(csQueries))
	if t.Chance(1, 4) {
		p.path = len(csPaths) + t.Intn(len(csPathsExotic))
	}
	if t.Chance(1, 4) {
		p.query = len(csQueries) + t.Intn(len(csQueriesExotic))
	}
	p.size = payloadSizes[t.Intn(len(payloadSizes))]
	p.pseed = seedOf(t)
	p.crypt = t.Bool()
	p.keyLen = []int{32, 16, 24}[t.Intn(3)]
	p.kseed = seedOf(t)
	p.fp = t.Intn(2)
	p.tsCode = weighted(t, 8, 1, 2, 2, 1, 2, 2, 1, 1, 6)
	if p.tsCode == toExtreme {
		p.tsX = t.Intn(len(tsExtremes))
	}
	p.delay = weighted(t, 8, 1, 1, 1, 1, 1)
	p.mseed = seedOf(t)
	p.rsize = payloadSizes[t.Intn(len(payloadSizes))]
	p.rseed = seedOf(t)
	p.chunks = t.Range(1, 3)
	p.yields = t.Intn(3)
	p.encEmpty = t.Chance(1, 8)
	p.chunked = t.Chance(1, 4)
	p.hb = drawHb(t)
	p.hdrForm = weighted(t, 6, 1, 1, 1)
	if !p.crypt && t.Chance(1, 6) {
		// the key is only an HMAC key then: any length will do
		p.keyLen = []int{1, 15, 33, 48}[t.Intn(4)]
	}
	return p
}

// deliveryDelay: how long after signing the request reaches the server (a slow network, or an
// attacker replaying a captured request), relative to the instant ts+tol at which the window closes.
func deliveryDelay(code int, tol time.Duration) (time.Duration, bool) {
	switch code {
	case 1:
		return tol - time.Nanosecond, true
	case 2:
		return tol, true
	case 3:
		return tol + time.Second - time.Nanosecond, true
	case 4:
		return tol + time.Second, true
	case 5:
		return tol + 26*time.Hour, true
	}
	return 0, false
}

type csServer struct {
	fps       [2]string // fingerprints under which the two key slots are configured ("" = not configured)
	keys      [2]int    // which RSA key (index into rsaKeys) each slot holds
	tolerance time.Duration
	strict    bool
}

// key maps a slot to the RSA key it holds; 2 is the key that no server ever has.
func (s *csServer) key(slot int) int {
	if slot == 2 {
		return 2
	}
	return s.keys[slot]
}

type csRec struct {
	id        int
	plan      csPlan
	q         wire
	plain     []byte // what the application wants the handler to receive
	aesKey    []byte
	respWant  []byte
	ran       int
	th        time.Time
	hbSeen    // what the handler read from the body
	t0, t1    time.Time
	status    int
	signedLen int // length of the body the client signed, when the body as sent starts with it (else the length sent)
}

type csWorld struct {
	r        *simrt.Run
	srv      csServer
	cache    rsaCache
	recs     []*csRec
	boundary bool
	prefix   string // path prefix of the route group the requests are sent to (engine mode)
	pfx      string // class prefix of the delivery checks ("engine-" in engine mode)
	sessions []*csSession
}

// paths: the request paths of the workload (under the group prefix in engine mode).
func (w *csWorld) paths() []string {
	all := append(append([]string{}, csPaths...), csPathsExotic...)
	for i, p := range all {
		all[i] = w.prefix + p
	}
	return all
}

// build renders the plan into a wire request signed at second nowS.
func (w *csWorld) build(p csPlan, nowS int64) *csRec {
	rec := &csRec{id: len(w.recs), plan: p}
	w.recs = append(w.recs, rec)
	tol := int64(w.srv.tolerance / time.Second)
	pid := rec.id
	if p.pid > 0 {
		pid = p.pid - 1
	}
	rec.plain = payloadOf(p.pseed, pid, p.size)
	rec.aesKey = (&prng{s: p.kseed}).bytes(p.keyLen)
	rec.respWant = payloadOf(p.rseed, rec.id+1000, p.rsize)
	if p.crypt && p.chunked {
		// this request ends in the known finding crypt-chunked-body-not-decrypted, which is recognised by
		// what the handler read: the handler reads everything, and not after closing
		rec.plan.hb.read, rec.plan.hb.closeAt = hbAll, 0
	}
	q := &rec.q
	paths := w.paths()
	queries := allQueries()
	q.method, q.path, q.query = csMethods[p.method], paths[p.path], queries[p.query]
	if p.path >= len(csPaths) {
		w.r.Probe("cs-path-exotic-" + csPathsExotic[p.path-len(csPaths)])
	}
	if p.query >= len(csQueries) {
		w.r.Probe("cs-query-exotic-" + csQueriesExotic[p.query-len(csQueries)])
	}
	if p.keyLen != 16 && p.keyLen != 24 && p.keyLen != 32 {
		w.r.Probe("cs-hmac-key-of-odd-length")
	}
	q.chunked = p.chunked
	q.body = rec.plain
	if p.crypt && (len(rec.plain) > 0 || p.encEmpty) {
		q.body = []byte(std64.EncodeToString(ecbEncrypt(rec.aesKey, rec.plain)))
	}
	ts := nowS + tsOffset(p.tsCode, tol)
	tss := strconv.FormatInt(ts, 10)
	if p.tsCode == toExtreme {
		tss = tsExtremes[p.tsX].f(nowS, tol)
		w.r.Probe("cs-timestamp-extreme-" + tsExtremes[p.tsX].name)
	}
	var ss *csSession
	if p.sess > 0 {
		// the secret (and with it the timestamp) is the session's, made by its first member
		ss = w.sessions[p.sess-1]
		if ss.made {
			ts, tss = ss.ts, ss.tss
		} else {
			ss.ts, ss.tss = ts, tss
		}
		w.r.Probe("cs-session-variant-" + svNames[p.variant])
	}
	fpKey := p.fp
	if w.srv.fps[fpKey] == "" {
		fpKey = 1 - fpKey
	}
	fingerprint := w.srv.fps[fpKey]
	typ := 0
	if p.crypt {
		typ = 1
	}
	inner := fmt.Sprintf("version=v1; type=%d; key=%s; time=%s", typ, std64.EncodeToString(rec.aesKey), tss)
	encKey := w.srv.key(fpKey)
	m := &prng{s: p.mseed}
	signPath, signQuery := pathQueryOnWire(q.path, q.query) // what an honest client signs
	signTS, signMethod, signBody, signKey := tss, q.method, q.body, rec.aesKey
	other := func(list []string, cur string) string {
		for {
			if s := list[m.next()%uint64(len(list))]; s != cur {
				return s
			}
		}
	}
	corruptSig := false
	q.hasCS = true
	switch p.kind {
	case ckNoHeader:
		q.hasCS = false
	case ckMethod:
		q.method = other(csMethods, q.method)
	case ckPath:
		q.path = other(paths, q.path)
	case ckQuery:
		q.query = other(queries, q.query)
	case ckBody:
		nb := append([]byte{}, q.body...)
		switch {
		case len(nb) == 0:
			nb = []byte("x")
		case m.next()%3 == 0:
			nb = nb[:len(nb)-1]
		case m.next()%2 == 0:
			nb = append(nb, 'A')
		default:
			i := int(m.next() % uint64(len(nb)))
			if p.crypt {
				// stay inside the base64 alphabet
				if nb[i] == 'A' {
					nb[i] = 'B'
				} else {
					nb[i] = 'A'
				}
			} else {
				nb[i] ^= 0x20
			}
		}
		q.body = nb
	case ckSignedOtherTimestamp:
		signTS = strconv.FormatInt(ts+1-2*int64(m.next()%2), 10)
		if p.tsCode == toExtreme {
			signTS = "1" + tss
		}
	case ckSigCorrupt:
		corruptSig = true
	case ckSigOtherKey:
		signKey = (&prng{s: p.kseed + 1}).bytes(p.keyLen)
	case ckFingerprintUnknown:
		fingerprint = []string{"nobody", "", "fp-9", strings.ToUpper(fingerprint)}[m.next()%4]
	case ckFingerprintOtherKey:
		if o := w.srv.fps[1-fpKey]; o != "" {
			fingerprint = o // secret stays encrypted to fpKey
		} else {
			fingerprint = "fp-unconfigured"
		}
	case ckSecretForOtherKey:
		encKey = w.srv.key(1 - fpKey)
	case ckSecretUnconfiguredKey:
		encKey = 2
	case ckInnerNoTime:
		inner = fmt.Sprintf("version=v1; type=%d; key=%s", typ, std64.EncodeToString(rec.aesKey))
	case ckInnerNoType:
		inner = fmt.Sprintf("version=v1; key=%s; time=%s", std64.EncodeToString(rec.aesKey), tss)
	case ckInnerBadKey:
		inner = fmt.Sprintf("version=v1; type=%d; key=%s; time=%s", typ, "*not*base64*", tss)
	case ckSignedPlaintext:
		signBody = append([]byte("plain:"), rec.plain...)
	case ckRequestURIMismatch:
		// captured signed request replayed against another resource, original uri in X-Request-Uri is NOT
		// what was signed either
		q.reqURI = "http://gateway" + other(paths, q.path) + "?" + q.query
	case ckRequestURIHonest:
		// a gateway rewrote the url; the signed (original) uri travels in X-Request-Uri
		q.reqURI = "http://gateway" + q.path
		if q.query != "" {
			q.reqURI += "?" + q.query
		}
		q.path, q.query = w.prefix+"/internal/route", "rewritten=1"
	}
	sig := csSignature(signKey, signTS, signMethod, signPath, signQuery, signBody)
	if corruptSig {
		b := []byte(sig)
		switch m.next() % 3 {
		case 0:
			i := int(m.next() % uint64(len(b)-1))
			if b[i] == 'A' {
				b[i] = 'B'
			} else {
				b[i] = 'A'
			}
		case 1:
			b = b[:len(b)-4]
		default:
			b = []byte("badone")
		}
		sig = string(b)
	}
	var secret string
	switch {
	case ss != nil && ss.made:
		secret = ss.secret
		w.r.Probe("cs-session-secret-blob-reused")
	default:
		secret = rsaEncryptB64(w.cache, encKey, inner)
		if ss != nil {
			ss.secret, ss.made = secret, true
		}
	}
	rec.signedLen = len(q.body)
	if bytes.HasPrefix(q.body, signBody) {
		rec.signedLen = len(signBody)
	}
	if p.kind == ckSecretCorrupt {
		b := []byte(secret)
		i := int(m.next() % uint64(len(b)-2))
		if b[i] == 'A' {
			b[i] = 'B'
		} else {
			b[i] = 'A'
		}
		secret = string(b)
	}
	q.csHeader = strings.Join([]string{"key=" + fingerprint, "secret=" + secret, "signature=" + sig}, "; ")
	switch p.hdrForm {
	case hfNoSpaces:
		q.csHeader = strings.Join([]string{"key=" + fingerprint, "secret=" + secret, "signature=" + sig}, ";")
		w.r.Probe("cs-header-without-spaces")
	case hfExtraSpaces:
		q.csHeader = "  " + strings.Join([]string{"key=" + fingerprint, "secret=" + secret, "signature=" + sig}, " ;   ") + " ; "
		w.r.Probe("cs-header-with-extra-spaces")
	case hfReordered:
		q.csHeader = strings.Join([]string{"signature=" + sig, "key=" + fingerprint, "secret=" + secret}, "; ")
		w.r.Probe("cs-header-reordered")
	}
	if p.kind == ckEmptyFields {
		switch m.next() % 3 {
		case 0:
			q.csHeader = strings.Join([]string{"key=" + fingerprint, "secret=" + secret}, "; ")
		case 1:
			q.csHeader = strings.Join([]string{"key=" + fingerprint, "signature=" + sig}, "; ")
		default:
			q.csHeader = ""
		}
	}
	return rec
}

func (q *wire) request(ctx context.Context) *http.Request {
	var req *http.Request
	switch {
	case q.fault.active():
		req = httptest.NewRequest(q.method, q.url(), nil)
		q.faultyBody(req)
	case q.chunked:
		req = httptest.NewRequest(q.method, q.url(), io.NopCloser(&opaqueReader{bytes.NewReader(q.body)}))
		req.ContentLength = -1
	case len(q.body) > 0:
		req = httptest.NewRequest(q.method, q.url(), bytes.NewReader(q.body))
	default:
		req = httptest.NewRequest(q.method, q.url(), nil)
	}
	if q.hasCS {
		req.Header.Set("X-Content-Security", q.csHeader)
	}
	if q.reqURI != "" {
		req.Header.Set("X-Request-Uri", q.reqURI)
	}
	return req.WithContext(ctx)
}

// ---------------------------------------------------------------------------
// independent verifier of a wire request
// ---------------------------------------------------------------------------

type csVerdict struct {
	reason string   // "" = signature covers the request; otherwise why not
	ts     *big.Int // the timestamp (seconds; any size); nil = the string is no timestamp
	tsOpen bool     // the string is a number in another notation than plain decimal seconds: decision left open
	tsRaw  string
	crypt  bool
	key    []byte
}

func (w *csWorld) judge(q *wire) csVerdict { return w.judgeWith(&w.srv, q) }

// judgeWith judges the request against the given server configuration.
func (w *csWorld) judgeWith(srv *csServer, q *wire) csVerdict {
	var v csVerdict
	if !q.hasCS {
		v.reason = "no-header"
		return v
	}
	a := parseAttrs(q.csHeader)
	if a["key"] == "" || a["secret"] == "" || a["signature"] == "" {
		v.reason = "incomplete-header"
		return v
	}
	keyIdx := -1
	for i, fp := range srv.fps {
		if fp != "" && fp == a["key"] {
			keyIdx = i
		}
	}
	if keyIdx < 0 {
		v.reason = "unknown-fingerprint"
		return v
	}
	inner, ok := rsaDecryptB64(w.cache, srv.keys[keyIdx], a["secret"])
	if !ok {
		v.reason = "secret-not-for-configured-key"
		return v
	}
	in := parseAttrs(inner)
	key, err := std64.DecodeString(in["key"])
	if err != nil {
		v.reason = "bad-inner-key"
		return v
	}
	typ, err := strconv.Atoi(in["type"])
	if err != nil {
		v.reason = "bad-inner-type"
		return v
	}
	v.tsRaw = in["time"]
	ts, open, ok := readTimestamp(v.tsRaw)
	if !ok {
		v.reason = "bad-inner-time"
		return v
	}
	v.ts, v.tsOpen, v.crypt, v.key = ts, open, typ == 1, key
	path, query := pathQueryOnWire(q.path, q.query)
	if q.reqURI != "" {
		if u, err := url.Parse(q.reqURI); err == nil {
			path, query = u.Path, u.RawQuery
		}
	}
	if a["signature"] != csSignature(key, in["time"], q.method, path, query, q.body) {
		v.reason = "signature-does-not-cover-request"
	}
	return v
}

// ---------------------------------------------------------------------------
// scenario 3: handler.ContentSecurityHandler
// ---------------------------------------------------------------------------

func csSizes(t *simrt.Tape, tier string) (nTasks, perTask int) {
	maxT, maxP := 3, 3
	if tier == "thorough" {
		maxT, maxP = 4, 6
	}
	return t.Range(1, maxT), t.Range(1, maxP)
}

func contentSecurity(r *simrt.Run, tier string) {
	t := r.Tape
	w := &csWorld{r: r, cache: rsaCache{}}
	w.srv.keys = [2]int{0, 1}
	w.srv.strict = !t.Chance(1, 5)
	w.srv.tolerance = []time.Duration{time.Hour, time.Second, 5 * time.Second, time.Minute, 2 * time.Second}[t.Intn(5)]
	switch t.Intn(3) {
	case 0:
		w.srv.fps = [2]string{"fp-0", "fp-1"}
	case 1:
		w.srv.fps = [2]string{"fp-0", ""}
	default:
		w.srv.fps = [2]string{"", "fp-1"}
	}
	bypassProbe := t.Chance(1, 12)
	nTasks, perTask := csSizes(t, tier)
	// burst: 2-4 tasks issue their requests (almost) at the same instant, most of them honest and encrypted
	burst := t.Chance(1, 3)
	if burst {
		nTasks = t.Range(2, 4)
		r.Probe("cs-burst")
	}
	// session: 2-6 tasks whose requests carry the secret blob of one (or one of two) client sessions, issued at
	// (almost) the same instant: copies of the session's base request, single-field forgeries of it, requests
	// with other content under the same secret (fault_test.go)
	session := t.Chance(1, 4)
	var bases []csPlan
	if session {
		burst = false
		nTasks = t.Range(2, 6)
		perTask = t.Range(1, 2)
		if tier == "thorough" {
			perTask = t.Range(1, 3)
		}
		for s, n := 0, t.Range(1, 2); s < n; s++ {
			bases = append(bases, drawSessionBase(t, s))
			w.sessions = append(w.sessions, &csSession{})
		}
		r.Probe("cs-session")
	}
	plans := make([][]csPlan, nTasks)
	for i := range plans {
		for j := 0; j < perTask; j++ {
			var p csPlan
			if session {
				s := t.Intn(len(bases))
				p = drawSessionMember(t, bases[s], s)
			} else {
				p = drawCsPlan(t)
			}
			if burst {
				overlapCsPlan(t, &p)
			}
			p.bf = drawBf(t)
			plans[i] = append(plans[i], p)
		}
	}
	limitEncryptedChunked(t, plans)
	for i := range plans {
		for j := range plans[i] {
			// an encrypted body of undeclared length ends in the known finding, which is recognised by what the
			// handler read from the complete body: no read errors there
			if p := &plans[i][j]; p.crypt && p.chunked && p.bf.err != bfNone {
				p.bf.err, p.bf.tail = bfNone, 0
			}
		}
	}
	decs := map[string]codec.RsaDecrypter{}
	for i, fp := range w.srv.fps {
		if fp != "" {
			decs[fp] = decrypters[i]
		}
	}
	next := http.HandlerFunc(func(rw http.ResponseWriter, req *http.Request) {
		rec, _ := req.Context().Value(reqKey{}).(*csRec)
		if rec == nil {
			r.Fail("cs-context-lost", "protected handler got a request whose context lost the caller's values")
			return
		}
		rec.ran++
		rec.th = time.Now()
		readBody(r, rec, req.Body)
		for i := 0; i < rec.plan.yields; i++ {
			r.Yield()
		}
		rw.WriteHeader(http.StatusOK)
		writeChunks(rw, rec.respWant, rec.plan.chunks)
	})
	h := handler.ContentSecurityHandler(decs, w.srv.tolerance, w.srv.strict)(next)
	r.Sample(map[string]any{"scenario": "handler.ContentSecurityHandler", "strict": w.srv.strict, "tolerance": w.srv.tolerance.String(),
		"fingerprints": w.srv.fps, "burst": burst, "session": session, "sessions": len(bases), "tasks": nTasks, "requests_per_task": perTask, "first_task_plan": fmt.Sprintf("%+v", plans[0])})
	if r.Tracing() {
		r.Logf("content-security server=%+v plans=%+v", w.srv, plans)
	}
	var tasks []*simrt.Task
	for i := 0; i < nTasks; i++ {
		i := i
		tasks = append(tasks, r.Go(fmt.Sprintf("client%d", i), func() {
			for _, p := range plans[i] {
				if p.think > 0 {
					r.Sleep(p.think)
				}
				rec := w.build(p, time.Now().Unix())
				applyFault(r, &rec.q, p.bf, rec.signedLen)
				if d, ok := deliveryDelay(p.delay, w.srv.tolerance); ok {
					r.Sleep(d)
					r.Probe("cs-delayed-delivery")
					w.boundary = true
				}
				req := rec.q.request(context.WithValue(context.Background(), reqKey{}, rec))
				rw := httptest.NewRecorder()
				r.Ev("invoke", int64(rec.id), int64(p.kind))
				rec.t0 = time.Now()
				w.enter(rec)
				h.ServeHTTP(rw, req)
				w.leave(rec)
				rec.t1 = time.Now()
				rec.status = rw.Code
				r.Ev("return", int64(rec.id), int64(rec.status), int64(rec.ran))
				w.checkCS(rec, rw)
			}
		}))
	}
	if !r.JoinTimeout(80*24*time.Hour, tasks...) {
		r.Fail("stuck", "requests through ContentSecurityHandler did not all return: %v", r.AliveTasks())
		return
	}
	if bypassProbe && w.srv.strict {
		w.unverifiedMethod(h)
	}
	if w.boundary {
		r.Probe("nontrivial")
	}
}

func writeChunks(rw http.ResponseWriter, b []byte, chunks int) {
	if chunks < 1 {
		chunks = 1
	}
	step := (len(b) + chunks - 1) / chunks
	for len(b) > 0 {
		n := step
		if n > len(b) {
			n = len(b)
		}
		rw.Write(b[:n])
		b = b[n:]
	}
}

func (w *csWorld) describe(rec *csRec, v *csVerdict) string {
	q := &rec.q
	kind := ckNames[rec.plan.kind]
	if rec.plan.sess > 0 {
		kind = fmt.Sprintf("%s, member '%s' of session %d", kind, svNames[rec.plan.variant], rec.plan.sess-1)
	}
	if q.fault.active() {
		kind += ", body reader: " + q.fault.plan.String()
	}
	return fmt.Sprintf("request %d (%s; %s %s body=%s X-Request-Uri=%q crypt=%v; verifier: reason=%q ts=%s tolerance=%v) sent %s returned %s",
		rec.id, kind, q.method, q.url(), short(q.body), q.reqURI, v.crypt, v.reason, tsText(v), w.srv.tolerance,
		rec.t0.UTC().Format("2006-01-02T15:04:05.000000000"), rec.t1.UTC().Format("15:04:05.000000000"))
}

func (w *csWorld) checkCS(rec *csRec, rw *httptest.ResponseRecorder) {
	r := w.r
	if rec.q.fault.hasError() {
		w.checkCSUnreadable(rec)
		return
	}
	v := w.judge(&rec.q)
	r.Probe("oracle")
	if r.Tracing() {
		r.Logf("%s -> status %d ran %d", w.describe(rec, &v), rec.status, rec.ran)
	}
	if rec.ran > 1 {
		r.Fail("cs-handler-ran-twice", "%s: protected handler ran %d times", w.describe(rec, &v), rec.ran)
		return
	}
	// may / must the handler have run?
	mayRun, mustRun := false, false
	if v.reason == "" {
		// the server reads the clock at some instant between t0 and the start of the handler (or the return)
		end := rec.t1
		if rec.ran == 1 {
			end = rec.th
		}
		var atEdge bool
		mayRun, mustRun, atEdge = tsJudge(v.ts, v.tsOpen, w.srv.tolerance, rec.t0, end, rec.t1)
		if !mayRun {
			r.Probe("cs-timestamp-outside-tolerance")
			w.boundary = true
		}
		if atEdge {
			r.Probe("cs-timestamp-exactly-at-tolerance")
			w.boundary = true
		}
		if v.tsOpen {
			r.Probe("cs-timestamp-in-other-notation")
		}
		if mayRun && !mustRun {
			r.Probe("cs-timestamp-undecided")
		}
	}
	if !w.srv.strict {
		// the statement is about strict mode; in non-strict mode only the success path is checked
		if mustRun {
			w.checkDelivered(rec, rw, &v)
		}
		r.Probe("cs-non-strict")
		return
	}
	if rec.ran == 1 && !mayRun {
		cls := "cs-strict-accepted-" + v.reason
		if v.reason == "" {
			cls = "cs-strict-accepted-outside-tolerance"
		}
		r.Fail(cls, "%s: the protected handler RAN although the signature does not cover the request as sent at that instant", w.describe(rec, &v))
		return
	}
	if rec.q.chunked {
		r.Probe("cs-chunked-request")
		if rec.ran == 0 && v.reason == "signature-does-not-cover-request" {
			r.Probe("cs-chunked-tampered-request-rejected")
		}
	}
	if rec.ran == 0 {
		if rec.status < 400 {
			r.Fail("cs-strict-reject-status", "%s: handler not called but status is %d", w.describe(rec, &v), rec.status)
			return
		}
		if mustRun {
			// 400 is the cryption layer's answer (the signature gate answers 403): only then is it the round trip that failed
			if rec.status == http.StatusBadRequest && rec.plan.encEmpty && v.crypt && len(rec.plain) == 0 && len(rec.q.body) > 0 {
				w.finding("crypt-roundtrip-empty-payload", "%s: correctly signed request whose body is the AES-ECB/PKCS#7 encryption of the EMPTY payload is rejected with %d (round trip of the empty payload fails)",
					w.describe(rec, &v), rec.status)
				return
			}
			r.Fail("cs-strict-valid-rejected", "%s: correctly signed request inside the tolerance was rejected with %d", w.describe(rec, &v), rec.status)
		} else {
			r.Probe("cs-rejected")
		}
		return
	}
	r.Probe("cs-accepted")
	if mustRun {
		w.checkDelivered(rec, rw, &v)
	}
}

// checkCSUnreadable: the body reader reported an error at offset errOff (once, or for good).  Such a body cannot be
// read the plain way, so nothing is owed: rejecting the request is fine.  If the protected handler RAN, the
// signature must cover exactly the bytes the handler could read: the bytes up to the error (all a server that
// stops at the error can have verified) or, for an error reported once, the complete body (a server that reads
// on), and those bytes - decrypted when the request is an encrypted one - are what the handler read.
func (w *csWorld) checkCSUnreadable(rec *csRec) {
	r := w.r
	q := &rec.q
	full := w.judge(q)
	r.Probe("oracle")
	r.Probe("cs-body-read-error")
	if r.Tracing() {
		r.Logf("%s -> status %d ran %d; handler read %s err=%v", w.describe(rec, &full), rec.status, rec.ran, short(rec.gotBody), rec.readErr)
	}
	if rec.ran > 1 {
		r.Fail("cs-handler-ran-twice", "%s: protected handler ran %d times", w.describe(rec, &full), rec.ran)
		return
	}
	if !w.srv.strict {
		r.Probe("cs-non-strict")
		return
	}
	if rec.ran == 0 {
		if rec.status < 400 {
			r.Fail("cs-strict-reject-status", "%s: handler not called but status is %d", w.describe(rec, &full), rec.status)
			return
		}
		r.Probe("cs-body-read-error-rejected")
		return
	}
	// the bodies a server can have verified
	cands := [][]byte{q.body[:q.fault.errOff]}
	if q.fault.transient() && q.fault.errOff < len(q.body) {
		cands = append(cands, q.body)
	}
	covered := false
	reason := ""
	for i, c := range cands {
		qq := *q
		qq.body = c
		v := w.judge(&qq)
		if i == 0 || reason == "" {
			reason = v.reason
		}
		if v.reason != "" {
			continue
		}
		if may, _, _ := tsJudge(v.ts, v.tsOpen, w.srv.tolerance, rec.t0, rec.th, rec.t1); !may {
			reason = "outside-tolerance"
			continue
		}
		covered = true
		if rec.closedFirst {
			r.Probe("handler-read-after-own-close")
			return
		}
		want := c
		if v.crypt && len(c) > 0 && !q.chunked {
			dec, ok := clientDecrypt(v.key, c)
			if !ok {
				continue // nothing the handler could properly be given
			}
			want = dec
		}
		exp := rec.expectRead(want)
		if bytes.Equal(rec.gotBody, exp) || (rec.readErr != nil && bytes.HasPrefix(exp, rec.gotBody)) {
			r.Probe("cs-body-read-error-handler-ran-on-verified-bytes")
			if len(c) < len(q.body) {
				r.Probe("cs-body-read-error-handler-ran-on-verified-prefix")
			}
			return
		}
	}
	if !covered {
		if reason == "" {
			reason = "outside-tolerance"
		}
		r.Fail("cs-strict-accepted-"+reason, "%s: the body reader reported a read error at offset %d of %d; the protected handler RAN although the signature covers neither the bytes before the error nor the body as a whole",
			w.describe(rec, &full), q.fault.errOff, len(q.body))
		return
	}
	r.Fail("cs-strict-handler-read-bytes-not-covered-by-signature", "%s: the body reader reported a read error at offset %d of %d; the signature covers %s, but the protected handler (%s) RAN and read %s (read error: %v): bytes no verified signature covers",
		w.describe(rec, &full), q.fault.errOff, len(q.body), short(cands[0]), rec.plan.hb, short(rec.gotBody), rec.readErr)
}

func (w *csWorld) finding(class, format string, a ...any) { finding(w.r, class, format, a...) }

// checkDelivered: the request was valid and the handler ran: body as the application meant it,
// response as the handler wrote it (after the client undoes the encryption).
func (w *csWorld) checkDelivered(rec *csRec, rw *httptest.ResponseRecorder, v *csVerdict) {
	r := w.r
	if rec.ran != 1 {
		if rec.status == http.StatusBadRequest && rec.plan.encEmpty && v.crypt && len(rec.plain) == 0 && len(rec.q.body) > 0 {
			w.finding("crypt-roundtrip-empty-payload", "%s: correctly signed request whose body is the encryption of the EMPTY payload does not reach the handler (status %d)", w.describe(rec, v), rec.status)
			return
		}
		r.Fail(w.pfx+"cs-valid-rejected", "%s: correctly signed request inside the tolerance did not reach the handler (status %d)", w.describe(rec, v), rec.status)
		return
	}
	encrypted := v.crypt && len(rec.q.body) > 0
	want := rec.q.body
	if encrypted {
		want = rec.plain
		r.Probe("cs-encrypted-body")
	}
	if rec.q.chunked {
		r.Probe("cs-chunked-valid-request-accepted")
		if encrypted && !bytes.Equal(rec.plain, rec.q.body) && rec.readErr == nil && bytes.Equal(rec.gotBody, rec.q.body) {
			w.finding(chunkedFinding, "%s: correctly signed request whose ENCRYPTED body travels with undeclared length (chunked upload, ContentLength -1): the handler received the ciphertext %s as sent, not the decrypted payload %s",
				w.describe(rec, v), short(rec.gotBody), short(rec.plain))
			return
		}
	}
	if cls, txt := w.bodyProblem(rec, want); cls != "" {
		r.Fail(w.pfx+"cs-"+cls, "%s: %s (encrypted=%v)", w.describe(rec, v), txt, encrypted)
		return
	}
	if rec.status != http.StatusOK {
		r.Fail(w.pfx+"cs-accepted-status", "%s: handler ran and wrote 200 but the client got %d", w.describe(rec, v), rec.status)
		return
	}
	got := rw.Body.Bytes()
	if v.crypt {
		// with an encrypted body the response must come back encrypted; a type=1 request without body
		// is left open (nothing in the statement says which)
		if dec, ok := clientDecrypt(v.key, got); ok && bytes.Equal(dec, rec.respWant) {
			r.Probe("cs-encrypted-response-roundtrip")
			return
		}
		if !encrypted && bytes.Equal(got, rec.respWant) {
			return
		}
		r.Fail(w.pfx+"cs-response-roundtrip", "%s: handler wrote %s; client received %s which does not decrypt to it", w.describe(rec, v), short(rec.respWant), short(got))
		return
	}
	if !bytes.Equal(got, rec.respWant) {
		r.Fail(w.pfx+"cs-response-mismatch", "%s: handler wrote %s; client received %s", w.describe(rec, v), short(rec.respWant), short(got))
	}
}

// limitEncryptedChunked: an ENCRYPTED body of undeclared length always ends in the known finding
// below (first failure wins), so only one run in eight may contain such requests; in the other
// runs bodies of undeclared length are plain ones.
func limitEncryptedChunked(t *simrt.Tape, plans [][]csPlan) {
	if t.Chance(1, 8) {
		return
	}
	for i := range plans {
		for j := range plans[i] {
			if plans[i][j].crypt {
				plans[i][j].chunked = false
			}
		}
	}
}

// chunkedFinding: an encrypted body whose length is not declared (ContentLength -1) is handed to the
// protected handler as it came in, undecrypted (both the content-security gate and the cryption
// handler decide by r.ContentLength > 0 whether there is a body to decrypt).
const chunkedFinding = "crypt-chunked-body-not-decrypted"

// clientDecrypt undoes what the server does to an encrypted response; the empty response stays empty.
func clientDecrypt(key, body []byte) ([]byte, bool) {
	if len(body) == 0 {
		return nil, true
	}
	ct, err := std64.DecodeString(string(body))
	if err != nil {
		return nil, false
	}
	return ecbDecrypt(key, ct)
}

// unverifiedMethod: a request without any signature, with a method outside GET/POST/PUT/DELETE,
// sent to the strict gate.
func (w *csWorld) unverifiedMethod(h http.Handler) {
	r := w.r
	method := []string{http.MethodPatch, http.MethodHead, http.MethodOptions}[r.Tape.Intn(3)]
	rec := &csRec{id: len(w.recs)}
	w.recs = append(w.recs, rec)
	rec.q = wire{method: method, path: "/a/b", query: "c=d", body: []byte(`{"admin":true}`)}
	req := rec.q.request(context.WithValue(context.Background(), reqKey{}, rec))
	rw := httptest.NewRecorder()
	r.Ev("invoke-unsigned", int64(rec.id))
	h.ServeHTTP(rw, req)
	r.Ev("return", int64(rec.id), int64(rw.Code), int64(rec.ran))
	r.Probe("cs-unsigned-other-method-sent")
	if rec.ran > 0 {
		w.finding("cs-strict-unverified-method", "strict ContentSecurityHandler: an UNSIGNED %s %s (no X-Content-Security header at all) reached the protected handler (status %d): only GET/POST/PUT/DELETE are verified",
			method, rec.q.url(), rw.Code)
	}
}

// ---------------------------------------------------------------------------
// scenario 4: handler.CryptionHandler / LimitCryptionHandler alone
// ---------------------------------------------------------------------------

func cryption(r *simrt.Run, tier string) {
	t := r.Tape
	w := &csWorld{r: r, cache: rsaCache{}}
	keyLen := []int{32, 16, 24}[t.Intn(3)]
	key := (&prng{s: seedOf(t)}).bytes(keyLen)
	var limit int64 // 0: CryptionHandler (1 MiB)
	if t.Chance(1, 3) {
		limit = int64([]int{2048, 64, 24, 100000}[t.Intn(4)])
	}
	nTasks, perTask := csSizes(t, tier)
	// burst: 2-4 tasks issue their requests (almost) at the same instant
	burst := t.Chance(1, 2)
	if burst {
		nTasks = t.Range(2, 4)
		r.Probe("crypt-burst")
	}
	type plan struct {
		size, rsize  int
		pseed, rseed uint64
		chunks       int
		yields       int
		encEmpty     bool
		think        time.Duration
		chunked      bool
		hb           hbPlan
		bf           bfPlan
	}
	plans := make([][]plan, nTasks)
	for i := range plans {
		for j := 0; j < perTask; j++ {
			p := plan{size: payloadSizes[t.Intn(len(payloadSizes))], rsize: payloadSizes[t.Intn(len(payloadSizes))],
				pseed: seedOf(t), rseed: seedOf(t), chunks: t.Range(1, 3), yields: t.Intn(3), encEmpty: t.Chance(1, 8), think: drawThink(t) / 4,
				chunked: t.Chance(1, 4), hb: drawHb(t)}
			if burst {
				cp := csPlan{hb: p.hb, crypt: true, size: p.size}
				overlapCsPlan(t, &cp)
				p.think, p.hb, p.size = cp.think, cp.hb, cp.size
			}
			p.bf = drawBf(t)
			p.bf.tail = 0 // nothing is signed here
			plans[i] = append(plans[i], p)
		}
	}
	if !t.Chance(1, 8) { // see limitEncryptedChunked: every body is encrypted here
		for i := range plans {
			for j := range plans[i] {
				plans[i][j].chunked = false
			}
		}
	}
	for i := range plans {
		for j := range plans[i] {
			// a body of undeclared length is passed through to the handler as it is (known finding): no read errors there
			// (so is a request without body: there is nothing to decrypt)
			if p := &plans[i][j]; p.chunked || (p.size == 0 && !p.encEmpty) {
				p.bf.err = bfNone
			}
		}
	}
	next := http.HandlerFunc(func(rw http.ResponseWriter, req *http.Request) {
		rec, _ := req.Context().Value(reqKey{}).(*csRec)
		if rec == nil {
			r.Fail("crypt-context-lost", "handler got a request whose context lost the caller's values")
			return
		}
		rec.ran++
		readBody(r, rec, req.Body)
		for i := 0; i < rec.plan.yields; i++ {
			r.Yield()
		}
		rw.WriteHeader(http.StatusOK)
		writeChunks(rw, rec.respWant, rec.plan.chunks)
	})
	var h http.Handler
	if limit == 0 {
		h = handler.CryptionHandler(key)(next)
	} else {
		h = handler.LimitCryptionHandler(limit, key)(next)
	}
	r.Sample(map[string]any{"scenario": "handler.CryptionHandler", "key_len": keyLen, "limit": limit, "burst": burst, "tasks": nTasks, "requests_per_task": perTask,
		"first_task_plan": fmt.Sprintf("%+v", plans[0])})
	var tasks []*simrt.Task
	for i := 0; i < nTasks; i++ {
		i := i
		tasks = append(tasks, r.Go(fmt.Sprintf("client%d", i), func() {
			for _, p := range plans[i] {
				if p.think > 0 {
					r.Sleep(p.think)
				}
				rec := &csRec{id: len(w.recs), plan: csPlan{yields: p.yields, chunks: p.chunks, hb: p.hb}}
				w.recs = append(w.recs, rec)
				rec.plain = payloadOf(p.pseed, rec.id, p.size)
				rec.respWant = payloadOf(p.rseed, rec.id+1000, p.rsize)
				rec.q = wire{method: http.MethodPost, path: "/a/b", chunked: p.chunked}
				if p.chunked {
					// ends in the known finding crypt-chunked-body-not-decrypted, recognised by what the handler read
					rec.plan.hb.read, rec.plan.hb.closeAt = hbAll, 0
				}
				if len(rec.plain) > 0 || p.encEmpty {
					rec.q.body = []byte(std64.EncodeToString(ecbEncrypt(key, rec.plain)))
				}
				applyFault(r, &rec.q, p.bf, len(rec.q.body))
				req := rec.q.request(context.WithValue(context.Background(), reqKey{}, rec))
				rw := httptest.NewRecorder()
				r.Ev("invoke", int64(rec.id), int64(len(rec.q.body)))
				rec.t0 = time.Now()
				h.ServeHTTP(rw, req)
				rec.t1 = time.Now()
				r.Ev("return", int64(rec.id), int64(rw.Code), int64(rec.ran))
				r.Probe("oracle")
				desc := fmt.Sprintf("request %d (payload %s -> body %s, body reader: %s, limit %d, in flight %s .. %s)", rec.id, short(rec.plain), short(rec.q.body), p.bf, limit, stamp(rec.t0), stamp(rec.t1))
				if r.Tracing() {
					r.Logf("%s: handler %s; ran=%d status=%d read %s", desc, rec.plan.hb, rec.ran, rw.Code, short(rec.gotBody))
				}
				over := limit > 0 && int64(len(rec.q.body)) > limit
				if over {
					r.Probe("crypt-over-limit")
				}
				if rec.ran > 1 {
					r.Fail("crypt-handler-ran-twice", "%s: handler ran %d times", desc, rec.ran)
					return
				}
				if rec.ran == 0 {
					if over {
						continue // nothing stated about bodies above the configured limit
					}
					if rec.q.fault.hasError() {
						// the body could not be read the plain way: rejecting is fine (if the handler runs it must
						// have got the complete payload, see below)
						r.Probe("crypt-body-read-error-rejected")
						continue
					}
					if len(rec.plain) == 0 && len(rec.q.body) > 0 {
						w.finding("crypt-roundtrip-empty-payload", "%s: body is the AES-ECB/PKCS#7 encryption of the EMPTY payload; CryptionHandler answered %d and the handler was not called (round trip of the empty payload fails)", desc, rw.Code)
						continue
					}
					r.Fail("crypt-body-not-delivered", "%s: properly encrypted body did not reach the handler, status %d", desc, rw.Code)
					return
				}
				if p.chunked {
					r.Probe("crypt-chunked-request")
					if len(rec.q.body) > 0 && !bytes.Equal(rec.plain, rec.q.body) && rec.readErr == nil && bytes.Equal(rec.gotBody, rec.q.body) {
						w.finding(chunkedFinding, "%s: the encrypted body travels with undeclared length (chunked upload, ContentLength -1): the handler received the ciphertext as sent, not the decrypted payload", desc)
						continue
					}
				}
				if cls, txt := w.bodyProblem(rec, rec.plain); cls != "" {
					r.Fail("crypt-"+cls, "%s: %s", desc, txt)
					return
				}
				got := rw.Body.Bytes()
				dec, ok := clientDecrypt(key, got)
				if !ok || !bytes.Equal(dec, rec.respWant) {
					r.Fail("crypt-response-roundtrip", "%s: handler wrote %s; client received %s which does not decrypt to it", desc, short(rec.respWant), short(got))
					return
				}
				if rw.Code != http.StatusOK {
					r.Fail("crypt-status", "%s: handler wrote 200, client got %d", desc, rw.Code)
					return
				}
				r.Probe("crypt-roundtrip")
				if len(rec.plain)%16 == 0 || len(rec.respWant)%16 == 0 {
					r.Probe("crypt-block-aligned-payload")
				}
			}
		}))
	}
	if !r.JoinTimeout(80*24*time.Hour, tasks...) {
		r.Fail("stuck", "requests through CryptionHandler did not all return: %v", r.AliveTasks())
		return
	}
	r.Probe("nontrivial")
}
