package c13

import (
	"fmt"
	"net/url"
	"os"
	"sort"
	"strings"
	"testing"
	"time"

	"github.com/zeromicro/go-zero/core/discov"
	"github.com/zeromicro/go-zero/core/logx"
	zresolver "github.com/zeromicro/go-zero/zrpc/resolver"
	"google.golang.org/grpc/resolver"
	"google.golang.org/grpc/serviceconfig"
	v1 "k8s.io/api/core/v1"
	metav1 "k8s.io/apimachinery/pkg/apis/meta/v1"

	"verifsim/simharness"
	"verifsim/simrt"
)

// C13: service discovery view equals the live registrations.
//
// Real: discov.Subscriber + container, discov/internal registry/cluster (Monitor, load, watch,
// handleWatchEvents, handleChanges, reload), discov.Publisher, the etcd/discov resolver
// builders (through grpc's resolver registry), subset, kube.EventHandler.
// Stub: simetcd (simetcd_test.go), connection-state flaps (VerifTriggerReload), clock, scheduler.

// findings that are masked while developing (VERIF_C13_MASK=class,class): the scenario is
// still generated but only counted (probe "masked:<class>"), not reported.
var masked = map[string]bool{}

func init() {
	logx.Disable()
	zresolver.Register() // grpc's resolver registry may only be written at init time
	for _, c := range strings.Split(os.Getenv("VERIF_C13_MASK"), ",") {
		if c = strings.TrimSpace(c); c != "" {
			masked[c] = true
		}
	}
}

const (
	etcdHost  = "verif-etcd:2379"
	subsetMax = 32 // property text: "all of them when there are at most 32"
)

// lisRec: one listener of a subscriber.
type lisRec struct {
	notifies   int
	lastNotify []string // the view read inside the notification that started last
	lastStart  int
	base       []string // the view right after AddListener returned
}

type subRec struct {
	name     string
	prefix   string // the watched range: "svc/" (every key under it) or, for an exact-match subscriber, the full key
	key      string // the key given to NewSubscriber: "svc", or the full key together with WithExactMatch
	exact    bool
	excl     bool
	nLis     int // listeners added right after NewSubscriber returned (more may follow later)
	sub      *discov.Subscriber
	joined   bool
	closing  bool // Close has been called: the view is no longer followed
	lis      []*lisRec
	tainted  bool // a (masked) mismatch was already seen: no further set comparisons
	lateRace bool // joined an existing watcher while events of the range were in flight
	orphan   bool // joined an existing watcher after a watch stream of the range had been opened while nobody was subscribed
	staleEv  bool // one of its listeners was called by a watch goroutine whose stream had been cancelled (by the Close of an earlier subscriber)
	js       *joinState
	sawAll   bool // nothing had ever been registered under the prefix when it subscribed
}

type recCC struct {
	w         *world
	prefix    string
	updates   int
	invoked   int  // UpdateState calls made
	inflight  int  // ... of which have not taken effect yet
	lastInv   int  // invocation number of the call that took effect last
	overtaken bool // the state in effect comes from a call made BEFORE another call that took effect earlier
	slow      int  // > 0: calls yield up to that many times (and may take virtual time) before taking effect
	last      []string
	res       resolver.Resolver
	tainted   bool
	lateRace  bool
	orphan    bool
	staleEv   bool
	js        *joinState
	closing   bool // the resolver has been closed: its state is no longer followed
}

// UpdateState models grpc's ccResolverWrapper: the call takes the channel's lock before the
// state is installed, so a caller can be descheduled (or delayed) between making the call and
// the state taking effect; calls take effect in the order in which they get past that point.
// In "slow" runs (tape) a call yields and may take some virtual time before it is recorded.
func (c *recCC) UpdateState(s resolver.State) error {
	c.invoked++
	inv := c.invoked
	if !c.w.cleaning && c.w.st.cancelledStreamOwner(c.w.r.CurrentID()) {
		c.staleEv = true
		c.w.r.Probe("listener-called-by-cancelled-watch-goroutine")
	}
	c.inflight++
	defer func() { c.inflight-- }()
	if c.slow > 0 {
		t := c.w.r.Tape
		for i := t.Intn(c.slow + 1); i > 0; i-- {
			c.w.r.Yield()
		}
		if t.Chance(1, 4) {
			c.w.r.Sleep(time.Duration(1+t.Intn(20)) * time.Millisecond)
		}
	}
	if inv < c.lastInv {
		// this call was made before a call that has already taken effect
		c.overtaken = true
		c.w.r.Probe("resolver-update-overtaken")
	} else {
		c.overtaken = false
	}
	c.lastInv = inv
	c.updates++
	c.last = c.last[:0]
	for _, a := range s.Addresses {
		c.last = append(c.last, a.Addr)
	}
	c.last = append([]string(nil), c.last...)
	c.w.safety("resolver", c.prefix, c.last)
	return nil
}
func (c *recCC) ReportError(error)                                    {}
func (c *recCC) NewAddress(_ []resolver.Address)                      {}
func (c *recCC) ParseServiceConfig(string) *serviceconfig.ParseResult { return nil }

type pubRec struct {
	slot    int
	prefix  string
	key     string
	id      int64
	value   string
	pub     *discov.Publisher
	state   int // 0 never started, 1 running, 2 stopped, 3 crashed
	leaseAt int64
}

type world struct {
	r                        *simrt.Run
	t                        *simrt.Tape
	st                       *store
	cli                      *simClient
	endpoints                []string
	keysOf                   []string // key universe (full etcd keys)
	vals                     []string
	subs                     []*subRec
	cc                       *recCC
	pubs                     []*pubRec
	reloads                  []*simrt.Task
	allPubs                  []*discov.Publisher
	calm                     bool
	faulty                   bool
	joinsBegun               map[string]int
	clk                      int
	pendingClass, pendingMsg string
	log                      []string
	nOps                     int

	keyNames, prefixes []string
	exactKeys          [][]string     // per key name: the full keys an exact-match subscriber may watch
	extras             []string       // keys next to the watched prefixes (bare name, range end, longer name)
	holders            []*joinState   // every subscriber / resolver that has begun to subscribe
	closedOn           map[string]int // range -> Close calls completed
	joins, closes      []*simrt.Task
	scheme             string
	optExact           bool // WithExactMatch subscribers may be drawn
	optListeners       bool // 0-3 listeners per subscriber, more may be added later
	optLifecycle       bool // subscribers / the resolver may be closed in the middle of the run, new ones may subscribe
	slowLis            int  // > 0: listeners yield up to that many times and may take virtual time
	cbInflight         int  // listener calls that have not returned yet
	opsDone            bool
	cleaning           bool
}

func setOf(xs []string) map[string]bool {
	m := map[string]bool{}
	for _, x := range xs {
		m[x] = true
	}
	return m
}

func sorted(m map[string]bool) []string {
	out := make([]string, 0, len(m))
	for k := range m {
		out = append(out, k)
	}
	sort.Strings(out)
	return out
}

func sortedCopy(xs []string) []string {
	out := append([]string(nil), xs...)
	sort.Strings(out)
	return out
}

func sameSet(a, b map[string]bool) bool {
	if len(a) != len(b) {
		return false
	}
	for k := range a {
		if !b[k] {
			return false
		}
	}
	return true
}

// scenario classes of the defects this check has found in go-zero (reported; see RESULTS.md).
// A run that shows one of them goes on, and if it then shows any other violation, that one is
// reported instead: the recorded classes must not hide anything else.  (Static on purpose:
// replays and the shrinker run without the driver's list of known findings.)
var recorded = map[string]bool{
	"stale-value-after-update-in-place":                true,
	"exclusive-value-lost-after-update-in-place":       true,
	"value-lost-after-reload-with-changed-value":       true,
	"stale-value-after-reload-with-changed-value":      true,
	"exclusive-snapshot-ignores-registration-order":    true,
	"concurrent-first-subscribers-race":                true,
	"late-subscriber-races-with-watch-event":           true,
	"reload-deadlock-holding-cluster-lock":             true,
	"close-before-watch-setup-leaves-orphan-watcher":   true,
	"event-of-cancelled-stream-applied-to-new-watcher": true,
}

// fail reports a violation unless its class is masked for development.
func (w *world) fail(class, format string, a ...any) {
	if masked[class] {
		w.r.Probe("masked:" + class)
		if w.r.Tracing() {
			w.r.Logf("MASKED %s: %s", class, fmt.Sprintf(format, a...))
		}
		return
	}
	if recorded[class] {
		if w.pendingClass == "" {
			w.pendingClass, w.pendingMsg = class, fmt.Sprintf(format, a...)
			if w.r.Tracing() {
				w.r.Logf("RECORDED-CLASS %s: %s", class, w.pendingMsg)
			}
		}
		return
	}
	w.r.Fail(class, format, a...)
}

// flush reports the first recorded-class violation of the run when nothing else was found.
func (w *world) flush() {
	if w.pendingClass != "" && !w.r.Failed() {
		w.r.Fail(w.pendingClass, "%s", w.pendingMsg)
	}
}

// safety: at any time a view may only contain values that were registered under the prefix.
func (w *world) safety(who, prefix string, vals []string) {
	for _, v := range vals {
		if !w.st.ever[prefix][v] {
			w.fail("never-registered-value", "%s shows %q which was never registered under %s (view %v)", who, v, prefix, vals)
			return
		}
	}
}

// expected: the property's right hand side, computed from the store (the live
// registrations), as an interval: required <= Values() <= allowed.
//
// plain subscriber: both are { value(k) : k live under the prefix }.
//
// exclusive subscriber ("only the most recently registered key of each value counts"): a
// value no live key holds is forbidden; a value whose most recent registration (highest
// revision PUT of that value) is a key that is still live with that value is required.  A
// value that is held only by keys which registered it before a later registrant of the same
// value went away again is optional: whether such a key still counts depends on whether the
// subscriber saw the later registration as an event (evicted for good) or only knows the
// current snapshot, and the property text does not decide that.
//
// exact: the exclusive subscriber has seen every registration of the prefix as an event, in
// order (it subscribed before anything was registered, no reload, no second stream, no
// snapshot with a shared value): then the optional case does not exist - a key that was
// superseded by a later registrant of its value is out for good - and the view must be
// exactly the required set.
func (w *world) expected(prefix string, excl, exact bool) (required, allowed map[string]bool) {
	required, allowed = map[string]bool{}, map[string]bool{}
	live := w.st.live(prefix)
	for _, v := range live {
		allowed[v] = true
	}
	if !excl {
		return allowed, allowed
	}
	for v, k := range w.st.lastPut[prefix] {
		if cur, ok := live[k]; ok && cur == v {
			required[v] = true
		}
	}
	if exact {
		w.r.Probe("exclusive-exact-oracle")
		return required, required
	}
	return required, allowed
}

// exactExclusive: see expected.
func (w *world) exactExclusive(s *subRec) bool {
	vt := w.st.view(s.prefix)
	// "saw every registration as an ordered event": nothing was registered when the subscriber
	// attached AND when the range's first (only) snapshot was taken -- a subscriber may attach to
	// a watcher whose initial load, run by a concurrent first subscriber, is still to come
	return s.excl && s.sawAll && vt.snapshots <= 1 && (vt.snapshots == 0 || vt.firstSnapBlank) && !vt.dupWatch && len(vt.snapAmbig) == 0
}

func within(got, required, allowed map[string]bool) bool {
	for v := range got {
		if !allowed[v] {
			return false
		}
	}
	for v := range required {
		if !got[v] {
			return false
		}
	}
	return true
}

// joinState: where one subscriber (or the resolver's) stands between NewSubscriber and Close.
type joinState struct {
	rng         string
	task        int  // the task that called NewSubscriber
	loadsBefore int  // snapshots of the range that task had been served before the call
	attached    bool // NewSubscriber has returned
	closed      bool // Close has returned (or NewSubscriber failed)
}

// holdersOf: how many subscribers hold the watcher of the range right now, i.e. are attached,
// or are the first subscriber of the range and have loaded it (the watch stream of a new
// watcher is opened by its own goroutine some time after that load).  A watch stream that
// go-zero opens while nobody holds the range belongs to a watcher that was dropped already.
func (w *world) holdersOf(rng string) int {
	n := 0
	for _, j := range w.holders {
		if j.rng == rng && !j.closed && (j.attached || w.st.loadsBy[j.task][rng] > j.loadsBefore) {
			n++
		}
	}
	return n
}

// feat: history features of one subscriber (or of the resolver's), see subRec.
type feat struct{ lateRace, orphan, staleEv bool }

// classify names the scenario class of a view mismatch (history features only).
func (w *world) classify(prefix string, excl bool, f feat, got, required, allowed map[string]bool) string {
	lateRace, orphan := f.lateRace, f.orphan
	var extra, missing []string
	for v := range got {
		if !allowed[v] {
			extra = append(extra, v)
		}
	}
	for v := range required {
		if !got[v] {
			missing = append(missing, v)
		}
	}
	vt := w.st.view(prefix)
	live := w.st.live(prefix)
	// every differing value is attributed to a recorded scenario class if the history has the
	// feature that class needs; one value without such a feature makes the mismatch generic
	causes, mcauses := map[string]bool{}, map[string]bool{}
	unexplained := false
	// The classes of defects that are still open are tried first: a history that has the feature
	// of an open defect (snapshot without registration order, two racing first subscribers, a
	// subscriber attached while events were in flight) is attributed to it; the classes of the
	// defects that have been repaired (update in place, reload with a changed value) are named
	// only for histories without any such feature, so that their return is reported.
	for _, v := range extra {
		switch {
		case excl && vt.snapAmbig[v]:
			causes["exclusive-snapshot-ignores-registration-order"] = true
		case vt.dupWatch:
			causes["concurrent-first-subscribers-race"] = true
		case f.staleEv || vt.oldWatchAlive:
			causes["event-of-cancelled-stream-applied-to-new-watcher"] = true
		case lateRace:
			causes["late-subscriber-races-with-watch-event"] = true
		case vt.overwritten[v]:
			// stale value that was overwritten in place by a delivered PUT of the same key
			causes["stale-value-after-update-in-place"] = true
		case vt.reloadOverwritten[v]:
			// ... or by a reload snapshot in which the key had another value
			causes["stale-value-after-reload-with-changed-value"] = true
		default:
			unexplained = true
		}
	}
	for _, v := range missing {
		switch {
		case excl && vt.snapAmbig[v]:
			// exclusive: a snapshot (initial load, reload, the registry's current values handed to
			// a late subscriber) carries no registration order: v was held by two keys in a
			// snapshot, which one "registered last" is decided by map iteration order
			mcauses["exclusive-snapshot-ignores-registration-order"] = true
		case vt.dupWatch:
			// two first subscribers raced through Registry.Monitor: both loaded a snapshot (the
			// later one found nothing new to announce, so its listener never got the initial
			// values) and both started a watch stream, so two goroutines feed the listeners
			mcauses["concurrent-first-subscribers-race"] = true
		case excl && vt.snapshots >= 2:
			// exclusive, after a reload: the value-only diff of a reload cannot see that the
			// holder of v registered again while the watch was interrupted
			mcauses["exclusive-snapshot-ignores-registration-order"] = true
		case orphan:
			// Close of the only subscriber ran before the watch goroutine had set up its stream
			// (NewSubscriber returns before that): Unmonitor found no cancel function and dropped
			// the watcher, setupWatch then re-created it without listeners and with empty values and
			// opened a stream nobody can cancel; this subscriber attached to that watcher and was
			// handed its (incomplete) values instead of a loaded snapshot
			mcauses["close-before-watch-setup-leaves-orphan-watcher"] = true
		case f.staleEv || vt.oldWatchAlive:
			// the last subscriber of the range was closed (its stream's context cancelled) and a new
			// one subscribed; the old watch goroutine had received a response before (or its select
			// still took one after the cancel) and handleWatchEvents, which finds the watcher by key,
			// applied those old events to the new watcher after its snapshot (the new stream starts
			// behind them)
			mcauses["event-of-cancelled-stream-applied-to-new-watcher"] = true
		case lateRace:
			// attached to an existing watcher while events were in flight (Monitor hands over the
			// registry's current values, handleWatchEvents calls the listeners it captured before
			// applying the events)
			mcauses["late-subscriber-races-with-watch-event"] = true
		case excl && len(vt.overwritten) > 0 && vt.movedTo(live, v):
			// exclusive: the key holding v was updated in place before; a stale entry under the
			// old value would make a later eviction of the old value hit its current registration
			mcauses["exclusive-value-lost-after-update-in-place"] = true
		case vt.reloadNew[v]:
			// some key got v in a reload that changed the key's value
			mcauses["value-lost-after-reload-with-changed-value"] = true
		default:
			unexplained = true
		}
	}
	if !unexplained {
		// a missing live value names the class (a stale value next to it is usually its
		// consequence: the event that would have replaced it was the one that got lost)
		order := []string{"exclusive-snapshot-ignores-registration-order", "concurrent-first-subscribers-race", "close-before-watch-setup-leaves-orphan-watcher", "event-of-cancelled-stream-applied-to-new-watcher", "late-subscriber-races-with-watch-event",
			"stale-value-after-update-in-place", "exclusive-value-lost-after-update-in-place",
			"stale-value-after-reload-with-changed-value", "value-lost-after-reload-with-changed-value"}
		for _, c := range order {
			if mcauses[c] {
				return c
			}
		}
		for _, c := range order {
			if causes[c] {
				return c
			}
		}
	}
	kind := "view-mismatch"
	switch {
	case len(missing) == 0:
		kind = "stale-value"
	case len(extra) == 0:
		kind = "missing-value"
	}
	if excl {
		kind = "exclusive-" + kind
	}
	return kind
}

// checkViews compares every joined subscriber (and the resolver) with the live set.  Only
// called at quiescence with nothing in flight.
func (w *world) checkViews(when string) {
	w.r.Probe("oracle")
	// UpdateState calls and listener calls that are still on their way (slow runs) finish first
	for i := 0; (w.cbInflight > 0 || (w.cc != nil && w.cc.inflight > 0)) && i < 200; i++ {
		w.r.Sleep(5 * time.Millisecond)
		w.r.Quiesce()
	}
	for _, s := range w.subs {
		if !s.joined || s.tainted || s.closing {
			continue
		}
		if s.exact {
			w.r.Probe("oracle-exact-match-subscriber")
		}
		got := setOf(s.sub.Values())
		req, allow := w.expected(s.prefix, s.excl, w.exactExclusive(s))
		if !within(got, req, allow) {
			s.tainted = true
			want := fmt.Sprint(sorted(allow))
			if s.excl {
				want = fmt.Sprintf("at least %v and at most %v", sorted(req), sorted(allow))
			}
			w.fail(w.classify(s.prefix, s.excl, feat{s.lateRace, s.orphan, s.staleEv}, got, req, allow), "%s: %s (exclusive=%v) Values()=%v, live registrations under %s give %s (live keys %v); history: %s",
				when, s.name, s.excl, sorted(got), s.prefix, want, fmtLive(w.st.live(s.prefix)), w.history())
		}
	}
	if c := w.cc; c != nil && c.res != nil && !c.tainted && !c.closing {
		got := setOf(c.last)
		exp, _ := w.expected(c.prefix, false, false)
		switch {
		case len(got) != len(c.last):
			c.tainted = true
			w.fail("resolver-duplicate-address", "%s: resolver published duplicates: %v", when, c.last)
		case len(exp) <= subsetMax:
			if !sameSet(got, exp) {
				c.tainted = true
				req := exp
				if len(got) == subsetMax {
					// the resolver's own view holds more than 32 values (stale ones included) and
					// was truncated: what is missing says nothing, name the class by the extras
					req = map[string]bool{}
				}
				cls := w.classify(c.prefix, false, feat{c.lateRace, c.orphan, c.staleEv}, got, req, exp)
				if cls == "view-mismatch" || cls == "stale-value" || cls == "missing-value" {
					cls = "resolver-" + cls
					if c.overtaken {
						// two update() calls of the resolver overlapped: the one that read the
						// subscriber's values first installed its state last
						cls = "resolver-stale-state-installed-by-overtaken-update"
					}
				}
				w.fail(cls, "%s: resolver's last UpdateState has %v, live registrations under %s give %v (%d updates); history: %s",
					when, sorted(got), c.prefix, sorted(exp), c.updates, w.history())
			}
		default:
			extra := map[string]bool{}
			for v := range got {
				if !exp[v] {
					extra[v] = true
				}
			}
			switch {
			case len(extra) > 0:
				c.tainted = true
				rest := map[string]bool{}
				for v := range got {
					if !extra[v] {
						rest[v] = true
					}
				}
				cls := w.classify(c.prefix, false, feat{c.lateRace, c.orphan, c.staleEv}, got, rest, rest)
				if cls == "stale-value" {
					cls = "resolver-subset"
				}
				w.fail(cls, "%s: %d live addresses; resolver's last UpdateState contains %v which are not live", when, len(exp), sorted(extra))
			case len(got) != subsetMax:
				c.tainted = true
				cls := w.classify(c.prefix, false, feat{c.lateRace, c.orphan, c.staleEv}, got, exp, exp)
				if cls == "missing-value" {
					cls = "resolver-subset"
				}
				w.fail(cls, "%s: %d live addresses; resolver's last UpdateState has %d addresses, want a %d-subset of the live ones: %v",
					when, len(exp), len(got), subsetMax, sorted(got))
			default:
				w.r.Probe("resolver-subset-of-more-than-32")
			}
		}
	}
}

// checkNotified: every change of a view was followed by a listener notification, i.e. the
// view read inside the last notification is the final view.
func (w *world) checkNotified() {
	for _, s := range w.subs {
		if !s.joined || s.closing {
			continue
		}
		final := sortedCopy(s.sub.Values())
		for i, l := range s.lis {
			ref, what := l.base, "the view right after AddListener (no notification since)"
			if l.notifies > 0 {
				ref, what = l.lastNotify, fmt.Sprintf("the view inside the last of %d notifications", l.notifies)
			}
			if i > 0 {
				w.r.Probe("oracle-second-listener")
			}
			if fmt.Sprint(final) != fmt.Sprint(ref) {
				w.fail("change-without-notification", "%s listener %d of %d: final Values()=%v but %s was %v: a change was not followed by a call of this listener; history: %s",
					s.name, i+1, len(s.lis), final, what, ref, w.history())
			}
		}
	}
}

func fmtLive(m map[string]string) string {
	var ks []string
	for k := range m {
		ks = append(ks, k)
	}
	sort.Strings(ks)
	var b strings.Builder
	for _, k := range ks {
		fmt.Fprintf(&b, "%s=%s ", k, m[k])
	}
	return strings.TrimSpace(b.String())
}

func (w *world) history() string {
	if len(w.log) > 40 {
		return strings.Join(w.log[:40], "; ") + "; ..."
	}
	return strings.Join(w.log, "; ")
}

func (w *world) op(format string, a ...any) {
	s := fmt.Sprintf(format, a...)
	w.log = append(w.log, s)
	if w.r.Tracing() {
		w.r.Logf("OP %s", s)
	}
}

// joinWindow brackets a NewSubscriber call; the returned function reports whether the
// subscriber attached to an already watched range while events of that range were in
// flight (delivered to go-zero within the last few virtual seconds, during the call, or
// not delivered yet).  Used only to name the scenario class of a mismatch.
//
// "Attached to an already watched range" is known exactly: the first subscriber of a range
// (also the first one after every earlier one was closed) loads the range itself, i.e. its
// task issues a Get of the range during the call; a subscriber joining an existing watcher
// never does.
func (w *world) joinWindow(prefix string) (*joinState, func() (race, orphan bool)) {
	if w.joinsBegun == nil {
		w.joinsBegun = map[string]int{}
	}
	w.joinsBegun[prefix]++
	me := w.r.CurrentID()
	getsBefore := w.st.getsBy[me][prefix]
	js := &joinState{rng: prefix, task: me, loadsBefore: w.st.loadsBy[me][prefix]}
	w.holders = append(w.holders, js)
	vt := w.st.view(prefix)
	upToDate := func() bool {
		live := w.st.live(prefix)
		if len(live) != len(vt.cur) {
			return false
		}
		for k, v := range live {
			if vt.cur[k] != v {
				return false
			}
		}
		return true
	}
	rev, del, snaps, begun := w.st.rev, vt.deliveries, vt.snapshots, vt.sendsBegun
	sending := vt.sendsBegun != vt.deliveries // a batch is on its way to the watch goroutine right now
	recent := vt.deliveries > 0 && time.Since(vt.lastDelivery) <= 5*time.Second
	// a reload snapshot (the 2nd or a later Get of the range) handed to go-zero a moment ago or
	// during the call is in flight in the same sense: handleChanges applies it to the listeners
	// it captured, a subscriber attaching meanwhile may replay the values from before it
	recent = recent || (vt.snapshots >= 2 && time.Since(vt.lastSnapshot) <= 5*time.Second)
	// events of the range that exist in the store but have not been handed to go-zero yet are in
	// flight too, even if they cancel out (put + delete) so that the contents agree
	behind := func() bool { return vt.toldRev < w.st.modRev[prefix] }
	lag := !upToDate() || behind()
	return js, func() (bool, bool) {
		js.attached = true
		late := w.st.getsBy[me][prefix] == getsBefore
		if !late && w.closedOn[prefix] > 0 {
			w.r.Probe("first-subscriber-again-after-close")
		}
		race := late && (recent || lag || sending || begun != vt.sendsBegun || vt.sendsBegun != vt.deliveries || rev != w.st.rev || del != vt.deliveries || snaps != vt.snapshots || !upToDate() || behind())
		if race {
			w.r.Probe("late-join-with-events-in-flight")
		}
		return race, late && vt.orphanWatch
	}
}

// join creates a subscriber (in its own task: a hang must become a verdict).
func (w *world) join(s *subRec) *simrt.Task {
	return w.r.Go("join-"+s.name, func() {
		var opts []discov.SubOption
		if s.excl {
			opts = append(opts, discov.Exclusive())
		}
		if s.exact {
			opts = append(opts, discov.WithExactMatch())
			w.r.Probe("exact-match-subscriber")
		}
		if s.excl && s.exact && w.t.Bool() {
			opts[0], opts[1] = opts[1], opts[0] // the order of options must not matter
		}
		// a snapshot handed to an exclusive subscriber in which two keys share a value
		// does not say which one registered last
		if s.excl {
			w.markAmbiguous(s.prefix)
		}
		js, done := w.joinWindow(s.prefix)
		s.js = js
		// every caller has its own endpoints slice (the registry sorts it in place)
		sub, err := discov.NewSubscriber(append([]string(nil), w.endpoints...), s.key, opts...)
		s.lateRace, s.orphan = done()
		s.sawAll = len(w.st.ever[s.prefix]) == 0 // still nothing registered now that it is attached
		if err != nil {
			js.closed = true
			w.r.Fail("subscribe-error", "NewSubscriber(%s): %v", s.key, err)
			return
		}
		if s.excl {
			w.markAmbiguous(s.prefix)
		}
		s.sub = sub
		for i := 0; i < s.nLis; i++ {
			w.addListener(s)
		}
		if s.nLis != 1 {
			w.r.Probe(fmt.Sprintf("subscriber-with-%d-listeners", s.nLis))
		}
		s.joined = true
	})
}

// addListener adds one more recording listener to the subscriber.
func (w *world) addListener(s *subRec) {
	l := &lisRec{}
	s.lis = append(s.lis, l)
	sub := s.sub
	sub.AddListener(func() {
		l.notifies++
		w.clk++
		start := w.clk
		if !w.cleaning && w.st.cancelledStreamOwner(w.r.CurrentID()) {
			s.staleEv = true
			w.r.Probe("listener-called-by-cancelled-watch-goroutine")
		}
		vals := sortedCopy(sub.Values())
		// notifications may overlap (two watch goroutines): the one that STARTED last read
		// the view after the last change
		if start > l.lastStart {
			l.lastStart, l.lastNotify = start, vals
		}
		w.safety(s.name, s.prefix, vals)
		w.slowCallback()
	})
	l.base = sortedCopy(sub.Values())
}

// slowCallback: in "slow listener" runs a listener call yields and may take virtual time
// before it returns (it runs on go-zero's watch goroutine, the joiner's or a reload's).
func (w *world) slowCallback() {
	if w.slowLis == 0 {
		return
	}
	t := w.t
	w.cbInflight++
	defer func() { w.cbInflight-- }()
	for i := t.Intn(w.slowLis + 1); i > 0; i-- {
		w.r.Yield()
	}
	if t.Chance(1, 4) {
		w.r.Probe("listener-took-virtual-time")
		w.r.Sleep(time.Duration(1+t.Intn(20)) * time.Millisecond)
	}
}

// closeSub closes a subscriber in the middle of the run (own task: Close needs the cluster lock).
func (w *world) closeSub(s *subRec) {
	s.closing = true
	w.op("%s closes", s.name)
	w.r.Probe("subscriber-closed-mid-run")
	w.closes = append(w.closes, w.r.Go("close-"+s.name, func() {
		s.sub.Close()
		s.js.closed = true
		w.closedOn[s.prefix]++
	}))
}

// drawSub draws the shape of one more subscriber of the key name with index pi.
func (w *world) drawSub(pi int) *subRec {
	t := w.t
	s := &subRec{name: fmt.Sprintf("sub%d", len(w.subs)), key: w.keyNames[pi], prefix: w.prefixes[pi], excl: t.Bool(), nLis: 1}
	if w.optExact && t.Chance(1, 3) {
		c := w.exactKeys[pi]
		s.key = c[t.Intn(len(c))]
		s.prefix, s.exact = s.key, true
	}
	if w.optListeners {
		s.nLis = []int{1, 2, 0, 3}[t.Intn(4)]
	}
	return s
}

// buildResolver builds the gRPC resolver of the first key name (own task, like join).
func (w *world) buildResolver() *simrt.Task {
	r := w.r
	return r.Go("build-resolver", func() {
		b := resolver.Get(w.scheme)
		if b == nil {
			r.Fail("resolver-not-registered", "scheme %s is not registered", w.scheme)
			return
		}
		u, _ := url.Parse(fmt.Sprintf("%s://%s/%s", w.scheme, etcdHost, w.keyNames[0]))
		js, done := w.joinWindow(w.prefixes[0])
		w.cc.js = js
		res, err := b.Build(resolver.Target{URL: *u}, w.cc, resolver.BuildOptions{})
		w.cc.lateRace, w.cc.orphan = done()
		if err != nil {
			js.closed = true
			r.Fail("resolver-build-error", "Build: %v", err)
			return
		}
		w.cc.res = res
	})
}

// drawKey / drawVal: the key of a direct store write and the value written to it.  Keys next to
// the watched prefixes (extras) mostly carry addresses of their own, so that a view that takes
// one of them in shows a value that was never registered under the watched range.
func (w *world) drawKey() string {
	if len(w.extras) > 0 && w.t.Chance(1, 4) {
		w.r.Probe("op-on-key-next-to-the-prefix")
		return w.extras[w.t.Intn(len(w.extras))]
	}
	return w.keysOf[w.t.Intn(len(w.keysOf))]
}

func (w *world) drawVal(key string) string {
	for _, x := range w.extras {
		if x == key && w.t.Chance(2, 3) {
			return fmt.Sprintf("10.9.0.%d:80", 1+w.t.Intn(2))
		}
	}
	return w.vals[w.t.Intn(len(w.vals))]
}

func (w *world) markAmbiguous(prefix string) {
	vt := w.st.view(prefix)
	for _, m := range []map[string]string{vt.cur, w.st.live(prefix)} {
		cnt := map[string]int{}
		for _, v := range m {
			cnt[v]++
		}
		for v, c := range cnt {
			if c >= 2 {
				vt.snapAmbig[v] = true
			}
		}
	}
}

func (w *world) think() {
	t := w.t
	switch t.Intn(8) {
	case 0, 1, 2, 3:
	case 4:
		for i := t.Range(1, 3); i > 0; i-- {
			w.r.Yield()
		}
	case 5:
		w.r.Sleep(time.Duration(t.Range(1, 50)) * time.Millisecond)
	case 6:
		w.r.Sleep(time.Duration(t.Range(1, 3)) * time.Second)
	default:
		w.r.Sleep(time.Duration(t.Range(4, 12)) * time.Second)
	}
}

func (w *world) startPub(p *pubRec) {
	var opts []discov.PubOption
	if p.id > 0 {
		opts = append(opts, discov.WithId(p.id))
	}
	p.pub = discov.NewPublisher(w.endpoints, p.key, p.value, opts...)
	w.allPubs = append(w.allPubs, p.pub)
	before := w.st.nextLease
	if err := discov.VerifPublisherKeepAlive(p.pub); err != nil {
		w.r.Fail("publisher-error", "Publisher.KeepAlive: %v", err)
		return
	}
	p.leaseAt = before + 1
	p.state = 1
}

// currentLease finds the lease the publisher's registration hangs on right now.
func (w *world) leasesOf(p *pubRec) []*lease {
	var out []*lease
	var ids []int64
	for id := range w.st.leases {
		ids = append(ids, id)
	}
	sort.Slice(ids, func(i, j int) bool { return ids[i] < ids[j] })
	for _, id := range ids {
		l := w.st.leases[id]
		for k := range l.keys {
			full := fmt.Sprintf("%s/%d", p.key, id)
			if p.id > 0 {
				full = fmt.Sprintf("%s/%d", p.key, p.id)
			}
			if k == full && w.st.kvs[k] != nil && w.st.kvs[k].val == p.value {
				out = append(out, l)
			}
		}
	}
	return out
}

func discovScenario(r *simrt.Run, tier string) {
	t := r.Tape
	w := &world{r: r, t: t, endpoints: []string{etcdHost}, closedOn: map[string]int{}}
	defer w.flush()
	defer func() { w.opsDone = true }()
	thorough := tier == "thorough"

	// ---- shape of the run
	nKeys := t.Range(1, 5)
	nVals := t.Range(1, 3)
	nPrefix := 1
	if t.Chance(1, 4) {
		nPrefix = 2
	}
	keyNames := []string{"svc", "alt"}[:nPrefix]
	var prefixes []string
	for _, k := range keyNames {
		prefixes = append(prefixes, k+"/")
	}
	w.keyNames, w.prefixes = keyNames, prefixes
	for i := 0; i < nVals; i++ {
		w.vals = append(w.vals, fmt.Sprintf("10.0.0.%d:80", i+1))
	}
	for i := 0; i < nKeys; i++ {
		w.keysOf = append(w.keysOf, fmt.Sprintf("%s%d", prefixes[i%nPrefix], i+1))
	}
	// option switches of the run (each off when its draw is 0)
	w.optExact = t.Chance(1, 4)
	optNeighbours := t.Chance(1, 3)
	w.optLifecycle = t.Chance(1, 3)
	w.optListeners = t.Chance(1, 3)
	if t.Chance(1, 4) {
		w.slowLis = 1 + t.Intn(3)
	}
	optPoller := t.Chance(1, 5)
	// the ranges a subscriber may watch: every key name as a prefix, and (exact match) the bare
	// name and the first key under the prefix
	ranges := append([]string(nil), prefixes...)
	for pi, k := range keyNames {
		c := []string{k}
		if pi < nKeys {
			c = append(c, w.keysOf[pi])
		}
		w.exactKeys = append(w.exactKeys, c)
		if w.optExact {
			ranges = append(ranges, c...)
		}
		switch {
		case optNeighbours:
			// the bare name, the end of the prefix range ('0' = '/'+1), a longer name
			w.extras = append(w.extras, k, k+"0", k+"b/1")
		case w.optExact:
			w.extras = append(w.extras, k)
		}
	}
	w.st = newStore(r, ranges)
	w.st.openSubs = w.holdersOf
	w.cli = newSimClient(w.st)
	w.faulty = t.Chance(1, 2)
	if w.faulty {
		w.st.faultsOn = true
		w.st.fc = faultCfg{
			delayPct:     []int{0, 10, 30, 60}[t.Intn(4)],
			maxDelay:     []time.Duration{5 * time.Millisecond, 500 * time.Millisecond, 5 * time.Second}[t.Intn(3)],
			streamPct:    []int{0, 2, 5, 15}[t.Intn(4)],
			streamBudget: 4,
			getLatency:   t.Bool(),
		}
	}
	w.calm = !w.faulty && r.Cfg().StallPerMille == 0
	maxOps := 10
	if thorough {
		maxOps = 24
	}
	nOps := t.Range(1, maxOps)
	w.nOps = nOps

	// subscribers
	w.subs = append(w.subs, w.drawSub(0))
	lateAt := -1
	if t.Chance(1, 2) {
		w.subs = append(w.subs, w.drawSub(t.Intn(nPrefix)))
		lateAt = t.Intn(nOps + 1) // 0: together with sub0
	}
	useResolver := t.Chance(1, 2)
	w.scheme = "etcd"
	bulk := 0
	resolverAt := 0 // 0: built at the start, i > 0: before operation i
	if useResolver {
		if t.Bool() {
			w.scheme = "discov"
		}
		if t.Chance(1, 6) {
			bulk = t.Range(15, 40)
		}
		if t.Chance(1, 4) {
			resolverAt = t.Intn(nOps + 1)
		}
	}
	// publishers
	nPubs := t.Intn(5)
	for i := 0; i < nPubs; i++ {
		pi := t.Intn(nPrefix)
		p := &pubRec{slot: i, key: keyNames[pi], prefix: prefixes[pi], value: w.vals[t.Intn(nVals)]}
		if t.Bool() {
			p.id = int64(t.Range(1, nKeys)) // shares the key space of the direct writes
		}
		w.pubs = append(w.pubs, p)
	}

	discov.VerifResetRegistry()
	restore := discov.VerifSetEtcdFactory(func([]string) (discov.VerifEtcdClient, error) { return w.cli, nil })
	defer restore()
	bg := func(name string) bool {
		// the connection-state watcher (the only plain go statement reached in registry.go) never ends
		return strings.HasPrefix(name, "core/discov/internal/registry.go") || strings.HasPrefix(name, "simetcd.")
	}

	// ---- registrations that exist before anybody subscribes
	for i := t.Intn(4); i > 0; i-- {
		k := w.drawKey()
		v := w.drawVal(k)
		w.op("put %s=%s", k, v)
		w.st.put(k, v, 0)
	}
	for i := 0; i < bulk; i++ {
		w.st.put(fmt.Sprintf("%sb%02d", prefixes[0], i), fmt.Sprintf("10.1.0.%d:80", i+1), 0)
	}
	if bulk > 0 {
		w.op("put %d bulk keys with distinct values", bulk)
		r.Probe("bulk")
	}

	var shapes []string
	for _, s := range w.subs {
		shapes = append(shapes, fmt.Sprintf("%s key=%s exact=%v exclusive=%v listeners=%d", s.name, s.key, s.exact, s.excl, s.nLis))
	}
	r.Sample(map[string]any{"scenario": "discov", "keys": nKeys, "values": nVals, "prefixes": nPrefix, "ops": nOps, "publishers": nPubs,
		"subscribers": shapes, "late_join_at": lateAt, "resolver": useResolver, "resolver_built_before_op": resolverAt, "bulk_keys": bulk,
		"keys_next_to_the_prefix": w.extras, "exact_match_allowed": w.optExact, "close_and_resubscribe_ops": w.optLifecycle,
		"listener_count_varies": w.optListeners, "slow_listeners": w.slowLis, "concurrent_values_reader": optPoller,
		"faults": fmt.Sprintf("%+v", w.st.fc), "calm_exact_checks_after_each_op": w.calm})

	// ---- subscribers
	// (one after the other unless drawn otherwise: two first subscribers racing through
	// Registry.Monitor is a scenario class of its own)
	concurrentJoins := t.Chance(1, 5)
	started := func(tk *simrt.Task) bool {
		w.joins = append(w.joins, tk)
		if concurrentJoins {
			return true
		}
		if !r.JoinTimeout(10*time.Minute, tk) {
			if w.faulty {
				return true // Gets may be failing; the wait after the faults decides
			}
			r.Fail("subscribe-stuck", "NewSubscriber / resolver Build did not return within 10 virtual minutes without any fault: %v", r.AliveTasks())
			return false
		}
		return true
	}
	if !started(w.join(w.subs[0])) {
		return
	}
	if lateAt == 0 && !started(w.join(w.subs[1])) {
		return
	}
	if useResolver {
		w.cc = &recCC{w: w, prefix: prefixes[0]}
		if t.Chance(1, 2) {
			w.cc.slow = 1 + t.Intn(3)
		}
		if resolverAt == 0 && !started(w.buildResolver()) {
			return
		}
	}
	if !w.faulty {
		if !r.JoinTimeout(10*time.Minute, w.joins...) {
			r.Fail("subscribe-stuck", "NewSubscriber / resolver Build did not return within 10 virtual minutes without any fault: %v", r.AliveTasks())
			return
		}
		w.joins = nil
	}
	r.MarkBackground(bg)
	if optPoller {
		w.poller()
	}

	// ---- operations
	for i := 0; i < nOps && !r.Failed(); i++ {
		w.think()
		if lateAt == i+1 {
			w.joins = append(w.joins, w.join(w.subs[1]))
			w.op("sub1 joins")
			r.Probe("late-join")
		}
		if useResolver && resolverAt == i+1 {
			w.joins = append(w.joins, w.buildResolver())
			w.op("resolver is built")
			r.Probe("resolver-built-late")
		}
		w.step()
		for _, s := range w.subs {
			if s.joined {
				w.safety(s.name, s.prefix, s.sub.Values())
			}
		}
		if w.calm {
			// nothing is delayed and nobody stalls: once every task is blocked the change is fully applied
			r.Quiesce()
			w.checkViews(fmt.Sprintf("after op %d", i+1))
		}
	}
	w.opsDone = true
	if r.Failed() {
		w.cleanup()
		return
	}

	// ---- faults stop; bounded virtual time to converge
	w.st.faultsOn = false
	w.st.getFail = 0
	joinsDone := r.JoinTimeout(10*time.Minute, w.joins...)
	reloadsDone := r.JoinTimeout(10*time.Minute, w.reloads...)
	closesDone := r.JoinTimeout(10*time.Minute, w.closes...)
	if !reloadsDone {
		class := "reload-stuck"
		if w.reloadHoldsLock() {
			// scenario class: reload waits for the watch goroutines while holding the cluster
			// lock, and one of them needs that lock (load -> handleChanges, handleWatchEvents)
			class = "reload-deadlock-holding-cluster-lock"
		}
		w.fail(class, "cluster.reload (reconnect) did not finish within 10 virtual minutes after the last fault; alive: %v; history: %s", r.AliveTasks(), w.history())
		w.cleanup()
		return
	}
	if !joinsDone {
		w.fail("subscribe-stuck", "NewSubscriber / resolver Build did not return within 10 virtual minutes after the last fault: %v; history: %s", r.AliveTasks(), w.history())
		w.cleanup()
		return
	}
	if !closesDone {
		w.fail("close-stuck", "Subscriber.Close / resolver Close did not return within 10 virtual minutes after the last fault: %v; history: %s", r.AliveTasks(), w.history())
		w.cleanup()
		return
	}
	r.MarkBackground(bg)
	stable, prev := 0, ""
	abandoned := map[int]int{}
	for round := 0; round < 12 && stable < 2; round++ {
		r.Sleep(30 * time.Second)
		r.Quiesce()
		now := fmt.Sprint(w.st.rev, len(w.st.leases))
		caught := true
		for _, wt := range w.st.watchers {
			if wt.caughtUp() {
				continue
			}
			// a stream nobody has received from for a whole round is abandoned (go-zero keeps
			// only the latest cancel function per key, so a superseded stream is never
			// cancelled); it cannot change any view any more
			if wt.inSend && abandoned[wt.id] == wt.sent+1 {
				continue
			}
			caught = false
			if wt.inSend {
				abandoned[wt.id] = wt.sent + 1
			}
		}
		for _, s := range w.subs {
			if s.joined {
				now += fmt.Sprint(sortedCopy(s.sub.Values()))
			}
		}
		if w.cc != nil {
			now += fmt.Sprint(sortedCopy(w.cc.last))
		}
		if w.cbInflight > 0 {
			caught = false
		}
		if caught && now == prev {
			stable++
		} else {
			stable = 0
		}
		prev = now
	}
	if stable < 2 {
		w.fail("no-convergence", "views / store still changing 6 virtual minutes after the last fault and operation; alive: %v; history: %s", r.AliveTasks(), w.history())
		w.cleanup()
		return
	}
	w.checkViews("at quiescence after the last fault")
	w.checkNotified()
	for _, s := range w.subs {
		n := 0
		for _, l := range s.lis {
			n += l.notifies
		}
		r.Ev("final-"+s.name, int64(len(s.sub.Values())), int64(n))
	}
	w.cleanup()
}

// step performs one drawn operation.
func (w *world) step() {
	t, r := w.t, w.r
	nVals := len(w.vals)
	kinds := []int{0, 0, 0, 1, 1}
	if len(w.pubs) > 0 {
		kinds = append(kinds, 2, 2, 3, 4, 5)
	}
	if w.faulty {
		kinds = append(kinds, 6, 7, 8, 9)
	}
	if w.optLifecycle {
		kinds = append(kinds, 10, 10, 11, 11)
	}
	if w.optListeners {
		kinds = append(kinds, 12)
	}
	switch kinds[t.Intn(len(kinds))] {
	case 0: // put: new key, same value again, update in place to a new value, value shared with another key
		k := w.drawKey()
		v := w.drawVal(k)
		if e := w.st.kvs[k]; e != nil && e.val != v {
			r.Probe("op-update-in-place")
		}
		w.op("put %s=%s", k, v)
		r.Ev("put", int64(t.Pos()))
		w.st.put(k, v, 0)
	case 1:
		k := w.drawKey()
		w.op("delete %s", k)
		r.Ev("delete", int64(t.Pos()))
		w.st.deleteKeys([]string{k}, "delete")
	case 2: // start / restart a publisher
		p := w.pubs[t.Intn(len(w.pubs))]
		if p.state == 1 {
			return
		}
		if p.state != 0 && t.Bool() {
			p.value = w.vals[t.Intn(nVals)] // the instance comes back with another address
		}
		w.op("publisher%d starts (key %s id %d value %s)", p.slot, p.key, p.id, p.value)
		r.Ev("pub-start", int64(p.slot))
		w.startPub(p)
	case 3:
		p := w.pubs[t.Intn(len(w.pubs))]
		if p.state != 1 {
			return
		}
		w.op("publisher%d stops (revoke)", p.slot)
		r.Ev("pub-stop", int64(p.slot))
		p.pub.Stop()
		p.state = 2
	case 4: // the publisher's process dies: keep-alives stop, the lease runs out on the virtual clock
		p := w.pubs[t.Intn(len(w.pubs))]
		if p.state != 1 {
			return
		}
		ls := w.leasesOf(p)
		if len(ls) == 0 {
			return
		}
		w.op("publisher%d crashes", p.slot)
		r.Ev("pub-crash", int64(p.slot))
		r.Probe("publisher-crashed")
		for _, l := range ls {
			l.crashed = true
		}
		p.state = 3
	case 5: // the keep-alive stream of a live publisher breaks: it revokes and registers again
		p := w.pubs[t.Intn(len(w.pubs))]
		if p.state != 1 {
			return
		}
		n := 0
		for _, l := range w.leasesOf(p) {
			for _, ka := range w.st.keepalives {
				if ka.id == l.id && !ka.closed {
					ka.blip = true
					ka.kick()
					n++
				}
			}
		}
		if n > 0 {
			w.op("publisher%d keep-alive stream breaks", p.slot)
			r.Ev("pub-blip", int64(p.slot))
			r.Probe("publisher-keepalive-broken")
		}
	case 6:
		w.op("compact to rev %d", w.st.rev)
		r.Probe("fault-compaction")
		w.st.compact(w.st.rev)
	case 7:
		w.op("reconnect (reload)")
		r.Ev("reconnect")
		r.Probe("fault-reconnect-reload")
		w.reloads = append(w.reloads, r.Go("reconnect-reload", func() {
			discov.VerifTriggerReload(w.endpoints)
		}))
	case 8:
		var act []*watcher
		for _, wt := range w.st.watchers {
			if !wt.done {
				act = append(act, wt)
			}
		}
		if len(act) == 0 {
			return
		}
		wt := act[t.Intn(len(act))]
		wt.breakNow = 1 + t.Intn(3)
		w.op("break watch stream #%d (%s)", wt.id, []string{"", "cancelled", "cancelled+compacted", "closed"}[wt.breakNow])
		wt.kick()
	case 9:
		n := t.Range(1, 3)
		w.op("next %d Gets fail", n)
		w.st.getFail += n
	case 10: // a subscriber (or the resolver) goes away in the middle of the run
		var open, gone []*subRec
		for _, s := range w.subs {
			if s.joined && !s.closing {
				open = append(open, s)
			} else if s.joined && s.js.closed {
				gone = append(gone, s)
			}
		}
		if len(gone) > 0 && t.Chance(1, 5) {
			// Close is called once more on a subscriber that has been closed (others, or a new
			// subscriber of the same key, may be attached meanwhile)
			s := gone[t.Intn(len(gone))]
			w.op("%s closes again", s.name)
			r.Probe("subscriber-closed-twice")
			w.closes = append(w.closes, r.Go("close-again-"+s.name, func() { s.sub.Close() }))
			return
		}
		n := len(open)
		if c := w.cc; c != nil && c.res != nil && !c.closing {
			n++
		}
		if n == 0 {
			return
		}
		if i := t.Intn(n); i < len(open) {
			r.Ev("sub-close", int64(i))
			w.closeSub(open[i])
		} else {
			c := w.cc
			c.closing = true
			w.op("resolver closes")
			r.Ev("resolver-close")
			r.Probe("resolver-closed-mid-run")
			w.closes = append(w.closes, r.Go("close-resolver", func() {
				c.res.Close()
				c.js.closed = true
				w.closedOn[c.prefix]++
			}))
		}
	case 11: // one more subscriber (after a Close: possibly the first one of its range again)
		if len(w.subs) >= 4 {
			return
		}
		s := w.drawSub(t.Intn(len(w.prefixes)))
		w.subs = append(w.subs, s)
		w.op("%s subscribes (key %s exact=%v exclusive=%v)", s.name, s.key, s.exact, s.excl)
		r.Ev("sub-join", int64(len(w.subs)))
		r.Probe("subscriber-added-mid-run")
		w.joins = append(w.joins, w.join(s))
	case 12: // one more listener on a subscriber that is already attached
		var open []*subRec
		for _, s := range w.subs {
			if s.joined && !s.closing && len(s.lis) < 4 {
				open = append(open, s)
			}
		}
		if len(open) == 0 {
			return
		}
		s := open[t.Intn(len(open))]
		w.op("%s gets listener %d", s.name, len(s.lis)+1)
		r.Probe("listener-added-mid-run")
		w.addListener(s)
	}
}

// poller: a client that reads Values() of the subscribers at its own pace, concurrently with
// everything else (the returned slice is only read).
func (w *world) poller() {
	r, t := w.r, w.t
	r.Go("values-reader", func() {
		for n := 0; n < 40 && !w.opsDone && !r.Failed(); n++ {
			switch t.Intn(3) {
			case 0:
				r.Yield()
			case 1:
				r.Sleep(time.Duration(t.Range(1, 50)) * time.Millisecond)
			default:
				r.Sleep(time.Duration(t.Range(1, 3)) * time.Second)
			}
			var cand []*subRec
			for _, s := range w.subs {
				if s.joined {
					cand = append(cand, s)
				}
			}
			if len(cand) == 0 {
				continue
			}
			s := cand[t.Intn(len(cand))]
			w.safety(s.name+" (concurrent reader)", s.prefix, s.sub.Values())
			r.Probe("concurrent-values-reader")
		}
	})
}

// reloadHoldsLock: a reload task sits in watchGroup.Wait (it holds the cluster lock there)
// while another task of the cluster waits for a lock.
func (w *world) reloadHoldsLock() bool {
	waiting, locked := false, false
	for _, a := range w.r.AliveTasks() {
		if strings.Contains(a, "reconnect-reload") && strings.Contains(a, "WaitGroup.Wait") {
			waiting = true
		} else if strings.Contains(a, "Mutex.") && !strings.Contains(a, "registry.go:") {
			locked = true
		}
	}
	return waiting && locked
}

func (w *world) cleanup() {
	r := w.r
	w.st.faultsOn = false
	w.st.openSubs = nil
	w.opsDone, w.cleaning = true, true
	var ts []*simrt.Task
	ts = append(ts, r.Go("cleanup", func() {
		for _, p := range w.allPubs {
			p.Stop()
		}
		for _, s := range w.subs {
			if s.sub != nil && !s.closing {
				s.sub.Close()
			}
		}
		if w.cc != nil && w.cc.res != nil && !w.cc.closing {
			w.cc.res.Close()
		}
	}))
	r.JoinTimeout(time.Minute, ts...)
	r.Sleep(2 * time.Second)
	w.cli.Close()
	r.Sleep(time.Second)
	r.Quiesce()
	r.MarkBackground(func(string) bool { return true })
}

// ---------------------------------------------------------------- kube EventHandler

func kubeScenario(r *simrt.Run, tier string) {
	t := r.Tape
	var last []string
	published := 0
	slowUpdate := 0 // > 0 (concurrent histories): the update function yields before it takes effect, like a resolver's UpdateState behind the channel's lock
	h := zresolver.VerifNewKubeEventHandler(func(eps []string) {
		eps = append([]string(nil), eps...)
		if slowUpdate > 0 {
			for y := t.Intn(slowUpdate + 1); y > 0; y-- {
				r.Yield()
			}
		}
		published++
		last = eps
	})
	nIPs := t.Range(1, 5)
	maxAddrs := 3
	if t.Chance(1, 8) {
		// a big service: more addresses than the resolver's subset size
		nIPs, maxAddrs = t.Range(33, 60), 25
		r.Probe("kube-many-addresses")
	}
	maxOps := 10
	if tier == "thorough" {
		maxOps = 30
	}
	nOps := t.Range(1, maxOps)
	// resource versions are opaque strings; the API server's are decimal etcd revisions.  The
	// counter starts anywhere (digit-count and integer-width boundaries are a few steps away)
	// and may jump.
	rv := []uint64{1, 8, 98, 998, 99998, 1<<31 - 3, 1<<32 - 3, 1<<53 - 2, 1<<63 - 2000}[t.Intn(9)]
	if rv > 1 {
		r.Probe("kube-resource-version-not-small")
	}
	withNotReady := t.Chance(1, 3)
	ip := func() string { return fmt.Sprintf("10.2.0.%d", 1+t.Intn(nIPs)) }
	gen := func() *v1.Endpoints {
		rv++
		if t.Chance(1, 4) && rv < 1<<62 {
			rv += uint64(t.Intn(1000))
		}
		ep := &v1.Endpoints{ObjectMeta: metav1.ObjectMeta{Name: "svc", Namespace: "ns", ResourceVersion: fmt.Sprint(rv)}}
		for s := t.Intn(3); s > 0; s-- {
			var sub v1.EndpointSubset
			for a := t.Intn(maxAddrs + 1); a > 0; a-- {
				sub.Addresses = append(sub.Addresses, v1.EndpointAddress{IP: ip()})
			}
			if withNotReady && t.Chance(1, 2) {
				for a := t.Range(1, 2); a > 0; a-- {
					sub.NotReadyAddresses = append(sub.NotReadyAddresses, v1.EndpointAddress{IP: ip()})
				}
				r.Probe("kube-not-ready-addresses")
			}
			ep.Subsets = append(ep.Subsets, sub)
		}
		return ep
	}
	// addrs: the addresses of the object that are ready (they must be published) and all of its
	// addresses (nothing else may be published; whether an address that is only listed as not
	// ready counts as an "endpoint address" is left open)
	addrs := func(ep *v1.Endpoints) (ready, all map[string]bool) {
		ready, all = map[string]bool{}, map[string]bool{}
		if ep != nil {
			for _, s := range ep.Subsets {
				for _, a := range s.Addresses {
					ready[a.IP], all[a.IP] = true, true
				}
				for _, a := range s.NotReadyAddresses {
					all[a.IP] = true
				}
			}
		}
		return
	}
	show := func(ep *v1.Endpoints) string {
		ready, _ := addrs(ep)
		return fmt.Sprintf("%v rv %s", sorted(ready), ep.ResourceVersion)
	}
	// the informer's events, generated up front: the one endpoints object of the service
	// (nil: absent) is added, updated, re-delivered and deleted
	type kop struct {
		desc  string
		do    func()
		after *v1.Endpoints
	}
	var ops []kop
	var cur, prev *v1.Endpoints
	for i := 0; i < nOps; i++ {
		var o kop
		switch {
		case cur == nil:
			n, initial := gen(), t.Bool()
			o = kop{fmt.Sprintf("add %s", show(n)), func() { h.OnAdd(n, initial) }, n}
		default:
			c, p := cur, prev
			switch t.Intn(7) {
			case 0, 1:
				n := gen()
				o = kop{fmt.Sprintf("update -> %s", show(n)), func() { h.OnUpdate(c, n) }, n}
			case 2:
				o = kop{"resync (same resource version)", func() { h.OnUpdate(c, c.DeepCopy()) }, c}
			case 3:
				o = kop{"delete", func() { h.OnDelete(c) }, nil}
			case 4:
				n := gen()
				o = kop{fmt.Sprintf("Update(%s)", show(n)), func() { h.Update(n) }, n}
			case 5: // the informer lists again and announces the object it has announced before
				o = kop{"add again (same object)", func() { h.OnAdd(c.DeepCopy(), true) }, c}
				r.Probe("kube-object-added-again")
			default: // the old object handed to OnUpdate is not the latest one the handler has seen
				n := gen()
				if p == nil {
					p = c
				}
				o = kop{fmt.Sprintf("update (old = an earlier object, rv %s) -> %s", p.ResourceVersion, show(n)), func() { h.OnUpdate(p, n) }, n}
			}
		}
		ops = append(ops, o)
		if o.after != cur {
			prev, cur = cur, o.after
		}
	}
	final := cur
	concurrent := final != nil && t.Chance(1, 3)
	r.Sample(map[string]any{"scenario": "kube-eventhandler", "ips": nIPs, "ops": nOps, "first_resource_version": fmt.Sprint(rv), "not_ready_addresses": withNotReady,
		"concurrent_update_call": concurrent})
	var log []string
	check := func(ep *v1.Endpoints) bool {
		ready, all := addrs(ep)
		if got := setOf(last); !within(got, ready, all) || len(got) != len(last) {
			r.Fail("kube-published-set", "after %s: last published %v (%d publications), current endpoints addresses %v (listed as not ready: %v)", strings.Join(log, "; "), sortedCopy(last), published, sorted(ready), len(all)-len(ready))
			return false
		}
		return true
	}
	if !concurrent {
		for i, o := range ops {
			log = append(log, o.desc)
			o.do()
			r.Ev("kube-op", int64(i))
			if !check(o.after) {
				return
			}
		}
	} else {
		// the resolver builder calls Update with the object it has fetched while the informer
		// (its own goroutine) is delivering events: the calls overlap and which of them the
		// handler applies last is not observable, so nothing is asserted until both are done and
		// one more, sequential, Update(the final object) has returned: whatever the handler
		// held, after that call the current addresses are the final object's
		r.Probe("kube-concurrent-update-call")
		slowUpdate = t.Intn(3)
		fetched := final
		if o := ops[t.Intn(len(ops))]; o.after != nil {
			fetched = o.after
		}
		inf := r.Go("informer", func() {
			for i, o := range ops {
				for y := t.Intn(3); y > 0; y-- {
					r.Yield()
				}
				log = append(log, o.desc)
				o.do()
				r.Ev("kube-op", int64(i))
			}
		})
		bld := r.Go("builder", func() {
			for y := t.Intn(2 * len(ops)); y > 0; y-- {
				r.Yield()
			}
			log = append(log, fmt.Sprintf("[builder: Update(%s)]", show(fetched)))
			h.Update(fetched.DeepCopy())
		})
		if !r.JoinTimeout(time.Minute, inf, bld) {
			r.Fail("kube-stuck", "EventHandler calls did not return: %v", r.AliveTasks())
			return
		}
		log = append(log, fmt.Sprintf("both done; Update(%s)", show(final)))
		slowUpdate = 0
		h.Update(final.DeepCopy())
		if !check(final) {
			return
		}
	}
	r.Probe("oracle")
	r.Probe("nontrivial")
	r.Probe("kube-scenario")
}

func body(r *simrt.Run, tier string) {
	if r.Tape.Chance(1, 10) {
		kubeScenario(r, tier)
		return
	}
	discovScenario(r, tier)
}

func TestSim(t *testing.T) {
	simharness.Main(t, &simharness.Spec{ID: "C13", Body: body, StuckIsViolation: true, CrashIsViolation: true})
}
