package c13

// simetcd: an in-memory etcd (MVCC store with one global revision, leases driven by the
// virtual clock, prefix watches from a start revision, compaction) plus a client that
// implements go-zero's internal.EtcdClient.  Every blocking operation goes through the
// engine (simrt Pre/Post), every fault decision comes from the tape.
//
// Guarantees kept (they are etcd's): events of one watch stream are delivered in revision
// order, a response never splits the events of one revision, a watch whose next revision
// has been compacted gets one response with CompactRevision set and Canceled, then the
// channel is closed; a cancelled context closes the channel.

import (
	"context"
	"fmt"
	"sort"
	"strings"
	"time"

	pb "go.etcd.io/etcd/api/v3/etcdserverpb"
	"go.etcd.io/etcd/api/v3/mvccpb"
	"go.etcd.io/etcd/api/v3/v3rpc/rpctypes"
	clientv3 "go.etcd.io/etcd/client/v3"
	"google.golang.org/grpc"
	"google.golang.org/grpc/credentials/insecure"

	"verifsim/simrt"
)

type kvEntry struct {
	val                  string
	create, mod, version int64
	lease                int64
}

type histEv struct {
	rev             int64
	del             bool
	key, val        string
	create, version int64
	lease           int64
}

type lease struct {
	id      int64
	ttl     int64
	expiry  time.Time
	keys    map[string]bool
	crashed bool // the owner's process is gone: no more keep-alives are sent for it
}

// faultCfg: per-run fault mix (all zero = no faults).
type faultCfg struct {
	delayPct     int           // chance (percent) that a watch delivery is delayed
	maxDelay     time.Duration // upper bound of that delay
	streamPct    int           // chance (percent) per delivery that the stream is broken instead
	streamBudget int           // how many stream faults may still be injected
	getLatency   bool          // Get answers may take virtual time
}

// viewTrack follows what the registry has been told for one watched range (snapshots
// served by Get and events delivered on the watch stream).  It is used only to name the
// scenario class of a mismatch, never to decide whether there is one.
type viewTrack struct {
	cur               map[string]string
	overwritten       map[string]bool // values replaced in place by a delivered PUT of the same key
	reloadOverwritten map[string]bool // values replaced by a snapshot that changed the key's value
	reloadChanged     bool
	reloadNew         map[string]bool // values a key got in a snapshot that changed the key's value
	snapAmbig         map[string]bool // values held by >= 2 keys in a served snapshot
	snapshots         int
	lastSnapshot      time.Time
	firstSnapBlank    bool // nothing had ever been registered under the range when its first snapshot was taken
	dupWatch          bool // two watch streams on the range were open at the same time
	deliveries        int
	sendsBegun        int // event batches handed to the stream (deliveries counts the ones the receiver has taken)
	lastDelivery      time.Time
	toldRev           int64                      // store revision up to which the registry has been told about the range (snapshot or delivered events)
	orphanWatch       bool                       // a watch stream on the range was opened while no subscriber of the harness was attached or attaching to it
	oldWatchAlive     bool                       // a snapshot of the range was served while the watch goroutine of a cancelled stream of the range (one that had delivered events) was still running
	valsOfKey         map[string]map[string]bool // every value ever delivered (event or snapshot) per key
}

// multiValued: some key was announced with v and, at another time, with a different value.
func (v *viewTrack) multiValued(val string) bool {
	for _, vs := range v.valsOfKey {
		if vs[val] && len(vs) >= 2 {
			return true
		}
	}
	return false
}

// movedTo: some key that was announced with another value before is now announced with val.
func (v *viewTrack) movedTo(live map[string]string, val string) bool {
	for k, cur := range live {
		if cur == val && len(v.valsOfKey[k]) >= 2 {
			return true
		}
	}
	return false
}

func (v *viewTrack) noteVal(k, val string) {
	if v.valsOfKey[k] == nil {
		v.valsOfKey[k] = map[string]bool{}
	}
	v.valsOfKey[k][val] = true
}

func newViewTrack() *viewTrack {
	return &viewTrack{cur: map[string]string{}, overwritten: map[string]bool{}, reloadOverwritten: map[string]bool{}, snapAmbig: map[string]bool{}, reloadNew: map[string]bool{}, valsOfKey: map[string]map[string]bool{}}
}

type store struct {
	r *simrt.Run
	t *simrt.Tape

	rev, compactRev int64
	kvs             map[string]*kvEntry
	hist            []histEv
	leases          map[int64]*lease
	nextLease       int64
	watchers        []*watcher
	keepalives      []*keepalive

	faultsOn bool
	fc       faultCfg
	getFail  int // Gets that will still fail

	views   map[string]*viewTrack      // range key ("svc/", or a full key for an exact-match range) -> what the registry was told
	ever    map[string]map[string]bool // range key -> values ever registered under it
	modRev  map[string]int64           // range key -> revision of the last put/delete under it
	lastPut map[string]map[string]string
	ranges  []string // the ranges a subscriber of this run may watch: "name/" = every key with that prefix, anything else = exactly that key

	getsBy   map[int]map[string]int // task id -> range key -> Gets of that range issued by the task
	loadsBy  map[int]map[string]int // ... of which were answered with a snapshot
	openSubs func(rangeKey string) int

	nGets, nWatches int
}

// inRangeKey: does the key belong to the watched range (prefix range "name/" or exact key)?
func inRangeKey(rangeKey, key string) bool {
	if strings.HasSuffix(rangeKey, "/") {
		return strings.HasPrefix(key, rangeKey)
	}
	return key == rangeKey
}

func newStore(r *simrt.Run, ranges []string) *store {
	s := &store{r: r, t: r.Tape, rev: 1, kvs: map[string]*kvEntry{}, leases: map[int64]*lease{}, nextLease: 7000,
		views: map[string]*viewTrack{}, ever: map[string]map[string]bool{}, modRev: map[string]int64{}, lastPut: map[string]map[string]string{}, ranges: ranges,
		getsBy: map[int]map[string]int{}, loadsBy: map[int]map[string]int{}}
	for _, p := range ranges {
		s.ever[p] = map[string]bool{}
		s.lastPut[p] = map[string]string{}
		s.views[p] = newViewTrack()
	}
	return s
}

func (s *store) header() *pb.ResponseHeader {
	return &pb.ResponseHeader{ClusterId: 1, MemberId: 1, Revision: s.rev, RaftTerm: 2}
}

// rangesOf: the watched ranges the key belongs to (a key may be in a prefix range and in an exact one).
func (s *store) rangesOf(key string) []string {
	var out []string
	for _, p := range s.ranges {
		if inRangeKey(p, key) {
			out = append(out, p)
		}
	}
	return out
}

func (s *store) view(rangeKey string) *viewTrack {
	v := s.views[rangeKey]
	if v == nil {
		v = newViewTrack()
		s.views[rangeKey] = v
	}
	return v
}

func (s *store) wakeWatchers() {
	for _, w := range s.watchers {
		if !w.done {
			w.kick()
		}
	}
}

// put stores key=val (attached to the lease when leaseID != 0) at a new revision.
func (s *store) put(key, val string, leaseID int64) error {
	var l *lease
	if leaseID != 0 {
		if l = s.leases[leaseID]; l == nil {
			return rpctypes.ErrGRPCLeaseNotFound
		}
	}
	s.rev++
	e := s.kvs[key]
	if e == nil {
		e = &kvEntry{create: s.rev}
		s.kvs[key] = e
	} else if e.lease != 0 {
		if old := s.leases[e.lease]; old != nil {
			delete(old.keys, key) // a key is attached to at most one lease: the latest put wins
		}
	}
	e.val, e.mod, e.lease = val, s.rev, leaseID
	e.version++
	if l != nil {
		l.keys[key] = true
	}
	s.hist = append(s.hist, histEv{rev: s.rev, key: key, val: val, create: e.create, version: e.version, lease: leaseID})
	for _, p := range s.rangesOf(key) {
		s.ever[p][val] = true
		s.lastPut[p][val] = key
		s.modRev[p] = s.rev
	}
	if s.r.Tracing() {
		s.r.Logf("etcd rev %d: PUT %s=%s lease=%d", s.rev, key, val, leaseID)
	}
	s.wakeWatchers()
	return nil
}

// deleteKeys removes the existing ones among keys in ONE revision (a lease revoke /
// expiry is one transaction in etcd).  Returns how many were deleted.
func (s *store) deleteKeys(keys []string, why string) int {
	sort.Strings(keys)
	var live []string
	for _, k := range keys {
		if s.kvs[k] != nil {
			live = append(live, k)
		}
	}
	if len(live) == 0 {
		return 0
	}
	s.rev++
	for _, k := range live {
		e := s.kvs[k]
		if e.lease != 0 {
			if l := s.leases[e.lease]; l != nil {
				delete(l.keys, k)
			}
		}
		delete(s.kvs, k)
		s.hist = append(s.hist, histEv{rev: s.rev, del: true, key: k})
		for _, p := range s.rangesOf(k) {
			s.modRev[p] = s.rev
		}
		if s.r.Tracing() {
			s.r.Logf("etcd rev %d: DELETE %s (%s)", s.rev, k, why)
		}
	}
	s.wakeWatchers()
	return len(live)
}

func (s *store) grant(ttl int64) *lease {
	s.nextLease++
	l := &lease{id: s.nextLease, ttl: ttl, expiry: time.Now().Add(time.Duration(ttl) * time.Second), keys: map[string]bool{}}
	s.leases[l.id] = l
	id := l.id
	// expiry on the virtual clock
	s.r.GoBackground("simetcd.lease", func() {
		for {
			l := s.leases[id]
			if l == nil {
				return
			}
			d := time.Until(l.expiry)
			if d <= 0 {
				s.r.Probe("lease-expired")
				s.dropLease(id, "lease expired")
				return
			}
			s.r.Sleep(d)
		}
	})
	return l
}

func (s *store) dropLease(id int64, why string) bool {
	l := s.leases[id]
	if l == nil {
		return false
	}
	delete(s.leases, id)
	var keys []string
	for k := range l.keys {
		keys = append(keys, k)
	}
	s.deleteKeys(keys, why)
	for _, ka := range s.keepalives {
		if ka.id == id && !ka.closed {
			ka.kick()
		}
	}
	return true
}

// compact discards the history below rev (etcd keeps rev itself watchable).
func (s *store) compact(rev int64) {
	if rev <= s.compactRev {
		return
	}
	s.compactRev = rev
	i := 0
	for i < len(s.hist) && s.hist[i].rev < rev {
		i++
	}
	s.hist = append([]histEv(nil), s.hist[i:]...)
	if s.r.Tracing() {
		s.r.Logf("etcd compacted to rev %d", rev)
	}
	s.wakeWatchers()
}

func inRange(key, from, end string) bool {
	if end == "" {
		return key == from
	}
	return key >= from && key < end
}

// rangeKVs: the live keys in [from,end) sorted by key.
func (s *store) rangeKVs(from, end string) []*mvccpb.KeyValue {
	var keys []string
	for k := range s.kvs {
		if inRange(k, from, end) {
			keys = append(keys, k)
		}
	}
	sort.Strings(keys)
	out := make([]*mvccpb.KeyValue, 0, len(keys))
	for _, k := range keys {
		e := s.kvs[k]
		out = append(out, &mvccpb.KeyValue{Key: []byte(k), Value: []byte(e.val), CreateRevision: e.create, ModRevision: e.mod, Version: e.version, Lease: e.lease})
	}
	return out
}

// live: value of every live key of the range.
func (s *store) live(rangeKey string) map[string]string {
	m := map[string]string{}
	for k, e := range s.kvs {
		if inRangeKey(rangeKey, k) {
			m[k] = e.val
		}
	}
	return m
}

func (s *store) noteSnapshot(rangeKey string, kvs []*mvccpb.KeyValue) {
	v := s.view(rangeKey)
	v.snapshots++
	v.lastSnapshot = time.Now()
	if s.rev > v.toldRev {
		v.toldRev = s.rev
	}
	if v.snapshots == 1 {
		// the range's first snapshot: was anything registered under it before?
		v.firstSnapBlank = len(s.ever[rangeKey]) == 0
	}
	n := map[string]string{}
	cnt := map[string]int{}
	for _, kv := range kvs {
		n[string(kv.Key)] = string(kv.Value)
		cnt[string(kv.Value)]++
	}
	for val, c := range cnt {
		if c >= 2 {
			v.snapAmbig[val] = true
		}
	}
	for k, val := range n {
		v.noteVal(k, val)
		if old, ok := v.cur[k]; ok && old != val {
			v.reloadChanged = true
			v.reloadOverwritten[old] = true
			v.reloadNew[val] = true
			s.r.Probe("reload-with-changed-value")
		}
	}
	v.cur = n
}

func (s *store) noteDelivered(rangeKey string, evs []*clientv3.Event) {
	v := s.view(rangeKey)
	v.deliveries++
	v.lastDelivery = time.Now()
	for _, ev := range evs {
		if ev.Kv.ModRevision > v.toldRev {
			v.toldRev = ev.Kv.ModRevision
		}
		k := string(ev.Kv.Key)
		if ev.Type == clientv3.EventTypePut {
			v.noteVal(k, string(ev.Kv.Value))
			if old, ok := v.cur[k]; ok && old != string(ev.Kv.Value) {
				v.overwritten[old] = true
				s.r.Probe("update-in-place-delivered")
			}
			v.cur[k] = string(ev.Kv.Value)
		} else {
			delete(v.cur, k)
		}
	}
}

// ---------------------------------------------------------------- watch

type watcher struct {
	s        *store
	id       int
	ctx      context.Context
	from     string
	end      string
	next     int64 // next revision to deliver
	ch       chan clientv3.WatchResponse
	wake     chan struct{}
	done     bool
	sent     int
	inSend   bool // parked in send: nobody is receiving right now
	breakNow int  // fault requested by the workload: 1 cancel, 2 cancel+compacted, 3 close
	owner    int  // the task that opened the stream (go-zero's watch goroutine receives from it)
}

func (s *store) taskAlive(id int) bool {
	p := fmt.Sprintf("T%d ", id)
	for _, a := range s.r.AliveTasks() {
		if strings.HasPrefix(a, p) {
			return true
		}
	}
	return false
}

// cancelledStreamOwner: the task is a watch goroutine of go-zero whose (latest) stream has been
// cancelled through its context, i.e. the last subscriber of its range was closed.  History
// feature for naming a mismatch only.
func (s *store) cancelledStreamOwner(task int) bool {
	for i := len(s.watchers) - 1; i >= 0; i-- {
		if w := s.watchers[i]; w.owner == task {
			return w.ctx.Err() != nil
		}
	}
	return false
}

func (w *watcher) kick() {
	select {
	case w.wake <- struct{}{}:
	default:
	}
}

// idle blocks until there may be something to do.
func (w *watcher) idle() {
	tk := simrt.Pre("simetcd.watch.idle")
	select {
	case <-w.wake:
		simrt.Post(tk)
	case <-w.ctx.Done():
		simrt.Post(tk)
	}
}

// send delivers one response; false when the watch context ended first.
func (w *watcher) send(resp clientv3.WatchResponse) bool {
	w.inSend = true
	tk := simrt.Pre("simetcd.watch.send")
	select {
	case w.ch <- resp:
		simrt.Post(tk)
		w.inSend = false
		return true
	case <-w.ctx.Done():
		simrt.Post(tk)
		w.inSend = false
		return false
	}
}

func (w *watcher) finish() {
	w.done = true
	simrt.Close("simetcd.watch.close", w.ch)
}

// pending returns the next batch: up to maxRevs revisions' events in range, never
// splitting a revision; last is the highest revision consumed (also when it had no
// event in range).
func (w *watcher) pending(maxRevs int) (evs []*clientv3.Event, last int64) {
	s := w.s
	last = w.next - 1
	revs := 0
	var curRev int64 = -1
	for i := range s.hist {
		h := &s.hist[i]
		if h.rev < w.next {
			continue
		}
		if h.rev != curRev {
			if revs >= maxRevs {
				break
			}
			curRev = h.rev
		}
		last = h.rev
		if !inRange(h.key, w.from, w.end) {
			continue
		}
		if len(evs) == 0 || evs[len(evs)-1].Kv.ModRevision != h.rev {
			revs++
		}
		ev := &mvccpb.Event{Type: mvccpb.PUT, Kv: &mvccpb.KeyValue{Key: []byte(h.key), Value: []byte(h.val), CreateRevision: h.create, ModRevision: h.rev, Version: h.version, Lease: h.lease}}
		if h.del {
			ev.Type = mvccpb.DELETE
			ev.Kv = &mvccpb.KeyValue{Key: []byte(h.key), ModRevision: h.rev}
		}
		evs = append(evs, (*clientv3.Event)(ev))
	}
	return evs, last
}

func (w *watcher) pump() {
	s := w.s
	for {
		if w.ctx.Err() != nil {
			w.finish()
			return
		}
		// requested revisions are gone: one compacted response, then the stream ends
		if w.next < s.compactRev {
			s.r.Probe("fault-watch-compacted")
			w.send(clientv3.WatchResponse{Header: *s.header(), CompactRevision: s.compactRev, Canceled: true})
			w.finish()
			return
		}
		kind := w.breakNow
		w.breakNow = 0
		if kind == 0 {
			if evs, last := w.pending(1); len(evs) == 0 {
				w.next = last + 1
				w.idle()
				continue
			}
			if s.faultsOn && s.fc.streamBudget > 0 && s.fc.streamPct > 0 && s.t.Intn(100) < s.fc.streamPct {
				kind = 1 + s.t.Intn(3)
			}
		}
		if kind != 0 && s.faultsOn && s.fc.streamBudget > 0 {
			s.fc.streamBudget--
			switch kind {
			case 1:
				s.r.Probe("fault-stream-cancelled")
				w.send(clientv3.WatchResponse{Header: *s.header(), Canceled: true})
			case 2:
				// the server compacts and cancels the stream with the compaction error
				s.r.Probe("fault-stream-cancelled-compacted")
				s.compact(s.rev)
				w.send(clientv3.WatchResponse{Header: *s.header(), CompactRevision: s.compactRev, Canceled: true})
			default:
				s.r.Probe("fault-stream-closed")
			}
			w.finish()
			return
		}
		maxRevs := 1
		if s.t.Chance(1, 3) {
			maxRevs = 1 + s.t.Intn(4)
		}
		evs, last := w.pending(maxRevs)
		if len(evs) == 0 {
			w.next = last + 1
			w.idle()
			continue
		}
		// the batch is on the wire from here on (a later compaction does not unsend it)
		w.next = last + 1
		if s.faultsOn && s.fc.delayPct > 0 && s.t.Intn(100) < s.fc.delayPct {
			d := time.Duration(1 + s.t.Intn(int(s.fc.maxDelay)))
			s.r.Probe("fault-delivery-delayed")
			s.r.Sleep(d)
		}
		// from here until the receiver has taken it the batch is in flight (also a batch that
		// replays revisions the registry has seen before, after a stream was re-created)
		s.view(w.from).sendsBegun++
		if !w.send(clientv3.WatchResponse{Header: *s.header(), Events: evs}) {
			s.view(w.from).sendsBegun--
			w.finish()
			return
		}
		w.sent++
		s.noteDelivered(w.from, evs)
	}
}

// caughtUp: nothing in range left to deliver to this stream.
func (w *watcher) caughtUp() bool {
	if w.done {
		return true
	}
	evs, _ := w.pending(1 << 30)
	return len(evs) == 0 && w.next >= w.s.compactRev
}

// ---------------------------------------------------------------- keep-alive

type keepalive struct {
	s      *store
	id     int64
	ctx    context.Context
	ch     chan *clientv3.LeaseKeepAliveResponse
	wake   chan struct{}
	closed bool
	blip   bool // the stream breaks although the lease is alive
}

func (ka *keepalive) kick() {
	select {
	case ka.wake <- struct{}{}:
	default:
	}
}

func (ka *keepalive) pump() {
	s := ka.s
	for {
		l := s.leases[ka.id]
		if ka.ctx.Err() != nil || ka.blip || l == nil {
			ka.closed = true
			simrt.Close("simetcd.keepalive.close", ka.ch)
			return
		}
		period := time.Duration(l.ttl) * time.Second / 3
		if !l.crashed {
			l.expiry = time.Now().Add(time.Duration(l.ttl) * time.Second)
			select {
			case ka.ch <- &clientv3.LeaseKeepAliveResponse{ResponseHeader: s.header(), ID: clientv3.LeaseID(ka.id), TTL: l.ttl}:
			default: // nobody is draining: dropped, as the real client does
			}
		}
		tm := time.NewTimer(period)
		tk := simrt.Pre("simetcd.keepalive.wait")
		select {
		case <-tm.C:
			simrt.Post(tk)
		case <-ka.wake:
			simrt.Post(tk)
		case <-ka.ctx.Done():
			simrt.Post(tk)
		}
		tm.Stop()
	}
}

// ---------------------------------------------------------------- client

type simClient struct {
	s      *store
	ctx    context.Context
	cancel context.CancelFunc
	kv     clientv3.KV
	conn   *grpc.ClientConn
}

func newSimClient(s *store) *simClient {
	c := &simClient{s: s}
	c.ctx, c.cancel = context.WithCancel(context.Background())
	// the real clientv3 KV front end turns options into requests; only the transport is ours
	c.kv = clientv3.NewKVFromKVClient(&kvRemote{c: c}, nil)
	return c
}

// ActiveConnection returns a never dialled connection: the state watcher parks in
// WaitForStateChange on it for good (reconnects are injected through VerifTriggerReload).
func (c *simClient) ActiveConnection() *grpc.ClientConn {
	if c.conn == nil {
		conn, err := grpc.NewClient("passthrough:///verif-c13", grpc.WithTransportCredentials(insecure.NewCredentials()), grpc.WithIdleTimeout(0))
		if err != nil {
			panic(err)
		}
		c.conn = conn
	}
	return c.conn
}

func (c *simClient) Close() error {
	c.cancel()
	return nil
}

func (c *simClient) Ctx() context.Context { return c.ctx }

func (c *simClient) Get(ctx context.Context, key string, opts ...clientv3.OpOption) (*clientv3.GetResponse, error) {
	return c.kv.Get(ctx, key, opts...)
}

func (c *simClient) Put(ctx context.Context, key, val string, opts ...clientv3.OpOption) (*clientv3.PutResponse, error) {
	return c.kv.Put(ctx, key, val, opts...)
}

func (c *simClient) Grant(ctx context.Context, ttl int64) (*clientv3.LeaseGrantResponse, error) {
	c.s.r.Yield()
	if err := ctx.Err(); err != nil {
		return nil, err
	}
	l := c.s.grant(ttl)
	return &clientv3.LeaseGrantResponse{ResponseHeader: c.s.header(), ID: clientv3.LeaseID(l.id), TTL: ttl}, nil
}

func (c *simClient) Revoke(ctx context.Context, id clientv3.LeaseID) (*clientv3.LeaseRevokeResponse, error) {
	c.s.r.Yield()
	if err := ctx.Err(); err != nil {
		return nil, err
	}
	if !c.s.dropLease(int64(id), "lease revoked") {
		return nil, rpctypes.ErrLeaseNotFound
	}
	return &clientv3.LeaseRevokeResponse{Header: c.s.header()}, nil
}

func (c *simClient) KeepAlive(ctx context.Context, id clientv3.LeaseID) (<-chan *clientv3.LeaseKeepAliveResponse, error) {
	c.s.r.Yield()
	ka := &keepalive{s: c.s, id: int64(id), ctx: ctx, ch: make(chan *clientv3.LeaseKeepAliveResponse, 16), wake: make(chan struct{}, 1)}
	c.s.keepalives = append(c.s.keepalives, ka)
	c.s.r.GoBackground("simetcd.keepalive", ka.pump)
	return ka.ch, nil
}

func (c *simClient) Watch(ctx context.Context, key string, opts ...clientv3.OpOption) clientv3.WatchChan {
	s := c.s
	op := clientv3.OpGet(key, opts...) // the option set of a watch is a subset of Get's
	w := &watcher{s: s, id: len(s.watchers), ctx: ctx, from: key, end: string(op.RangeBytes()), next: op.Rev(),
		ch: make(chan clientv3.WatchResponse), wake: make(chan struct{}, 1), owner: s.r.CurrentID()}
	if w.next == 0 {
		w.next = s.rev + 1
	}
	s.nWatches++
	for _, o := range s.watchers {
		if !o.done && o.ctx.Err() == nil && o.from == w.from {
			// only two first subscribers racing through Registry.Monitor produce this
			s.view(w.from).dupWatch = true
			s.r.Probe("duplicate-watch-stream")
		}
	}
	if s.openSubs != nil && s.openSubs(w.from) == 0 {
		// go-zero opens a stream for a range nobody is subscribed to (any more)
		s.view(w.from).orphanWatch = true
		s.r.Probe("watch-opened-without-subscriber")
	}
	s.watchers = append(s.watchers, w)
	if s.r.Tracing() {
		s.r.Logf("etcd watch #%d [%q,%q) from rev %d (store rev %d, compacted %d)", w.id, w.from, w.end, w.next, s.rev, s.compactRev)
	}
	s.r.GoBackground("simetcd.watch", w.pump)
	return w.ch
}

// kvRemote is the transport behind the real clientv3 KV front end.
type kvRemote struct {
	pb.KVClient // Txn, Compact: not used by go-zero
	c           *simClient
}

func (k *kvRemote) Range(ctx context.Context, in *pb.RangeRequest, _ ...grpc.CallOption) (*pb.RangeResponse, error) {
	s := k.c.s
	s.r.Yield()
	s.nGets++
	if id := s.r.CurrentID(); true {
		if s.getsBy[id] == nil {
			s.getsBy[id] = map[string]int{}
		}
		s.getsBy[id][string(in.Key)]++
	}
	if s.faultsOn && s.getFail > 0 {
		s.getFail--
		if s.t.Bool() {
			// the request times out (virtual time passes until the caller's deadline)
			s.r.Probe("fault-get-timeout")
			if dl, ok := ctx.Deadline(); ok {
				if d := time.Until(dl); d > 0 {
					s.r.Sleep(d)
				}
			}
			return nil, context.DeadlineExceeded
		}
		s.r.Probe("fault-get-error")
		return nil, rpctypes.ErrGRPCNoLeader
	}
	if s.faultsOn && s.fc.getLatency && s.t.Chance(1, 3) {
		s.r.Probe("fault-get-latency")
		s.r.Sleep(time.Duration(1+s.t.Intn(2000)) * time.Millisecond)
	}
	if err := ctx.Err(); err != nil {
		return nil, err
	}
	kvs := s.rangeKVs(string(in.Key), string(in.RangeEnd))
	s.noteSnapshot(string(in.Key), kvs)
	if id := s.r.CurrentID(); true {
		if s.loadsBy[id] == nil {
			s.loadsBy[id] = map[string]int{}
		}
		s.loadsBy[id][string(in.Key)]++
	}
	for _, w := range s.watchers {
		if w.from == string(in.Key) && w.sent > 0 && w.ctx.Err() != nil && s.taskAlive(w.owner) {
			// the last subscriber of the range was closed and a new one is loading the range,
			// but the old watch goroutine has not left yet
			s.view(w.from).oldWatchAlive = true
			s.r.Probe("snapshot-while-cancelled-watch-goroutine-alive")
		}
	}
	resp := &pb.RangeResponse{Header: s.header(), Kvs: kvs, Count: int64(len(kvs))}
	if s.r.Tracing() {
		s.r.Logf("etcd get [%q,%q) -> %d kvs at rev %d", in.Key, in.RangeEnd, len(kvs), s.rev)
	}
	if s.faultsOn && s.fc.getLatency && s.t.Chance(1, 3) {
		// the answer is on its way while the store moves on
		s.r.Sleep(time.Duration(1+s.t.Intn(2000)) * time.Millisecond)
	}
	return resp, nil
}

func (k *kvRemote) Put(ctx context.Context, in *pb.PutRequest, _ ...grpc.CallOption) (*pb.PutResponse, error) {
	s := k.c.s
	s.r.Yield()
	if err := ctx.Err(); err != nil {
		return nil, err
	}
	if err := s.put(string(in.Key), string(in.Value), in.Lease); err != nil {
		return nil, err
	}
	return &pb.PutResponse{Header: s.header()}, nil
}

func (k *kvRemote) DeleteRange(ctx context.Context, in *pb.DeleteRangeRequest, _ ...grpc.CallOption) (*pb.DeleteRangeResponse, error) {
	s := k.c.s
	s.r.Yield()
	var keys []string
	for key := range s.kvs {
		if inRange(key, string(in.Key), string(in.RangeEnd)) {
			keys = append(keys, key)
		}
	}
	n := s.deleteKeys(keys, "delete")
	return &pb.DeleteRangeResponse{Header: s.header(), Deleted: int64(n)}, nil
}
