package c11

import (
	"context"
	"database/sql"
	"database/sql/driver"
	"fmt"
	"io"
	"regexp"
	"sort"
	"strconv"
	"strings"
	"time"

	"github.com/zeromicro/go-zero/core/stores/sqlx"

	"verifsim/simrt"
)

// sqlx.BulkInserter: a PeriodicalExecutor whose container collects formatted value tuples and
// executes them as one multi-row insert statement on a SqlConn.  The harness gives it a stub
// SqlConn whose Exec parses the statement back into rows, so the executor oracle (every
// accepted row is executed exactly once, a failing / panicking Exec loses only its own
// batch) applies to rows, attributed by their unique values whatever statement carries them.
// Judged on top of that: rows keep their argument values; the result handler is called once
// per executed batch with that batch's result / error.
//
// OBSERVED BUT NOT JUDGED (the property text says nothing about them; they are counted as
// probes stmt-switch-* / update-before-pending-rows-flushed and written to the trace):
// under which statement a row is executed after UpdateStmt (on the unchanged tree a batch
// that is in flight during UpdateStmt is executed under the new statement, or - with
// statement-level switching - under a statement torn between the two: replay-probe-*.json),
// and whether UpdateOrDelete's function runs after the flush of the earlier rows.
//
// BulkInserter has no Wait: delivery is asserted at an explicit flush (at quiescence, see
// checkFlushed) and "at the latest by the periodic flush" in the phase without calls.

// stmtTmpl is one insert statement: sql() = head + values + [" " + suffix].  Every statement
// takes the arguments (id, tag, ok) in this order, so that producers need not know which
// statement is current.  Statements differ in table, spacing, suffix, and one of them
// carries a literal fourth value (marker) in its value tuple, which shows in every row
// which statement's value format formatted it.
type stmtTmpl struct {
	head   string // up to and including the VALUES keyword; must re-appear unchanged
	values string
	suffix string
	marker string
}

func (s stmtTmpl) sql() string {
	if s.suffix == "" {
		return s.head + s.values
	}
	return s.head + s.values + " " + s.suffix
}

var tmpls = []stmtTmpl{
	{head: "insert into t_a(id, tag, ok) values", values: " (?, ?, ?)"},
	{head: "insert into t_b(id, tag, ok) values", values: " (?, ?, ?)", suffix: "on duplicate key update ok = 0"},
	{head: "INSERT INTO t_c VALUES", values: "(?,?,?,'m2')", suffix: "ON DUPLICATE KEY UPDATE ok=VALUES(ok)", marker: "m2"},
	{head: "insert ignore into `t_d` (`id`, `tag`, `ok`) values", values: " ( ? , ? , ? )\n"},
}

var badStmts = []string{
	"insert into t_x(id, tag, ok) values (?, ?)", // columns and variables differ
	"update t_x set ok = 1",                      // not an insert ... values statement
	"insert into t_x(id, tag, ok) values ()",     // no variables
}

var tagDeco = []string{"", "'", "),(", "\\", "?", " values (", "\"q\"", "\n", "', 'x", "\\'", "é, (", "''"}

func rowTag(id int) string { return fmt.Sprintf("r%d%s", id, tagDeco[id%len(tagDeco)]) }
func rowOk(id int) bool    { return id%3 != 1 }

const badIDBase = 1000000

type insPlan struct {
	tmpl0    int          // initial statement
	handler0 bool         // a result handler is installed before the first Insert
	prefill  int          // rows inserted back to back by one client before the producers start (aimed at the inserter's row threshold)
	failAt   map[int]bool // Exec invocations that return an error
	hPanicAt int          // result handler invocation that panics (-1: none)
	errKind  int          // identity of the errors Exec returns (ek*)
}

// identities of the errors the stub connection returns
const (
	ekPlain        = iota // the harness' own error type
	ekWrapBadConn         // ... wrapping driver.ErrBadConn
	ekWrapDeadline        // ... wrapping context.DeadlineExceeded
	ekWrapConnDone        // ... wrapping sql.ErrConnDone
	ekBareDeadline        // context.DeadlineExceeded itself (first failure of the run; the others wrap it)
	ekWrapCanceled        // ... wrapping context.Canceled
	ekBareBadConn         // driver.ErrBadConn itself (first failure; the others wrap it)
	ekWrapEOF             // ... wrapping io.ErrUnexpectedEOF
	ekKinds
)

var ekNames = []string{"plain", "wraps driver.ErrBadConn", "wraps context.DeadlineExceeded", "wraps sql.ErrConnDone", "context.DeadlineExceeded itself", "wraps context.Canceled", "driver.ErrBadConn itself", "wraps io.ErrUnexpectedEOF"}

func (ip *insPlan) String() string {
	return fmt.Sprintf("stmt0=S%d handler0=%v prefill=%d execFailAt=%v (%s) handlerPanicAt=%d", ip.tmpl0, ip.handler0, ip.prefill, keys(ip.failAt), ekNames[ip.errKind], ip.hPanicAt)
}

// The inserter's flush period (1 s) and row threshold (1000) are not configurable; the
// workload is aimed at them (think times around ticks and the idle period, a prefill that
// stops just short of the threshold), the oracles do not depend on them except for the
// liveness budget of the phase without calls.
const (
	insInterval  = time.Second
	insThreshold = 1000
)

func drawInserterPlan(t *simrt.Tape, tier string, p *plan) {
	ip := &insPlan{failAt: map[int]bool{}, hPanicAt: -1}
	p.ins = ip
	p.interval = insInterval
	p.threshold = insThreshold
	p.eventual = true
	iv := p.interval
	ip.tmpl0 = t.Intn(len(tmpls))
	ip.handler0 = t.Chance(1, 2)
	if t.Chance(1, 20) {
		ip.prefill = insThreshold - t.Intn(3)
	}
	maxOps := 6
	if tier == "thorough" {
		maxOps = 10
	}
	nProd := t.Range(1, 4)
	for i := 0; i < nProd; i++ {
		n := t.Range(1, maxOps)
		var ops []op
		for j := 0; j < n; j++ {
			o := op{think: drawThink(t, iv), size: 1}
			switch v := t.Intn(16); {
			case v < 9:
				o.kind = opAdd
			case v < 11:
				o.kind = opFlush
				o.q = t.Chance(1, 2)
			case v < 13:
				o.kind = opUpdateStmt
				o.arg = t.Intn(len(tmpls))
				o.q = t.Chance(1, 2)
			case v < 14:
				o.kind = opUpdateOrDelete
				o.q = t.Chance(1, 2)
			case v < 15:
				o.kind = opSetHandler
			default:
				if t.Bool() {
					o.kind = opUpdateStmtBad
					o.arg = t.Intn(len(badStmts))
				} else {
					o.kind = opInsertBad
				}
			}
			ops = append(ops, o)
		}
		p.prods = append(p.prods, ops)
	}
	for i, n := 0, t.Range(1, 4); i < n; i++ {
		p.cbWork = append(p.cbWork, drawWork(t, iv))
	}
	if t.Chance(1, 4) {
		p.panicAt = t.Intn(6)
	}
	if t.Chance(1, 3) {
		for i, n := 0, t.Range(1, 2); i < n; i++ {
			ip.failAt[t.Intn(6)] = true
		}
	}
	if t.Chance(1, 6) {
		ip.hPanicAt = t.Intn(4)
	}
	if t.Chance(1, 3) {
		p.sniper = 1
		p.sniperOff = []time.Duration{0, -time.Nanosecond, time.Nanosecond, -iv, iv}[t.Intn(5)]
	}
	if p.panicAt >= 0 {
		p.panicSet[p.panicAt] = true
	}
	if p.panicAt >= 0 || ip.hPanicAt >= 0 {
		if p.panicAt < 0 {
			// only the handler panics: its values need identities too
			p.panicKinds = []int{t.Intn(pkKinds)}
		} else {
			drawFaultIdentities(t, p)
		}
	}
	if len(ip.failAt) > 0 {
		ip.errKind = t.Intn(ekKinds)
	}
}

// ---------------------------------------------------------------- stub connection

type execResult struct{ n int }

func (e *execResult) LastInsertId() (int64, error) { return int64(e.n), nil }
func (e *execResult) RowsAffected() (int64, error) { return 1, nil }

type execError struct {
	n     int
	cause error
}

func (e *execError) Error() string {
	if e.cause != nil {
		return fmt.Sprintf("injected: statement #%d failed: %v", e.n, e.cause)
	}
	return fmt.Sprintf("injected: statement #%d failed", e.n)
}
func (e *execError) Unwrap() error { return e.cause }

// execErr is the error of a failing Exec in the identity drawn for the run.
func (iw *insWorld) execErr(n int) error {
	iw.fails++
	kind := iw.w.p.ins.errKind
	if kind != ekPlain {
		iw.w.r.Probe("exec-failed-with-sentinel-error")
	}
	switch kind {
	case ekWrapBadConn:
		return &execError{n, driver.ErrBadConn}
	case ekWrapDeadline:
		return &execError{n, context.DeadlineExceeded}
	case ekWrapConnDone:
		return &execError{n, sql.ErrConnDone}
	case ekBareDeadline:
		if iw.fails == 1 {
			return context.DeadlineExceeded
		}
		return &execError{n, context.DeadlineExceeded}
	case ekWrapCanceled:
		return &execError{n, context.Canceled}
	case ekBareBadConn:
		if iw.fails == 1 {
			return driver.ErrBadConn
		}
		return &execError{n, driver.ErrBadConn}
	case ekWrapEOF:
		return &execError{n, io.ErrUnexpectedEOF}
	}
	return &execError{n: n}
}

// stubConn implements sqlx.SqlConn; BulkInserter only ever calls Exec (any other method
// would dereference the nil embedded interface and show up as an uncaught panic).
type stubConn struct {
	sqlx.SqlConn
	iw *insWorld
}

func (c *stubConn) Exec(q string, args ...any) (sql.Result, error) { return c.iw.exec(q, args) }
func (c *stubConn) ExecCtx(_ context.Context, q string, args ...any) (sql.Result, error) {
	return c.iw.exec(q, args)
}

type execRec struct {
	id       int
	tmpl     int
	task     int
	start    int
	startAt  time.Duration
	end      int // 0: Exec has not returned (running or panicked)
	batch    *batchRec
	res      *execResult
	err      error
	panicked bool
}

type switchRec struct {
	tmpl    int
	initial bool
	inv     int
	ret     int // 0 while the UpdateStmt call is in flight
	retAt   time.Duration
}

type handlerRec struct {
	id  int
	inv int
	ret int
}

type handlerCall struct {
	h    int
	res  sql.Result
	err  error
	clk  int
	task int
}

type insWorld struct {
	w  *world
	bi *sqlx.BulkInserter

	execs    []*execRec
	switches []*switchRec
	handlers []*handlerRec
	hcalls   []*handlerCall
	hInv     int
	bad      int
	fails    int // Exec calls that returned an error so far
}

type inserterEx struct{ iw *insWorld }

func (x inserterEx) Add(id, _ int) {
	if err := x.iw.bi.Insert(id, rowTag(id), rowOk(id)); err != nil {
		x.iw.w.failf("insert-rejected", "Insert(%d, %q, %v) with the right number of arguments returned %v", id, rowTag(id), rowOk(id), err)
	}
}
func (x inserterEx) Flush()              { x.iw.bi.Flush() }
func (x inserterEx) Wait()               { panic("BulkInserter has no Wait") }
func (x inserterEx) Sync(fn func()) bool { return false }

// ---------------------------------------------------------------- statement parsing

type sqlTok struct {
	str bool
	s   string
	n   int64
}

func isSpace(c byte) bool { return c == ' ' || c == '\t' || c == '\n' || c == '\r' }

// parseInsert reads `head (v, v, ...), (v, ...) ... tail` where v is an integer or a quoted
// string literal with backslash escapes (MySQL syntax).
func parseInsert(q string) (tmpl int, rows [][]sqlTok, tail string, err error) {
	tmpl = -1
	for i, t := range tmpls {
		if strings.HasPrefix(q, t.head) {
			tmpl = i
		}
	}
	if tmpl < 0 {
		return -1, nil, "", fmt.Errorf("does not start with the insert ... values head of any statement given to the inserter")
	}
	i := len(tmpls[tmpl].head)
	skip := func() {
		for i < len(q) && isSpace(q[i]) {
			i++
		}
	}
	for {
		skip()
		if i >= len(q) || q[i] != '(' {
			return tmpl, rows, "", fmt.Errorf("value tuple expected at offset %d", i)
		}
		i++
		var row []sqlTok
		for {
			skip()
			if i >= len(q) {
				return tmpl, rows, "", fmt.Errorf("unterminated value tuple")
			}
			switch c := q[i]; {
			case c == '\'':
				i++
				var sb strings.Builder
				closed := false
				for i < len(q) && !closed {
					c := q[i]
					switch {
					case c == '\\':
						if i+1 >= len(q) {
							return tmpl, rows, "", fmt.Errorf("dangling backslash")
						}
						switch e := q[i+1]; e {
						case 'n':
							sb.WriteByte('\n')
						case 'r':
							sb.WriteByte('\r')
						case 't':
							sb.WriteByte('\t')
						case '0':
							sb.WriteByte(0)
						default:
							sb.WriteByte(e)
						}
						i += 2
					case c == '\'' && i+1 < len(q) && q[i+1] == '\'':
						sb.WriteByte('\'')
						i += 2
					case c == '\'':
						closed = true
						i++
					default:
						sb.WriteByte(c)
						i++
					}
				}
				if !closed {
					return tmpl, rows, "", fmt.Errorf("unterminated string literal")
				}
				row = append(row, sqlTok{str: true, s: sb.String()})
			case c == '-' || (c >= '0' && c <= '9'):
				j := i + 1
				for j < len(q) && q[j] >= '0' && q[j] <= '9' {
					j++
				}
				n, perr := strconv.ParseInt(q[i:j], 10, 64)
				if perr != nil {
					return tmpl, rows, "", fmt.Errorf("bad number %q", q[i:j])
				}
				row = append(row, sqlTok{n: n})
				i = j
			default:
				return tmpl, rows, "", fmt.Errorf("unexpected %q at offset %d inside a value tuple", c, i)
			}
			skip()
			if i >= len(q) {
				return tmpl, rows, "", fmt.Errorf("unterminated value tuple")
			}
			if q[i] == ',' {
				i++
				continue
			}
			if q[i] == ')' {
				i++
				break
			}
			return tmpl, rows, "", fmt.Errorf("unexpected %q at offset %d after a value", q[i], i)
		}
		rows = append(rows, row)
		skip()
		if i < len(q) && q[i] == ',' {
			i++
			continue
		}
		break
	}
	return tmpl, rows, strings.TrimSpace(q[i:]), nil
}

var rowStart = regexp.MustCompile(`\(\s*(-?[0-9]+)\s*,\s*'r([0-9]+)`)

// scanRows recovers (id, tag) pairs from a statement that does not parse: every value tuple
// starts with the row id followed by a tag literal that starts with r<id>.  nil: nothing
// trustworthy could be recovered.
func scanRows(q string) [][]sqlTok {
	var rows [][]sqlTok
	for _, m := range rowStart.FindAllStringSubmatch(q, -1) {
		if m[1] != m[2] {
			return nil
		}
		id, err := strconv.Atoi(m[1])
		if err != nil {
			return nil
		}
		rows = append(rows, []sqlTok{{n: int64(id)}, {str: true, s: rowTag(id)}})
	}
	return rows
}

func clip(s string) string {
	if len(s) > 300 {
		return s[:300] + fmt.Sprintf("... (%d bytes)", len(s))
	}
	return s
}

// exec is the database: it parses the statement back into rows, attributes every row to
// the Insert call it came from and hands the row ids to the common delivery bookkeeping.
func (iw *insWorld) exec(q string, args []any) (sql.Result, error) {
	w := iw.w
	r := w.r
	e := &execRec{id: len(iw.execs), task: r.CurrentID(), start: w.tick(), startAt: r.Elapsed()}
	iw.execs = append(iw.execs, e)
	if len(args) != 0 {
		w.failf("stmt-malformed", "Exec called with %d arguments: the inserter has to send fully formatted statements", len(args))
	}
	tmpl, rows, tail, err := parseInsert(q)
	e.tmpl = tmpl
	if err != nil {
		if len(iw.switches) == 1 {
			// no UpdateStmt call was ever made: the statement cannot be torn between two statements
			w.failf("stmt-malformed", "statement is not a well-formed multi-row insert (%v): %q", err, clip(q))
			return nil, &execError{n: -1}
		}
		// Execute reads the inserter's statement without synchronisation with UpdateStmt: the text
		// may be torn between two statements.  Rows are attributed by their unique (id, tag) pair
		// wherever they stand; if that is not possible the run is not judged any further.
		r.Probe("stmt-unparsable-after-updatestmt")
		rows = scanRows(q)
		if rows == nil {
			w.abandon("run-not-judged-rows-unrecoverable")
			return nil, &execError{n: -1}
		}
		tmpl, tail = -1, ""
		e.tmpl = -1
	}
	if r.Tracing() {
		r.Logf("Exec #%d on T%d: S%d, %d rows, tail %q", e.id, e.task, tmpl, len(rows), tail)
	}
	if tmpl >= 0 && tail != tmpls[tmpl].suffix {
		class := "stmt-malformed"
		if len(iw.switches) > 1 {
			// head of one statement, tail of another: observed, not judged
			class = observePrefix + iw.classifySwitch(e) + "/torn"
		}
		w.failf(class, "statement starts as S%d (%q) but ends with %q instead of %q: %q", tmpl, tmpls[tmpl].head, tail, tmpls[tmpl].suffix, clip(q))
	}
	var vals []any
	observed := false
	for _, row := range rows {
		marker := ""
		switch {
		case len(row) == 3 && !row[0].str && row[1].str && !row[2].str:
		case len(row) == 4 && !row[0].str && row[1].str && !row[2].str && row[3].str:
			marker = row[3].s
		case len(row) == 2 && !row[0].str && row[1].str:
			// recovered by scanRows from an unparsable statement: (id, tag) only
			id := int(row[0].n)
			vals = append(vals, id)
			if id >= 0 && id < len(w.tasks) && row[1].s != rowTag(id) {
				w.abandon("run-not-judged-rows-unrecoverable")
				return nil, &execError{n: -1}
			}
			continue
		default:
			w.failf("stmt-malformed", "value tuple %v is not (id, tag, ok[, marker]) in %q", row, clip(q))
			continue
		}
		id := int(row[0].n)
		vals = append(vals, id)
		if id < 0 || id >= len(w.tasks) {
			continue // reported as a phantom by deliver
		}
		rec := w.tasks[id]
		okv := int64(0)
		if rowOk(id) {
			okv = 1
		}
		if row[1].s != rowTag(id) || row[2].n != okv {
			w.failf("row-value-changed", "row %d was inserted as (%d, %q, %v) and reached the database as (%d, %q, %d)", id, id, rowTag(id), rowOk(id), row[0].n, row[1].s, row[2].n)
		}
		if tmpl >= 0 && !observed && (marker != tmpls[tmpl].marker || !iw.admissible(rec, tmpl)) {
			observed = true // once per statement
			// under which statement a row is executed is observed, not judged
			class := observePrefix + iw.classifySwitch(e)
			w.failf(class, "row %d (Insert invoked at event %d, returned at event %d, formatted by a statement with marker %q) was executed at event %d inside statement S%d (%q, marker %q); statement history %s", id, rec.addInv, rec.addRet, marker, e.start, tmpl, tmpls[tmpl].head, tmpls[tmpl].marker, iw.history())
		}
	}
	inv := w.invocations
	defer func() {
		if rec := recover(); rec != nil {
			e.panicked = true
			panic(rec)
		}
	}()
	e.batch = w.deliver(vals)
	e.end = w.tick()
	if w.p.ins.failAt[inv] {
		r.Probe("exec-failed")
		e.err = iw.execErr(inv)
		return nil, e.err
	}
	e.res = &execResult{n: inv}
	return e.res, nil
}

func (iw *insWorld) history() string {
	var sb strings.Builder
	for _, s := range iw.switches {
		if s.initial {
			fmt.Fprintf(&sb, "[S%d initially]", s.tmpl)
		} else {
			fmt.Fprintf(&sb, "[UpdateStmt(S%d) invoked %d returned %d]", s.tmpl, s.inv, s.ret)
		}
	}
	return sb.String()
}

// admissible: may a row of this Insert call legitimately be executed under statement x?
// Yes iff x was (possibly) the inserter's statement at some moment of the Insert call: some
// switch to x was invoked before the Insert returned and no switch that definitely came
// after it had returned before the Insert was invoked.
func (iw *insWorld) admissible(rec *taskRec, x int) bool {
	ai, ar := rec.addInv, rec.addRet
	for j, s := range iw.switches {
		if s.tmpl != x {
			continue
		}
		if !s.initial && ar != 0 && s.inv >= ar {
			continue
		}
		replaced := false
		for m, s2 := range iw.switches {
			if m == j || s2.initial || s2.ret == 0 || s2.ret >= ai {
				continue
			}
			if s.initial || (s.ret != 0 && s2.inv > s.ret) {
				replaced = true
			}
		}
		if !replaced {
			return true
		}
	}
	return false
}

// classifySwitch names a statement/row inconsistency by what can be observed about the
// batch: executed by the flush of an UpdateStmt call itself; possibly taken out of the
// container before some UpdateStmt call had returned (in flight during a switch); neither.
func (iw *insWorld) classifySwitch(e *execRec) string {
	w := iw.w
	inflight := false
	if w.harnessTasks[e.task] {
		if w.curOp[e.task] == "UpdateStmt" {
			return "stmt-switch/pending-rows-executed-under-new-statement"
		}
		opInv := w.opInv[e.task]
		for _, s := range iw.switches {
			if !s.initial && (s.ret == 0 || s.ret > opInv) {
				inflight = true
			}
		}
	} else {
		stalls := w.r.Cfg().StallPerMille > 0
		for _, s := range iw.switches {
			if !s.initial && s.inv < e.start && (stalls || s.ret == 0 || s.retAt >= e.startAt) {
				inflight = true
			}
		}
	}
	if inflight {
		return "stmt-switch/in-flight-batch-executed-under-other-statement"
	}
	return "stmt-switch/rows-executed-under-wrong-statement"
}

// ---------------------------------------------------------------- operations

func (iw *insWorld) updateStmt(k int, check bool) {
	w := iw.w
	s := &switchRec{tmpl: k, inv: w.tick()}
	iw.switches = append(iw.switches, s)
	w.r.Ev("updatestmt", int64(k))
	if w.executing > 0 {
		w.r.Probe("updatestmt-while-executing")
	}
	if len(w.inflight) > 0 {
		w.r.Probe("updatestmt-while-insert-in-flight")
	}
	var err error
	w.guard("UpdateStmt", func() { err = iw.bi.UpdateStmt(tmpls[k].sql()) })
	s.ret = w.tick()
	s.retAt = w.r.Elapsed()
	if err != nil {
		w.failf("stmt-rejected", "UpdateStmt(%q) returned %v", tmpls[k].sql(), err)
		return
	}
	if check {
		w.checkFlushed("UpdateStmt", s.inv, observePrefix+"stmt-switch/pending-rows-not-flushed")
	}
}

func (iw *insWorld) updateStmtBad(k int) {
	w := iw.w
	var err error
	w.tick()
	w.guard("UpdateStmt", func() { err = iw.bi.UpdateStmt(badStmts[k]) })
	w.tick()
	if err == nil {
		w.failf("bad-stmt-accepted", "UpdateStmt(%q) returned nil", badStmts[k])
	}
	w.r.Probe("bad-stmt-rejected")
}

func (iw *insWorld) insertBad() {
	w := iw.w
	n := iw.bad
	iw.bad++
	args := []any{badIDBase + n, "bad"}
	if n%2 == 1 {
		args = []any{badIDBase + n, "bad", true, 7}
	}
	var err error
	w.tick()
	w.guard("Insert", func() { err = iw.bi.Insert(args...) })
	w.tick()
	if err == nil {
		w.failf("bad-insert-accepted", "Insert with %d arguments for a statement with 3 variables returned nil", len(args))
	}
	w.r.Probe("bad-insert-rejected")
}

func (iw *insWorld) updateOrDelete(check bool) {
	w := iw.w
	r := w.r
	inv := w.tick()
	r.Ev("uod", int64(inv))
	ran := 0
	w.guard("UpdateOrDelete", func() {
		iw.bi.UpdateOrDelete(func() {
			ran++
			w.tick()
			for _, t := range w.tasks {
				if t.addRet != 0 && t.addRet < inv && t.execs > 0 && t.batch.end == 0 && !t.batch.panicked {
					// allowed by the statement (only Wait promises completion); counted
					r.Probe("update-fn-ran-while-earlier-rows-still-in-exec")
					break
				}
			}
			if check {
				w.checkFlushed("UpdateOrDelete (inside its function)", inv, observePrefix+"update-before-pending-rows-flushed")
			}
		})
	})
	w.tick()
	if ran != 1 && !r.Failed() {
		w.failf("update-fn-not-run-once", "UpdateOrDelete ran its function %d times", ran)
	}
}

func (iw *insWorld) setHandler() {
	w := iw.w
	h := &handlerRec{id: len(iw.handlers), inv: w.tick()}
	iw.handlers = append(iw.handlers, h)
	w.guard("SetResultHandler", func() {
		iw.bi.SetResultHandler(func(res sql.Result, err error) {
			c := &handlerCall{h: h.id, res: res, err: err, clk: w.tick(), task: w.r.CurrentID()}
			iw.hcalls = append(iw.hcalls, c)
			n := iw.hInv
			iw.hInv++
			w.r.Yield()
			if n == w.p.ins.hPanicAt {
				w.r.Probe("result-handler-panicked")
				w.raise(fmt.Sprintf("result-handler-%d", n))
			}
		})
	})
	h.ret = w.tick()
}

// checkHandlers: the result handler is called once per executed batch with that batch's
// result and error.  Exact where a handler was certainly installed before Exec started;
// never more than once; never with a result/error pair that no Exec returned.
func (iw *insWorld) checkHandlers() bool {
	w := iw.w
	calls := map[*execRec]int{}
	for _, c := range iw.hcalls {
		var match *execRec
		for _, e := range iw.execs {
			if e.end == 0 {
				continue
			}
			if (e.res != nil && c.res == sql.Result(e.res)) || (e.err != nil && c.err == e.err) {
				match = e
			}
		}
		if match == nil {
			w.failf(observePrefix+"handler-phantom", "result handler called with (%v, %v) at event %d, which no Exec call returned", c.res, c.err, c.clk)
			return false
		}
		if (match.res == nil) != (c.res == nil) || (match.err == nil) != (c.err == nil) {
			w.failf(observePrefix+"handler-wrong-result", "Exec #%d returned (%v, %v), the result handler was given (%v, %v)", match.id, match.res, match.err, c.res, c.err)
			return false
		}
		if c.clk < match.end {
			w.failf(observePrefix+"handler-wrong-result", "result handler called at event %d with the outcome of Exec #%d which returned at event %d", c.clk, match.id, match.end)
			return false
		}
		calls[match]++
	}
	for _, e := range iw.execs {
		if e.end == 0 {
			continue
		}
		if calls[e] > 1 {
			w.failf(observePrefix+"handler-duplicate", "result handler called %d times for Exec #%d", calls[e], e.id)
			return false
		}
		installed := false
		for _, h := range iw.handlers {
			if h.ret != 0 && h.ret < e.start {
				installed = true
			}
		}
		if installed {
			w.r.Probe("handler-oracle-exact")
			if calls[e] != 1 {
				w.failf(observePrefix+"handler-missed", "a result handler was installed (SetResultHandler returned) before Exec #%d started at event %d, Exec returned (%v, %v) at event %d, but the handler was called %d times for it", e.id, e.start, e.res, e.err, e.end, calls[e])
				return false
			}
		}
	}
	return true
}

// ---------------------------------------------------------------- body

func (w *world) bodyInserter() {
	r, p := w.r, w.p
	ip := p.ins
	iw := &insWorld{w: w}
	w.iw = iw
	bi, err := sqlx.NewBulkInserter(&stubConn{iw: iw}, tmpls[ip.tmpl0].sql())
	if err != nil {
		w.failf("stmt-rejected", "NewBulkInserter(%q) returned %v", tmpls[ip.tmpl0].sql(), err)
		return
	}
	iw.bi = bi
	iw.switches = []*switchRec{{tmpl: ip.tmpl0, initial: true}}
	w.ex = inserterEx{iw}
	if ip.handler0 {
		iw.setHandler()
	}

	// ---- phase 0 (drawn, rare: ~1000 calls): one client fills the inserter up to (just short
	// of) its row threshold, so that the producers' inserts cross it under concurrency
	if ip.prefill > 0 {
		r.Probe("prefill")
		pt := w.goTask("prefill", func() {
			for i := 0; i < ip.prefill && !r.Failed(); i++ {
				w.add(-1, 1)
			}
		})
		if !w.joinOps(opBudget, pt) || r.Failed() {
			return
		}
	}

	// ---- phase 1: concurrent producers
	var tasks []*simrt.Task
	for i := range p.prods {
		i := i
		tasks = append(tasks, w.goTask(fmt.Sprintf("producer%d", i), func() {
			for _, o := range p.prods[i] {
				if o.think > 0 {
					r.Sleep(o.think)
				}
				if r.Failed() {
					return
				}
				switch o.kind {
				case opAdd:
					w.add(i, 1)
				case opFlush:
					w.flush(o.q)
				case opInsertBad:
					iw.insertBad()
				case opUpdateOrDelete:
					iw.updateOrDelete(o.q)
				case opUpdateStmt:
					iw.updateStmt(o.arg, o.q)
				case opUpdateStmtBad:
					iw.updateStmtBad(o.arg)
				case opSetHandler:
					iw.setHandler()
				}
			}
		}))
	}
	if !w.joinOps(opBudget, tasks...) || r.Failed() {
		return
	}
	if w.bgSpawns() >= 2 {
		r.Probe("background-quit-and-restarted")
		r.Probe("inserter-background-quit-and-restarted")
	}
	w.raceProbes()
	for _, b := range w.batches {
		if !w.harnessTasks[b.byTask] && len(b.tasks) >= insThreshold {
			r.Probe("threshold-batch-handed-to-flusher")
		}
	}

	// ---- phase 1b (drawn): an Insert aimed at the tick on which the idle flusher quits
	if !w.sniperPhase() {
		return
	}

	// ---- phase 2: no calls any more - the periodic flush alone has to get every accepted row
	// to the database (BulkInserter has no Wait)
	if !w.eventualPhase() {
		return
	}
	if !w.exactlyOnce("the periodic flush had all the time it needs") {
		return
	}

	// ---- phase 3: drain past the idle period, then the per-batch result handler oracle
	if !w.drainPhase("every row had been executed") {
		return
	}
	r.Probe("oracle")
	iw.checkHandlers()
	var stmts []int
	seen := map[int]bool{}
	for _, e := range iw.execs {
		if !seen[e.tmpl] {
			seen[e.tmpl] = true
			stmts = append(stmts, e.tmpl)
		}
	}
	sort.Ints(stmts)
	if len(stmts) > 1 {
		r.Probe("rows-executed-under-several-statements")
	}
}
