package c11

import (
	"context"
	"errors"
	"fmt"
	"math"
	"net/http"
	"os"
	"sort"
	"strings"
	"testing"
	"time"

	"github.com/zeromicro/go-zero/core/executors"
	"github.com/zeromicro/go-zero/core/logx"

	"verifsim/simharness"
	"verifsim/simrt"
)

// C11: PeriodicalExecutor / BulkExecutor / ChunkExecutor run every added task exactly once;
// Wait returns only after the callbacks of everything added before it have returned; a
// panicking callback loses only its own batch.  The fourth variant drives sqlx.BulkInserter
// (which is a PeriodicalExecutor with a statement-building container) on a stub SqlConn:
// see inserter_test.go.

func init() { logx.Disable() }

// bgSite is the spawn site of the executor's self-terminating background flusher.
const bgSite = "core/executors/periodicalexecutor.go"

const (
	vBulk = iota
	vChunk
	vPeriodical
	vInserter
)

var vNames = []string{"BulkExecutor", "ChunkExecutor", "PeriodicalExecutor+custom container", "sqlx.BulkInserter on a stub SqlConn"}

// burst items that are not Adds
const (
	burstFlush = -1
	burstWait  = -2
)

const (
	opAdd = iota
	opFlush
	opWait
	opSync
	// inserter only
	opInsertBad
	opUpdateOrDelete
	opUpdateStmt
	opUpdateStmtBad
	opSetHandler
)

var opNames = []string{"add", "flush", "wait", "sync", "insert-with-wrong-arg-count", "update-or-delete", "update-stmt", "update-stmt-bad", "set-result-handler"}

type op struct {
	kind  int
	think time.Duration
	size  int  // chunk bytes of the task (ChunkExecutor), weight 1 otherwise
	q     bool // Flush (and the inserter's UpdateOrDelete / UpdateStmt): evaluate the "pending tasks were flushed" oracle at quiescence
	arg   int  // inserter: statement template of an UpdateStmt
}

type plan struct {
	variant   int
	threshold int // tasks (bulk, custom container) or bytes (chunk)
	interval  time.Duration
	burst     []int // sequential burst phase (may be empty): sizes of the tasks; burstFlush / burstWait = a Flush / Wait call
	prods     [][]op
	cbWork    []time.Duration // per callback invocation (cyclic): 0, <1us = that many yields, else virtual time
	panicAt   int             // callback invocation index that panics (-1: none)
	eventual  bool            // after the producers: let only the periodic flush do the work, no Wait
	midWaiter time.Duration   // >0: an extra task that calls Wait at this instant
	sniper    int             // 0 none; 1 one Add, 2 `threshold` Adds aimed at the tick on which the idle background goroutine quits
	sniperOff time.Duration   // offset from that tick
	ins       *insPlan        // variant vInserter only

	// constructor options (Bulk / Chunk executors)
	defThreshold bool // the size option is not passed: the package default applies (1000 tasks / 1 MiB; only aims the workload)
	defInterval  bool // the interval option is not passed: the package default applies (1 s; aims the workload, liveness budgets)
	optsReversed bool // interval option before the size option
	// callback faults
	panicSet   map[int]bool // every callback invocation index that panics (contains panicAt)
	panicKinds []int        // identities of the panic values, used cyclically (pk*)
	// task values
	valMode int // 0: every task is its int id; else a mix of shapes (vm*)
	nilAt   int // ordinal of the Add call whose task value is nil (-1: none; at most one per run, so that it stays attributable)
	// custom container (PeriodicalExecutor variant): the type of the batch RemoveAll returns
	batchKind int
	// re-entrant callbacks: invocation index -> what the callback calls on its own executor
	// (re*); only acted upon when the whole workload cannot reach the threshold
	reAt        map[int]int
	unreachable bool
	// BulkExecutor with the 1000-task threshold (passed or default), rare: one client fills the
	// executor up to (just short of) the threshold before the producers start
	prefill int
}

// identities of panic values
const (
	pkString = iota
	pkError
	pkWrappedError
	pkRuntimeNilMap
	pkAbortHandler
	pkStruct
	pkPointer
	pkRuntimeIndex
	pkDeadline
	pkKinds
)

var pkNames = []string{"string", "error", "wrapped sentinel error", "runtime error (nil map write)", "http.ErrAbortHandler", "struct value", "pointer", "runtime error (index out of range)", "context.DeadlineExceeded"}

// task value shapes
const (
	vmInt = iota
	vmMixed
	vmPointer
	vmSlice
	vmModes
)

var vmNames = []string{"int", "mixed (int, string, pointer, struct, slice, map)", "pointer", "slice (not comparable)"}

// batch types of the custom container
const (
	bkSlice = iota
	bkMap
	bkPointer
	bkStruct
	bkNilWhenEmpty
	bkChan
	bkKinds
)

var bkNames = []string{"[]any", "map[int]any", "*struct (opaque)", "struct (opaque)", "[]any, untyped nil when empty", "chan any"}
var bkShort = []string{"slice", "map", "pointer", "struct", "nil-when-empty", "chan"}

// re-entrant calls
const (
	reNone = iota
	reAdd
	reSync
	reAddTwice
)

const reProd = -3 // taskRec.prod of a task added from inside a callback

const thrDefault = math.MinInt // threshold list entry: do not pass the option

// package defaults of core/executors (unexported constants); they only aim the workload
// (which thresholds the workload cannot reach) and the liveness budgets
const (
	defaultTasks    = 1000
	defaultBytes    = 1 << 20
	defaultInterval = time.Second
)

var errPanicSentinel = errors.New("c11: sentinel error used as a panic value")

type panicBox struct{ n int }

type taskBox struct{ id int }

type taskRec struct {
	id       int
	prod     int
	size     int
	addInv   int // logical clock; 0 = Add not yet invoked
	addRet   int // 0 = Add has not returned
	addInvAt time.Duration
	execs    int
	batch    *batchRec
}

type batchRec struct {
	id       int
	tasks    []int
	start    int
	end      int // 0 while the callback runs
	startAt  time.Duration
	byTask   int // engine task id that ran the callback
	panicked bool
}

type world struct {
	r   *simrt.Run
	p   *plan
	clk int

	ex      executor
	tasks   []*taskRec
	batches []*batchRec

	executing    int // callbacks running now (batches with tasks only)
	invocations  int
	panics       int // callback panics so far
	addCalls     int // Add calls so far (executor variants)
	nilID        int // id of the task whose value is nil (-1: none)
	lastPanicked *batchRec
	addsInFlight int
	lateOK       bool

	// custom container instrumentation
	inContainer bool
	inSync      bool

	harnessTasks map[int]bool // engine ids of harness tasks (main + r.Go)
	spawned      int          // harness tasks started with r.Go
	curOp        map[int]string
	opInv        map[int]int // logical clock at which the current executor call of a harness task was invoked

	iw        *insWorld // variant vInserter only
	abandoned bool      // the run is not judged any further (see abandon)

	tolerate map[string]bool
	capture  map[string]bool
	inflight map[int]bool // ids of the tasks whose Add is in flight
	pending  []*earlyWait // Wait calls that returned early while an Add was in flight; classified when the batches are known

	// what the harness can see of the background flusher (only used to aim the workload)
	bgStartAt time.Duration // instant of the Add that started the current background goroutine
	bgLastAt  time.Duration // instant its last callback ended (or its start)
}

func (w *world) tick() int { w.clk++; return w.clk }

// earlyWait is a Wait call that returned although tasks added before it were not done,
// while some Add call was in flight.
type earlyWait struct {
	msg      string
	missed   []int
	inflight map[int]bool
}

// failf reports a violation; early Wait returns observed before it come first.
func (w *world) failf(class, format string, a ...any) {
	if w.abandoned {
		return
	}
	if strings.HasPrefix(class, observePrefix) {
		name := strings.TrimPrefix(class, observePrefix)
		if w.capture[name] {
			// development aid (VERIF_C11_CAPTURE): stop at an observation to get a trace file of it
			w.r.Fail(name, format, a...)
			return
		}
		w.observef(name, format, a...)
		return
	}
	w.settle()
	if w.tolerate[class] {
		// development mask (VERIF_C11_TOLERATE): count, do not fail
		w.r.Probe("tolerated:" + class)
		if w.r.Tracing() {
			w.r.Logf("TOLERATED %s: %s", class, fmt.Sprintf(format, a...))
		}
		return
	}
	w.r.Fail(class, format, a...)
}

// observePrefix marks classes that are observed and counted (probe, trace line) but never
// judged: behaviour that the inserter variant can see but that the property text does not
// speak about (under which statement a row is executed, the order of UpdateOrDelete's
// function and the flush).
const observePrefix = "observe:"

func (w *world) observef(name, format string, a ...any) {
	w.r.Probe(strings.ReplaceAll(name, "/", "-"))
	if w.r.Tracing() {
		w.r.Logf("OBSERVED (not judged) %s: %s", name, fmt.Sprintf(format, a...))
	}
}

// abandon stops judging the run: the rows of a statement could not be recovered, so
// nothing can be said about exactly-once any more.
func (w *world) abandon(probe string) {
	if !w.abandoned {
		w.settle()
		w.abandoned = true
		w.r.Probe(probe)
	}
}

// settle classifies the recorded early Wait returns (the batch a missed task went into is
// only known once that batch has been executed) and reports them.
//
//   - wait-early/batch-in-handoff: the missed task sits in a batch that an Add call which is
//     still in flight has removed from the container and is handing over to the background
//     goroutine
//   - wait-early/handoff-confirmation-swapped: every Add of the missed task's batch had
//     returned - the Add that handed the batch over returned on a confirmation meant for
//     another producer's hand-off, which is the call still in flight
func (w *world) settle() {
	pend := w.pending
	w.pending = nil
	if w.abandoned {
		return
	}
	for _, ew := range pend {
		class := "wait-early/batch-in-handoff"
		for _, id := range ew.missed {
			b := w.tasks[id].batch
			if b == nil {
				continue
			}
			own := false
			for _, m := range b.tasks {
				if ew.inflight[m] {
					own = true
				}
			}
			if !own {
				class = "wait-early/handoff-confirmation-swapped"
			}
		}
		if w.tolerate[class] {
			w.r.Probe("tolerated:" + class)
			if w.r.Tracing() {
				w.r.Logf("TOLERATED %s: %s", class, ew.msg)
			}
			continue
		}
		w.r.Fail(class, "%s", ew.msg)
	}
}

// executor is the common face of the three variants.
type executor interface {
	Add(id, size int)
	Flush()
	Wait()
	Sync(fn func()) bool
}

type bulkEx struct {
	e *executors.BulkExecutor
	w *world
}

func (b bulkEx) Add(id, _ int) {
	if err := b.e.Add(b.w.val(id)); err != nil {
		b.w.failf("add-rejected", "BulkExecutor.Add of task %d returned %v", id, err)
	}
}
func (b bulkEx) Flush()              { b.e.Flush() }
func (b bulkEx) Wait()               { b.e.Wait() }
func (b bulkEx) Sync(fn func()) bool { return false }

type chunkEx struct {
	e *executors.ChunkExecutor
	w *world
}

func (c chunkEx) Add(id, size int) {
	if err := c.e.Add(c.w.val(id), size); err != nil {
		c.w.failf("add-rejected", "ChunkExecutor.Add of task %d (%d bytes) returned %v", id, size, err)
	}
}
func (c chunkEx) Flush()              { c.e.Flush() }
func (c chunkEx) Wait()               { c.e.Wait() }
func (c chunkEx) Sync(fn func()) bool { return false }

type periodicalEx struct {
	e *executors.PeriodicalExecutor
	w *world
}

func (p periodicalEx) Add(id, _ int)       { p.e.Add(p.w.val(id)) }
func (p periodicalEx) Flush()              { p.e.Flush() }
func (p periodicalEx) Wait()               { p.e.Wait() }
func (p periodicalEx) Sync(fn func()) bool { p.e.Sync(fn); return true }

// val is the task value handed to Add for task id: the executors take `any`, so besides
// the plain int there are strings, pointers, structs, values that are not comparable
// (slices, maps) and - at most once per run - nil.
func (w *world) val(id int) any {
	n := w.addCalls
	w.addCalls++
	if n == w.p.nilAt && w.nilID < 0 {
		w.nilID = id
		w.r.Probe("task-value-nil")
		return nil
	}
	shape := 0
	switch w.p.valMode {
	case vmMixed:
		shape = id % 6
	case vmPointer:
		shape = 2
	case vmSlice:
		shape = 4
	}
	switch shape {
	case 1:
		return fmt.Sprintf("t%d", id)
	case 2:
		return &taskBox{id}
	case 3:
		return taskBox{id}
	case 4:
		w.r.Probe("task-value-not-comparable")
		return []int{id}
	case 5:
		w.r.Probe("task-value-not-comparable")
		return map[string]int{"id": id}
	}
	return id
}

// idOf recovers the task id from a value handed to the callback.
func (w *world) idOf(v any) (int, bool) {
	switch x := v.(type) {
	case nil:
		return w.nilID, w.nilID >= 0
	case int:
		return x, true
	case string:
		var id int
		if _, err := fmt.Sscanf(x, "t%d", &id); err == nil && x == fmt.Sprintf("t%d", id) {
			return id, true
		}
	case *taskBox:
		if x != nil {
			return x.id, true
		}
	case taskBox:
		return x.id, true
	case []int:
		if len(x) == 1 {
			return x[0], true
		}
	case map[string]int:
		if id, ok := x["id"]; ok && len(x) == 1 {
			return id, true
		}
	}
	return 0, false
}

// sameVal: is b still the value a (values may be not comparable)?
func (w *world) sameVal(a, b any) bool {
	ia, oka := w.idOf(a)
	ib, okb := w.idOf(b)
	if !oka || !okb {
		return oka == okb && fmt.Sprintf("%T %v", a, a) == fmt.Sprintf("%T %v", b, b)
	}
	return ia == ib && fmt.Sprintf("%T", a) == fmt.Sprintf("%T", b)
}

// opaqueBatch is a batch type the executor knows nothing about.
type opaqueBatch struct{ tasks []any }

// container is the harness' TaskContainer for the PeriodicalExecutor variant.  Like the
// real bulk/chunk containers it is NOT safe for concurrent use: its methods are
// read-modify-write sequences with a scheduling point in the middle, and it reports when
// the executor lets two of them (or one of them and a Sync function) overlap.
type container struct {
	w     *world
	tasks []any
	max   int
	kind  int // bk*
}

func (c *container) enter(what string) {
	w := c.w
	if w.inContainer || w.inSync {
		w.failf("container-overlap", "%s entered while another container operation / Sync function is running (the executor must serialise access to its container)", what)
	}
	w.inContainer = true
}

func (c *container) AddTask(task any) bool {
	c.enter("AddTask")
	cur := c.tasks
	c.w.r.Yield()
	c.tasks = append(cur, task)
	c.w.inContainer = false
	return len(c.tasks) >= c.max
}

// RemoveAll returns the batch in the type drawn for the run: TaskContainer leaves the type
// of a batch to the container (`any`); the executor must hand it to Execute whatever it is.
func (c *container) RemoveAll() any {
	c.enter("RemoveAll")
	cur := c.tasks
	c.w.r.Yield()
	c.tasks = nil
	c.w.inContainer = false
	switch c.kind {
	case bkMap:
		m := make(map[int]any, len(cur))
		for i, v := range cur {
			m[i] = v
		}
		return m
	case bkPointer:
		return &opaqueBatch{cur}
	case bkStruct:
		return opaqueBatch{cur}
	case bkNilWhenEmpty:
		if len(cur) == 0 {
			return nil
		}
	case bkChan:
		ch := make(chan any, len(cur)+1)
		for _, v := range cur {
			ch <- v // cannot block: capacity len+1
		}
		return ch
	}
	return cur
}

func (c *container) Execute(tasks any) {
	var vals []any
	switch x := tasks.(type) {
	case []any:
		vals = x
	case map[int]any:
		for i := 0; i < len(x); i++ {
			v, ok := x[i]
			if !ok {
				c.w.failf("phantom", "Execute received a map batch %v that RemoveAll did not build", x)
			}
			vals = append(vals, v)
		}
	case *opaqueBatch:
		vals = x.tasks
	case opaqueBatch:
		vals = x.tasks
	case chan any:
		for len(x) > 0 {
			vals = append(vals, <-x) // cannot block: only this call receives
		}
	default:
		c.w.failf("phantom", "Execute received a batch of type %T which RemoveAll never returned", tasks)
		return
	}
	if c.kind != bkSlice && len(vals) > 0 {
		c.w.r.Probe("batch-kind-" + bkShort[c.kind] + "-executed")
	}
	c.w.execute(vals)
}

// ---------------------------------------------------------------- workload

func drawThink(t *simrt.Tape, iv time.Duration) time.Duration {
	switch t.Intn(14) {
	case 0, 1:
		return 0
	case 2:
		return time.Duration(t.Range(1, 999)) * iv / 1000
	case 3:
		return iv - time.Nanosecond
	case 4:
		return iv
	case 5:
		return iv + time.Nanosecond
	case 6:
		return time.Duration(t.Range(2, 9)) * iv
	case 7:
		return 10*iv - time.Nanosecond
	case 8:
		return 10 * iv
	case 9:
		return 11 * iv
	case 10:
		return 11*iv + time.Nanosecond
	case 11:
		return time.Duration(t.Range(11, 13))*iv + time.Duration(t.Range(0, 999))*iv/1000
	case 12:
		return 11*iv - time.Nanosecond
	default:
		return time.Duration(t.Range(1, 3)) * iv
	}
}

func drawWork(t *simrt.Tape, iv time.Duration) time.Duration {
	switch t.Intn(8) {
	case 0, 1, 2:
		return 0
	case 3:
		return time.Duration(t.Range(1, 3)) // yields
	case 4:
		return iv / 3
	case 5:
		return iv
	case 6:
		return 2*iv + iv/2
	default:
		return 12 * iv // longer than the idle period
	}
}

func drawPlan(t *simrt.Tape, tier string) *plan {
	p := &plan{panicAt: -1, nilAt: -1, panicSet: map[int]bool{}, reAt: map[int]int{}, panicKinds: []int{pkString}}
	// 0..2: the three executors, 3: sqlx.BulkInserter (a quarter of the runs)
	p.variant = t.Intn(4)
	if p.variant == vInserter {
		drawInserterPlan(t, tier, p)
		return p
	}
	// the last entry: the interval option is not passed (Bulk / Chunk executors)
	ivs := []time.Duration{100 * time.Millisecond, 10 * time.Millisecond, time.Second, 37 * time.Millisecond, 250 * time.Millisecond, 0}
	if p.variant == vPeriodical {
		ivs = ivs[:5]
	}
	if p.interval = ivs[t.Intn(len(ivs))]; p.interval == 0 {
		p.interval, p.defInterval = defaultInterval, true
	}
	iv := p.interval
	sizes := []int{1}
	// the burst may also contain explicit Flush / Wait calls: the size accounting has to start
	// from zero again after each of them
	burstItems := []int{1, 1, 1, 1, burstFlush, burstWait}
	// thresholds: small ones, zero and negative (every Add reaches them), one far beyond the
	// workload, and "option not passed" (package default)
	switch p.variant {
	case vChunk:
		p.threshold = []int{4, 1, 8, 16, 5, 0, -1, 1 << 20, thrDefault}[t.Intn(9)]
		if p.threshold == thrDefault {
			p.threshold, p.defThreshold = defaultBytes, true
		}
		// 0 = empty chunk; 17 and 40 are larger than every small threshold: one oversized task
		// alone reaches it
		sizes = []int{1, 2, 3, 5, 0, 8, 4, 17, 40}
		burstItems = []int{1, 2, 3, 5, 0, 8, 4, 17, 40, burstFlush, burstWait, 1, 2}
		if p.threshold >= 1<<20 && t.Bool() {
			// chunks of the order of the megabyte threshold
			sizes = []int{1 << 18, 1 << 19, 1<<20 - 1, 1 << 20, 0, 1, 1<<20 + 5, 3}
			burstItems = []int{1 << 18, 1 << 19, 1<<20 - 1, 1 << 20, 0, 1, 1<<20 + 5, 3, burstFlush, burstWait, 1 << 19, 1 << 18}
		}
	case vBulk:
		p.threshold = []int{2, 1, 3, 4, 5, 0, -2, 1000, thrDefault}[t.Intn(9)]
		if p.threshold == thrDefault {
			p.threshold, p.defThreshold = defaultTasks, true
		}
	default:
		// 1000: AddTask of the harness container never asks for a flush
		p.threshold = []int{2, 1, 3, 4, 5, 0, 1000}[t.Intn(7)]
	}
	if t.Chance(1, 3) {
		hi := 12
		if p.threshold < 5 {
			hi = 2*p.threshold + 2
		}
		if hi < 2 {
			hi = 2
		}
		n := t.Range(1, hi)
		for i := 0; i < n; i++ {
			p.burst = append(p.burst, burstItems[t.Intn(len(burstItems))])
		}
	}
	maxP, maxOps := 4, 5
	if tier == "thorough" {
		maxP, maxOps = 6, 9
	}
	nProd := t.Range(1, maxP)
	for i := 0; i < nProd; i++ {
		n := t.Range(1, maxOps)
		var ops []op
		for j := 0; j < n; j++ {
			o := op{think: drawThink(t, iv), size: sizes[t.Intn(len(sizes))]}
			switch v := t.Intn(12); {
			case v < 8:
				o.kind = opAdd
			case v < 10:
				o.kind = opFlush
				o.q = t.Chance(1, 3)
			case v < 11:
				o.kind = opWait
			default:
				o.kind = opSync
				if p.variant != vPeriodical {
					o.kind = opAdd
				}
			}
			ops = append(ops, o)
		}
		p.prods = append(p.prods, ops)
	}
	for i, n := 0, t.Range(1, 4); i < n; i++ {
		p.cbWork = append(p.cbWork, drawWork(t, iv))
	}
	if t.Chance(1, 4) {
		p.panicAt = t.Intn(6)
	}
	p.eventual = t.Chance(1, 3)
	if t.Chance(1, 4) {
		p.midWaiter = drawThink(t, iv) + drawThink(t, iv)/2 + 1
	}
	if t.Chance(1, 3) {
		p.sniper = 1 + t.Intn(2)
		p.sniperOff = []time.Duration{0, -time.Nanosecond, time.Nanosecond, -iv, iv}[t.Intn(5)]
		if p.sniper == 2 && p.threshold > 16 {
			p.sniper = 1
		}
	}
	if p.panicAt >= 0 {
		p.panicSet[p.panicAt] = true
	}
	drawFaultIdentities(t, p)
	// constructor options
	p.optsReversed = t.Chance(1, 4)
	// task values
	p.valMode = t.Intn(vmModes)
	if t.Chance(1, 6) {
		p.nilAt = t.Intn(6)
	}
	if p.variant == vPeriodical {
		p.batchKind = t.Intn(bkKinds)
	}
	// re-entrant callbacks
	if t.Chance(1, 4) {
		for i, n := 0, t.Range(1, 2); i < n; i++ {
			k := []int{reAdd, reSync, reAddTwice}[t.Intn(3)]
			if k == reSync && p.variant != vPeriodical {
				k = reAdd
			}
			p.reAt[t.Intn(6)] = k
		}
	}
	// can the whole workload (re-entrant Adds included) reach the threshold?
	total := 0
	for _, it := range p.burst {
		if it > 0 {
			total += it
		}
	}
	for _, ops := range p.prods {
		for _, o := range ops {
			if o.kind == opAdd {
				total += o.size
			}
		}
	}
	if p.variant == vBulk && p.threshold == defaultTasks && t.Chance(1, 20) {
		p.prefill = defaultTasks - t.Intn(3)
		p.burst = nil
	}
	switch p.sniper {
	case 1:
		total++
	case 2:
		total += max(p.threshold, 1) // `threshold` Adds aimed at the quit tick
	}
	total += 2*len(p.reAt) + p.prefill
	p.unreachable = p.threshold > total
	return p
}

// drawFaultIdentities: more panicking invocations (also consecutive ones) and the identity
// of the values the callbacks panic with.
func drawFaultIdentities(t *simrt.Tape, p *plan) {
	if p.panicAt < 0 {
		return
	}
	if t.Chance(1, 3) {
		for i, n := 0, t.Range(1, 3); i < n; i++ {
			if t.Bool() {
				p.panicSet[p.panicAt+1+i] = true // consecutive invocations
			} else {
				p.panicSet[t.Intn(10)] = true
			}
		}
	}
	p.panicKinds = []int{t.Intn(pkKinds)}
	if t.Chance(1, 3) {
		p.panicKinds = append(p.panicKinds, t.Intn(pkKinds))
	}
}

func (p *plan) fmtOptions() string {
	if p.variant != vBulk && p.variant != vChunk {
		return "n/a"
	}
	size := fmt.Sprintf("size=%d", p.threshold)
	if p.defThreshold {
		size = "size not passed"
	}
	ivl := fmt.Sprintf("interval=%v", p.interval)
	if p.defInterval {
		ivl = "interval not passed"
	}
	if p.optsReversed {
		return ivl + ", " + size
	}
	return size + ", " + ivl
}

func (p *plan) fmtPanicKinds() string {
	var out []string
	for _, k := range p.panicKinds {
		out = append(out, pkNames[k])
	}
	return strings.Join(out, " / ")
}

func (p *plan) fmtReentrant() string {
	var out []string
	for _, inv := range keysOf(p.reAt) {
		out = append(out, fmt.Sprintf("#%d:%s", inv, []string{"", "Add", "Sync", "Add+Add"}[p.reAt[inv]]))
	}
	return strings.Join(out, ",")
}

func keysOf(m map[int]int) []int {
	var out []int
	for k := range m {
		out = append(out, k)
	}
	sort.Ints(out)
	return out
}

func fmtWork(ws []time.Duration) string {
	var out []string
	for _, d := range ws {
		if d > 0 && d < time.Microsecond {
			out = append(out, fmt.Sprintf("%d yields", int(d)))
		} else {
			out = append(out, d.String())
		}
	}
	return strings.Join(out, ", ")
}

func fmtOps(p *plan, ops []op) string {
	var sb strings.Builder
	for _, o := range ops {
		fmt.Fprintf(&sb, " +%v %s", o.think, opNames[o.kind])
		if o.kind == opAdd && p.variant == vChunk {
			fmt.Fprintf(&sb, "(%dB)", o.size)
		}
		if o.kind == opUpdateStmt || o.kind == opUpdateStmtBad {
			fmt.Fprintf(&sb, "(S%d)", o.arg)
		}
		if o.q {
			sb.WriteString("+check")
		}
	}
	return strings.TrimSpace(sb.String())
}

func (p *plan) String() string {
	var sb strings.Builder
	fmt.Fprintf(&sb, "%s threshold=%d interval=%v burst=%v cbWork=[%s] panicAt=%d eventual=%v midWaiter=%v sniper=%d%+v", vNames[p.variant], p.threshold, p.interval, p.burst, fmtWork(p.cbWork), p.panicAt, p.eventual, p.midWaiter, p.sniper, p.sniperOff)
	fmt.Fprintf(&sb, " options[%s] panics=%v with %s values=%s nilAt=%d", p.fmtOptions(), keys(p.panicSet), p.fmtPanicKinds(), vmNames[p.valMode], p.nilAt)
	if p.variant == vPeriodical {
		fmt.Fprintf(&sb, " batch=%s", bkNames[p.batchKind])
	}
	if p.prefill > 0 {
		fmt.Fprintf(&sb, " prefill=%d", p.prefill)
	}
	if len(p.reAt) > 0 {
		fmt.Fprintf(&sb, " reentrant=%s (threshold unreachable: %v)", p.fmtReentrant(), p.unreachable)
	}
	if p.ins != nil {
		fmt.Fprintf(&sb, " %s", p.ins)
	}
	for i, ops := range p.prods {
		fmt.Fprintf(&sb, " | P%d: %s", i, fmtOps(p, ops))
	}
	return sb.String()
}

// ---------------------------------------------------------------- callback

// execute is the Execute callback handed to the executor.
func (w *world) execute(vals []any) { w.deliver(vals) }

// deliver records one batch handed to the callback, models the callback's work (virtual
// time, scheduling points, a panic) and checks that the batch slice is not changed under
// the callback's feet while it runs.
func (w *world) deliver(vals []any) *batchRec {
	r := w.r
	snapshot := append([]any(nil), vals...)
	b := &batchRec{id: len(w.batches), start: w.tick(), startAt: r.Elapsed(), byTask: r.CurrentID()}
	w.batches = append(w.batches, b)
	for _, v := range vals {
		id, ok := w.idOf(v)
		if !ok || id < 0 || id >= len(w.tasks) || w.tasks[id].addInv == 0 {
			w.failf("phantom", "callback received %v which was never passed to Add", v)
			continue
		}
		rec := w.tasks[id]
		b.tasks = append(b.tasks, id)
		rec.execs++
		if rec.execs > 1 {
			w.failf("duplicate", "task %d passed to the callback %d times (batch %d after batch %d)", id, rec.execs, b.id, rec.batch.id)
			continue
		}
		rec.batch = b
	}
	if len(vals) == 0 {
		r.Probe("empty-batch-executed")
	}
	r.Ev("exec", int64(b.id), int64(len(b.tasks)))
	if r.Tracing() {
		r.Logf("callback #%d starts with %v on T%d", b.id, b.tasks, b.byTask)
	}
	if !w.harnessTasks[b.byTask] {
		r.Probe("executed-on-background-goroutine")
	}
	inv := w.invocations
	w.invocations++
	// a container with an opaque batch type is executed on every tick, tasks or not: only
	// batches with tasks count as "a callback is running"
	counted := len(vals) > 0
	if counted {
		w.executing++
	}
	defer func() {
		if counted {
			w.executing--
		}
		b.end = w.tick()
		if !w.harnessTasks[b.byTask] {
			w.bgLastAt = r.Elapsed()
		}
		if r.Tracing() {
			r.Logf("callback #%d ends (panic=%v)", b.id, b.panicked)
		}
		// the batch belongs to the callback until it returns: Adds that continue meanwhile
		// must not write into (or truncate) the slice it was given
		same := len(vals) == len(snapshot)
		for i := 0; same && i < len(vals); i++ {
			same = w.sameVal(vals[i], snapshot[i])
		}
		if !same {
			w.failf("batch-aliased", "the batch handed to callback #%d was %v when the callback started and is %v when it returns: the executor reuses the batch's storage for later Adds while the callback still runs", b.id, snapshot, vals)
		}
		if b.end-b.start > 1 && len(vals) > 0 {
			r.Probe("batch-compared-after-other-events")
		}
	}()
	switch d := w.p.cbWork[inv%len(w.p.cbWork)]; {
	case d == 0:
	case d < time.Microsecond:
		for i := 0; i < int(d); i++ {
			r.Yield()
		}
	default:
		r.Sleep(d)
	}
	if k := w.p.reAt[inv]; k != reNone && len(vals) > 0 && w.p.unreachable && w.p.variant != vInserter {
		w.reenter(k)
	}
	if w.p.panicSet[inv] {
		b.panicked = true
		r.Probe("callback-panicked")
		if w.panics > 0 {
			r.Probe("callback-panicked-again")
			if last := w.lastPanicked; last != nil && last.id == b.id-1 {
				r.Probe("callback-panicked-in-consecutive-batches")
			}
		}
		w.lastPanicked = b
		w.raise(fmt.Sprintf("callback-%d", inv))
	}
	return b
}

// raise panics with the next of the run's panic value identities.
func (w *world) raise(where string) {
	kind := w.p.panicKinds[w.panics%len(w.p.panicKinds)]
	w.panics++
	if kind != pkString {
		w.r.Probe("panic-value-" + strings.ReplaceAll(strings.SplitN(pkNames[kind], " (", 2)[0], " ", "-"))
	}
	switch kind {
	case pkError:
		panic(fmt.Errorf("user-panic-error-in-%s", where))
	case pkWrappedError:
		panic(fmt.Errorf("user-panic-in-%s: %w", where, errPanicSentinel))
	case pkRuntimeNilMap:
		var m map[string]int
		m[where] = 1 // runtime error: assignment to entry in nil map
	case pkAbortHandler:
		panic(http.ErrAbortHandler)
	case pkStruct:
		panic(panicBox{w.panics})
	case pkPointer:
		panic(&panicBox{w.panics})
	case pkRuntimeIndex:
		var s []int
		_ = s[w.panics] // runtime error: index out of range
	case pkDeadline:
		panic(context.DeadlineExceeded)
	}
	panic("user-panic-in-" + where)
}

// reenter: the callback calls its own executor (a callback that puts follow-up work back
// into the executor).  Only Add and Sync: Flush and Wait wait for running callbacks by
// design.  Generated only in runs whose whole workload cannot reach the threshold: an Add
// that reaches it waits for the background goroutine to take the batch over, which may be
// the very goroutine that runs this callback.
func (w *world) reenter(kind int) {
	r := w.r
	if !w.harnessTasks[r.CurrentID()] {
		r.Probe("reentrant-call-on-background-goroutine")
	}
	switch kind {
	case reSync:
		r.Probe("reentrant-sync")
		w.sync()
	case reAddTwice:
		r.Probe("reentrant-add")
		w.add(reProd, 1)
		w.add(reProd, 1)
	default:
		r.Probe("reentrant-add")
		w.add(reProd, 1)
	}
}

// ---------------------------------------------------------------- operations

// guard runs one executor call; a callback panic must never reach the caller.
func (w *world) guard(what string, fn func()) {
	defer func() {
		if rec := recover(); rec != nil {
			w.failf("callback-panic-escaped", "%s panicked with %v: a panicking callback must lose only its own batch", what, rec)
		}
	}()
	// calls nest when a callback calls back into the executor
	me := w.r.CurrentID()
	outerOp, nested := w.curOp[me]
	outerInv := w.opInv[me]
	w.curOp[me] = what
	w.opInv[me] = w.clk
	fn()
	if nested {
		w.curOp[me], w.opInv[me] = outerOp, outerInv
	} else {
		delete(w.curOp, me)
	}
}

func (w *world) add(prod, size int) *taskRec {
	r := w.r
	rec := &taskRec{id: len(w.tasks), prod: prod, size: size}
	w.tasks = append(w.tasks, rec)
	rec.addInv = w.tick()
	rec.addInvAt = r.Elapsed()
	r.Ev("add", int64(rec.id))
	w.addsInFlight++
	w.inflight[rec.id] = true
	spawns := w.bgSpawns()
	w.guard("Add", func() { w.ex.Add(rec.id, size) })
	if w.bgSpawns() > spawns {
		w.bgStartAt, w.bgLastAt = rec.addInvAt, rec.addInvAt
	}
	w.addsInFlight--
	delete(w.inflight, rec.id)
	rec.addRet = w.tick()
	r.Ev("added", int64(rec.id))
	return rec
}

func (w *world) flush(check bool) {
	if w.executing > 0 {
		w.r.Probe("flush-while-executing")
	}
	inv := w.tick()
	w.guard("Flush", func() { w.ex.Flush() })
	w.tick()
	if check {
		w.checkFlushed("Flush", inv, "flush-left-pending-tasks")
	}
}

// checkFlushed is the oracle of an explicit flush (Flush; the inserter's UpdateOrDelete and
// UpdateStmt), evaluated by the caller right after the flush: every task whose Add had
// returned before the flushing call was invoked must have been passed to the callback (the
// callback need not have returned: that is only promised by Wait).  A task may legitimately
// be in the hands of another flusher that took it out of the container earlier and has not
// reached the callback yet, which cannot be observed; so the check is made at quiescence
// (every other task has run as far as it can without time passing), only in runs without
// injected stalls, and not while an Add call is in flight (its batch may be waiting for a
// flusher that is busy in a slow callback).
func (w *world) checkFlushed(what string, inv int, class string) {
	r := w.r
	if r.Cfg().StallPerMille > 0 {
		r.Probe("flush-check-skipped-stalls")
		return
	}
	r.Quiesce()
	if r.Failed() {
		return
	}
	if len(w.inflight) > 0 {
		r.Probe("flush-check-skipped-add-in-flight")
		return
	}
	r.Probe("oracle")
	r.Probe("flush-check-evaluated")
	var missed []int
	for _, t := range w.tasks {
		if t.addRet != 0 && t.addRet < inv && t.execs == 0 {
			missed = append(missed, t.id)
		}
	}
	if len(missed) > 0 {
		w.failf(class, "%s invoked at event %d has returned and every task has run as far as it can, but tasks %v whose Add had returned before are still not passed to the callback (no Add call in flight)", what, inv, missed)
	}
}

// wait calls Wait and checks, at the moment it returns, that every task whose Add had
// returned before Wait was invoked has been passed to the callback exactly once and that
// this callback has returned.
func (w *world) wait(who string) (inv int) {
	r := w.r
	inv = w.tick()
	r.Ev("wait", int64(inv))
	if w.executing > 0 {
		r.Probe("wait-while-executing")
	}
	w.guard("Wait", func() { w.ex.Wait() })
	ret := w.tick()
	r.Ev("waited", int64(inv))
	r.Probe("oracle")
	var notStarted, running []int
	covered := 0
	for _, t := range w.tasks {
		if t.addRet == 0 || t.addRet >= inv {
			continue
		}
		covered++
		switch {
		case t.execs == 0:
			notStarted = append(notStarted, t.id)
		case t.batch.end == 0:
			running = append(running, t.id)
		}
	}
	if covered > 0 {
		r.Probe("wait-covered-tasks")
	}
	if len(notStarted) == 0 && len(running) == 0 {
		return inv
	}
	msg := fmt.Sprintf("%s: Wait invoked at event %d returned at event %d although tasks added before it are not done: never passed to the callback %v, callback still running %v; Add calls in flight at that moment: %v", who, inv, ret, notStarted, running, keys(w.inflight))
	if len(w.inflight) > 0 && !w.p.unreachable {
		// scenario classes around the hand-off of a full batch from Add to the background
		// goroutine; told apart in settle() once the batches are known (in a run whose workload
		// cannot reach the threshold there is no hand-off that could explain anything)
		ew := &earlyWait{msg: msg, missed: append(append([]int{}, notStarted...), running...), inflight: map[int]bool{}}
		for id := range w.inflight {
			ew.inflight[id] = true
		}
		w.pending = append(w.pending, ew)
		r.Probe("wait-early-with-add-in-flight")
		return inv
	}
	w.failf("wait-early", "%s", msg)
	return inv
}

func (w *world) sync() {
	r := w.r
	w.guard("Sync", func() {
		w.ex.Sync(func() {
			if w.inContainer || w.inSync {
				w.failf("container-overlap", "Sync function entered while a container operation / another Sync function is running")
			}
			w.inSync = true
			r.Yield()
			r.Yield()
			w.inSync = false
			r.Probe("sync-ran")
		})
	})
}

func (w *world) goTask(name string, fn func()) *simrt.Task {
	t := w.r.Go(name, fn)
	w.harnessTasks[t.ID] = true
	w.spawned++
	return t
}

// joinOps waits for harness tasks; a task that does not come back is stuck inside an
// executor call.
func (w *world) joinOps(d time.Duration, ts ...*simrt.Task) bool {
	if w.r.JoinTimeout(d, ts...) {
		return true
	}
	var stuck []string
	for _, t := range ts {
		if !t.Done() {
			stuck = append(stuck, w.curOp[t.ID])
		}
	}
	sort.Strings(stuck)
	what := "op"
	if len(stuck) > 0 && stuck[0] != "" {
		what = strings.ToLower(stuck[0])
	}
	w.failf(what+"-stuck", "executor call(s) %v did not return within %v of virtual time; alive: %v", stuck, d, w.r.AliveTasks())
	return false
}

func (w *world) bgSpawns() int { return w.r.TaskCount() - 1 - w.spawned }

// reached reports whether the pending tasks (in order) reach the flush threshold.
func (w *world) reached(pending []int) bool {
	if w.p.variant != vChunk {
		return len(pending) >= w.p.threshold
	}
	sum := 0
	for _, id := range pending {
		sum += w.tasks[id].size
	}
	return sum >= w.p.threshold
}

// burst: one sequential client adds tasks back to back before the first timer tick, so the
// only legitimate reasons for an execution are the threshold and the client's own Flush /
// Wait calls (after which the size accounting starts from zero again): exact reference
// model at quiescence.
func (w *world) burst() {
	r, p := w.r, w.p
	var pending []int
	expected := map[int]bool{}
	flushes := 0
	for i, size := range p.burst {
		switch size {
		case burstFlush, burstWait:
			known := len(w.tasks)
			if size == burstFlush {
				w.flush(false)
			} else {
				w.wait("burst")
			}
			for _, id := range pending {
				expected[id] = true
			}
			if len(pending) > 0 {
				r.Probe("burst-flush-with-pending")
			}
			pending = nil
			flushes++
			// tasks that the flushed batch's callback added itself are pending now
			for _, t := range w.tasks[known:] {
				pending = append(pending, t.id)
				r.Probe("burst-reentrant-task-pending")
			}
		default:
			rec := w.add(-1, size)
			pending = append(pending, rec.id)
			if size > p.threshold && p.variant == vChunk && p.threshold > 0 {
				r.Probe("burst-oversized-task")
			}
			if p.threshold <= 0 {
				r.Probe("burst-threshold-not-positive")
			}
			if w.reached(pending) {
				for _, id := range pending {
					expected[id] = true
				}
				pending = nil
				r.Probe("burst-threshold-reached")
				if flushes > 0 {
					r.Probe("burst-threshold-reached-after-flush")
				}
			}
		}
		if r.Cfg().StallPerMille > 0 {
			// with injected stalls "no task runnable" does not mean that the background goroutine has
			// got as far as it can: the exact model is only evaluated in stall-free runs
			r.Probe("burst-unchecked-stalls")
			continue
		}
		r.Quiesce()
		if r.Failed() {
			return
		}
		if r.Elapsed() >= p.interval {
			// a timer tick may have happened (stalled or slow callback): the exact model ends here
			r.Probe("burst-cut-by-time")
			return
		}
		r.Probe("nontrivial")
		for _, t := range w.tasks {
			switch {
			case expected[t.id] && t.execs == 0:
				w.failf("threshold-not-honoured", "after step #%d of the burst %v (sequential, before the first tick) tasks %v reached the threshold %d or were flushed explicitly, but task %d was not passed to the callback at quiescence", i, p.burst, keys(expected), p.threshold, t.id)
				return
			case !expected[t.id] && t.execs > 0 && p.defThreshold:
				// the size option was not passed: what the package default is is not the harness' business
				r.Probe("burst-default-threshold-not-judged")
			case !expected[t.id] && t.execs > 0:
				w.failf("premature-flush", "after step #%d of the burst %v (sequential, before the first tick) task %d was passed to the callback although the threshold %d was not reached since the last flush (pending %v, sizes %v)", i, p.burst, t.id, p.threshold, pending, w.sizesOf(pending))
				return
			}
		}
	}
}

func (w *world) sizesOf(ids []int) []int {
	var out []int
	for _, id := range ids {
		out = append(out, w.tasks[id].size)
	}
	return out
}

func keys(m map[int]bool) []int {
	var out []int
	for k := range m {
		out = append(out, k)
	}
	sort.Ints(out)
	return out
}

func (w *world) unexecuted() (never, running []int) {
	for _, t := range w.tasks {
		switch {
		case t.execs == 0:
			never = append(never, t.id)
		case t.batch.end == 0:
			running = append(running, t.id)
		}
	}
	return
}

const opBudget = 3 * time.Hour

func body(r *simrt.Run, tier string) {
	p := drawPlan(r.Tape, tier)
	w := &world{r: r, p: p, nilID: -1, harnessTasks: map[int]bool{r.CurrentID(): true}, curOp: map[int]string{}, opInv: map[int]int{}, tolerate: map[string]bool{}, capture: map[string]bool{}, inflight: map[int]bool{}}
	for _, c := range strings.Split(os.Getenv("VERIF_C11_TOLERATE"), ",") {
		if c != "" {
			w.tolerate[c] = true
		}
	}
	for _, c := range strings.Split(os.Getenv("VERIF_C11_CAPTURE"), ",") {
		if c != "" {
			w.capture[c] = true
		}
	}
	if r.Tracing() {
		r.Logf("plan: %s", p)
	}
	sample := map[string]any{"executor": vNames[p.variant], "threshold": p.threshold, "interval": p.interval.String(), "burst": fmt.Sprint(p.burst),
		"producers": len(p.prods), "first_producer": fmtOps(p, p.prods[0]), "callback_work": fmtWork(p.cbWork), "panic_at_invocation": p.panicAt,
		"eventual_phase": p.eventual, "adds_aimed_at_quit_tick": p.sniper, "concurrent_waiter_at": p.midWaiter.String(),
		"constructor_options": p.fmtOptions(), "panicking_invocations": fmt.Sprint(keys(p.panicSet)), "panic_values": p.fmtPanicKinds(), "task_values": vmNames[p.valMode], "nil_task_at_add": p.nilAt}
	if p.variant == vPeriodical {
		sample["container_batch_type"] = bkNames[p.batchKind]
	}
	if len(p.reAt) > 0 && p.unreachable {
		sample["reentrant_callbacks"] = p.fmtReentrant()
	}
	if p.ins != nil {
		sample["inserter"] = p.ins.String()
	}
	r.Sample(sample)
	r.Probe("variant-" + vNames[p.variant][:4])

	// whatever happens, the background flusher is not a leak of the harness
	defer r.MarkBackground(func(name string) bool { return strings.Contains(name, bgSite) })
	defer w.settle()

	switch p.variant {
	case vBulk:
		var opts []executors.BulkOption
		if !p.defThreshold {
			opts = append(opts, executors.WithBulkTasks(p.threshold))
		}
		if !p.defInterval {
			opts = append(opts, executors.WithBulkInterval(p.interval))
		}
		if p.optsReversed && len(opts) == 2 {
			opts[0], opts[1] = opts[1], opts[0]
		}
		w.ex = bulkEx{executors.NewBulkExecutor(w.execute, opts...), w}
	case vChunk:
		var opts []executors.ChunkOption
		if !p.defThreshold {
			opts = append(opts, executors.WithChunkBytes(p.threshold))
		}
		if !p.defInterval {
			opts = append(opts, executors.WithFlushInterval(p.interval))
		}
		if p.optsReversed && len(opts) == 2 {
			opts[0], opts[1] = opts[1], opts[0]
		}
		w.ex = chunkEx{executors.NewChunkExecutor(w.execute, opts...), w}
	case vInserter:
		w.bodyInserter()
		return
	default:
		w.ex = periodicalEx{executors.NewPeriodicalExecutor(p.interval, &container{w: w, max: p.threshold, kind: p.batchKind}), w}
	}
	w.dimensionProbes()

	// ---- phase 0' (drawn, rare: ~1000 calls): fill the executor up to its 1000-task threshold
	if p.prefill > 0 {
		r.Probe("bulk-prefill-to-1000")
		pt := w.goTask("prefill", func() {
			for i := 0; i < p.prefill && !r.Failed(); i++ {
				w.add(-1, 1)
			}
		})
		if !w.joinOps(opBudget, pt) || r.Failed() {
			return
		}
	}

	// ---- phase 0: sequential burst with the exact threshold model
	if len(p.burst) > 0 {
		bt := w.goTask("burst", w.burst)
		if !w.joinOps(opBudget, bt) || r.Failed() {
			return
		}
	}

	// ---- phase 1: concurrent producers (+ optionally one more waiter)
	var tasks []*simrt.Task
	for i := range p.prods {
		i := i
		tasks = append(tasks, w.goTask(fmt.Sprintf("producer%d", i), func() {
			for _, o := range p.prods[i] {
				if o.think > 0 {
					r.Sleep(o.think)
				}
				if r.Failed() {
					return
				}
				switch o.kind {
				case opAdd:
					w.add(i, o.size)
				case opFlush:
					w.flush(o.q)
				case opWait:
					w.wait(fmt.Sprintf("producer%d", i))
				case opSync:
					w.sync()
				}
			}
		}))
	}
	if p.midWaiter > 0 {
		tasks = append(tasks, w.goTask("waiter", func() {
			r.Sleep(p.midWaiter)
			w.wait("waiter")
		}))
	}
	if !w.joinOps(opBudget, tasks...) || r.Failed() {
		return
	}
	if w.bgSpawns() >= 2 {
		r.Probe("background-quit-and-restarted")
	}
	w.raceProbes()

	// ---- phase 1b (drawn): Add calls aimed at the tick on which the idle flusher quits
	if !w.sniperPhase() {
		return
	}

	// ---- phase 2 (drawn): no Wait, no Flush - the periodic flush (or the flush of the quitting
	// background goroutine) alone has to get every accepted task to the callback
	if p.eventual && !w.eventualPhase() {
		return
	}

	// ---- phase 3: final Wait; everything must have been executed exactly once and returned
	finalInv := 0
	fw := w.goTask("final-wait", func() { finalInv = w.wait("final-wait") })
	if !w.joinOps(opBudget, fw) || r.Failed() {
		return
	}
	// a task that a callback added to its own executor after the final Wait was invoked (from
	// the batch the Wait itself flushed, or from a slow callback that was still running) is
	// not covered by that Wait: the periodic flush has to deliver it
	late := 0
	for _, t := range w.tasks {
		if t.prod == reProd && (t.addRet == 0 || t.addRet > finalInv) && (t.execs == 0 || t.batch.end == 0) {
			late++
		}
	}
	if late > 0 {
		r.Probe("reentrant-add-after-final-wait")
		if !w.eventualPhase() {
			return
		}
	}
	if !w.exactlyOnce("the final Wait returned") {
		return
	}

	// ---- phase 4: drain past the idle period
	w.drainPhase("the final Wait had returned")
}

// sniperPhase (drawn): Add calls aimed at the timer tick on which the idle background
// goroutine decides to quit (its ticks are at start + k*interval; it quits on the first tick
// later than 10 intervals after its last execution).
func (w *world) sniperPhase() bool {
	r, p := w.r, w.p
	if p.sniper == 0 || len(bgAlive(r)) == 0 {
		return true
	}
	k := (w.bgLastAt+10*p.interval-w.bgStartAt)/p.interval + 1
	at := w.bgStartAt + k*p.interval + p.sniperOff
	st := w.goTask("sniper", func() {
		if d := at - r.Elapsed(); d > 0 {
			r.Sleep(d)
		}
		if len(bgAlive(r)) > 0 {
			r.Probe("add-aimed-at-quit-tick")
		}
		n := 1
		if p.sniper == 2 && p.threshold > 1 {
			n = p.threshold
		}
		for i := 0; i < n; i++ {
			w.add(-2, 1)
		}
	})
	if !w.joinOps(opBudget, st) || r.Failed() {
		return false
	}
	if w.bgSpawns() >= 2 {
		r.Probe("background-quit-and-restarted")
	}
	return true
}

// eventualPhase: no Wait, no Flush - the periodic flush (or the flush of the quitting
// background goroutine) alone has to get every accepted task to the callback.
func (w *world) eventualPhase() bool {
	r, p := w.r, w.p
	r.Probe("eventual-phase")
	// generous: the real executor needs at most two intervals plus the running callbacks
	budget := 200*p.interval + 30*time.Second
	step := 5 * p.interval
	for spent := time.Duration(0); spent < budget; spent += step {
		if never, running := w.unexecuted(); len(never) == 0 && len(running) == 0 {
			break
		}
		if spent >= 30*p.interval {
			step = budget / 8
		}
		r.Sleep(step)
	}
	r.Probe("oracle")
	if never, running := w.unexecuted(); len(never) > 0 || len(running) > 0 {
		w.failf("not-flushed-periodically", "%v after the last Add returned (no Flush/Wait outstanding) tasks are still not done: never passed to the callback %v, callback still running %v; alive: %v", budget, never, running, r.AliveTasks())
		return false
	}
	return true
}

// exactlyOnce: everything accepted has been passed to the callback exactly once.
func (w *world) exactlyOnce(when string) bool {
	r := w.r
	r.Probe("oracle")
	for _, t := range w.tasks {
		switch {
		case t.execs == 0:
			w.failf("lost", "task %d (Add returned at event %d) was never passed to the callback although %s; %d batches, panicked batches %v", t.id, t.addRet, when, len(w.batches), w.panicked())
			return false
		case t.execs != 1:
			w.failf("duplicate", "task %d passed to the callback %d times", t.id, t.execs)
			return false
		}
	}
	total := 0
	for _, b := range w.batches {
		total += len(b.tasks)
		if b.panicked {
			// later batches still ran?
			for _, b2 := range w.batches[b.id+1:] {
				if len(b2.tasks) > 0 {
					r.Probe("batch-executed-after-a-panicked-one")
					break
				}
			}
		}
	}
	if total != len(w.tasks) {
		w.failf("multiset", "%d tasks added, %d task deliveries to the callback", len(w.tasks), total)
		return false
	}
	return true
}

// drainPhase: past the idle period nothing may execute any more (every delivery now would
// be a duplicate or a phantom and is caught in the callback), no callback may be running,
// and the calls must all have returned.
func (w *world) drainPhase(after string) bool {
	r, p := w.r, w.p
	nb := len(w.batches)
	r.Sleep(14*p.interval + time.Second)
	r.Quiesce()
	for _, b := range w.batches[nb:] {
		if len(b.tasks) > 0 {
			w.failf("late-execution", "batch %d %v executed after %s and nothing was added", b.id, b.tasks, after)
			return false
		}
	}
	if w.executing > 0 {
		w.failf("late-execution", "%d callbacks still running long after %s", w.executing, after)
		return false
	}
	if len(bgAlive(r)) == 0 {
		r.Probe("background-quit-at-end")
	}
	return !r.Failed()
}

func bgAlive(r *simrt.Run) []string {
	var out []string
	for _, t := range r.AliveTasks() {
		if strings.Contains(t, bgSite) {
			out = append(out, t)
		}
	}
	return out
}

func (w *world) panicked() []int {
	var out []int
	for _, b := range w.batches {
		if b.panicked {
			out = append(out, b.id)
		}
	}
	return out
}

// dimensionProbes counts the drawn dimensions of the run (executor variants).
func (w *world) dimensionProbes() {
	r, p := w.r, w.p
	if p.defThreshold {
		r.Probe("option-size-not-passed")
	}
	if p.defInterval {
		r.Probe("option-interval-not-passed")
	}
	if p.defThreshold && p.defInterval {
		r.Probe("constructor-without-options")
	}
	if p.optsReversed && !p.defThreshold && !p.defInterval && p.variant != vPeriodical {
		r.Probe("options-interval-first")
	}
	if p.threshold <= 0 {
		r.Probe("threshold-not-positive")
	}
	if p.threshold >= 1000 {
		r.Probe("threshold-beyond-workload")
	}
	if p.valMode != vmInt {
		r.Probe("task-values-not-int")
	}
	if p.variant == vPeriodical && p.batchKind != bkSlice {
		r.Probe("batch-kind-" + bkShort[p.batchKind])
	}
	if len(p.panicSet) > 1 {
		r.Probe("several-panicking-invocations-drawn")
	}
}

// raceProbes counts boundary situations that were actually generated.
func (w *world) raceProbes() {
	r := w.r
	tickAdd := false
	for _, b := range w.batches {
		if w.harnessTasks[b.byTask] || w.reached(b.tasks) {
			continue // only executions started by a tick (or by the quitting flusher)
		}
		for _, t := range w.tasks {
			if t.addInvAt == b.startAt && b.startAt > 0 {
				tickAdd = true
			}
		}
	}
	if tickAdd {
		r.Probe("tick-and-add-raced")
	}
}

func TestSim(t *testing.T) {
	simharness.Main(t, &simharness.Spec{ID: "C11", Body: body, StuckIsViolation: true, CrashIsViolation: true})
}
