package c06

import (
	"context"
	"errors"
	"time"
)

// Request contexts.  Every operation that has a Ctx form (ExecCtx, DelCacheCtx, QueryRowCtx,
// QueryRowIndexCtx, GetCacheCtx, SetCacheCtx, SetCacheWithExpireCtx and the Cache value's TakeCtx,
// TakeWithExpireCtx, GetCtx, SetCtx, SetWithExpireCtx, DelCtx) may be given a context that ends at a
// tape-drawn point: before the call, while the database closure runs, at some instant after the
// invocation (wherever that lands: store round trip, retry back-off, database work), or only after
// the call returned.  Mode 0 is the plain API (go-zero hands context.Background() down).
//
// What the property says about a call whose context ended: nothing that would excuse incoherence.
// The call itself may return an error (any error: the text does not name one), but
//   - a value that is returned is still what the database holds,
//   - a database write that took effect through Exec is an invalidation: a DEL that did not reach
//     the store because the context was gone is a failed DEL like any other (stale only until the
//     cleaner's retry deadline),
//   - nothing wrong is left in the store (errors are not cached, no stale entry is written).

type ctxMode int

const (
	cNone           ctxMode = iota // plain API
	cLive                          // Ctx API, the context is cancelled after the call returned
	cCancelBefore                  // cancelled before the call
	cDeadlineBefore                // deadline already passed before the call
	cCancelInDB                    // the database closure does its work, cancels the context and returns successfully
	cDeadlineInDB                  // the database closure does its work, the deadline passes, the closure returns successfully
	cTimeout                       // deadline d after the invocation
	cCancelAt                      // another task cancels d after the invocation
)

var ctxModeNames = [...]string{"", "live", "cancelled-before", "deadline-before", "cancelled-in-db", "deadline-in-db", "timeout", "cancelled-at"}

type ctxPlan struct {
	mode ctxMode
	d    time.Duration
	// the database stand-in behaves like a driver that honours the context: a statement that is
	// about to start, or has not finished its work, when the context is done fails with the
	// context's error and has no effect
	honour bool

	// runtime
	ctx         context.Context
	cancel      context.CancelFunc
	opened      bool
	closed      bool
	early       bool // the canceller came before the invocation
	dbDone      bool
	cancelledAt time.Time
	deadAt      time.Time // instant from which the context was done while the call was running (zero: alive until it returned)
	byDeadline  bool
}

func (p *ctxPlan) String() string {
	if p.mode == cNone {
		return ""
	}
	s := "ctx=" + ctxModeNames[p.mode]
	if p.d > 0 {
		s += ":" + p.d.String()
	}
	if p.honour {
		s += ":db-honours"
	}
	return s
}

// died: the context was done before the call returned.
func (p *ctxPlan) died() bool { return !p.deadAt.IsZero() }

func (w *world) drawCtx(hasDB bool, qLat time.Duration) ctxPlan {
	var p ctxPlan
	if !w.ctxy {
		return p
	}
	t := w.t
	k := t.Intn(14)
	if k < 5 {
		return p
	}
	switch k {
	case 5:
		p.mode = cLive
	case 6:
		p.mode = cCancelBefore
	case 7:
		p.mode = cDeadlineBefore
	case 8, 9:
		p.mode = cCancelInDB
	case 10, 11:
		p.mode = cDeadlineInDB
	case 12:
		p.mode = cTimeout
	default:
		p.mode = cCancelAt
	}
	if !hasDB {
		switch p.mode {
		case cCancelInDB:
			p.mode = cCancelAt
		case cDeadlineInDB:
			p.mode = cTimeout
		}
	}
	p.honour = t.Chance(1, 3)
	ms := time.Millisecond
	switch p.mode {
	case cDeadlineInDB:
		// long enough that the closure normally is still at work when it comes
		p.d = qLat + time.Duration(t.Range(20, 500))*ms
	case cTimeout, cCancelAt:
		switch t.Intn(4) {
		case 0:
			p.d = time.Duration(t.Range(0, 5)) * ms
		case 1:
			p.d = qLat + time.Duration(t.Range(-20, 20))*ms
		case 2:
			p.d = time.Duration(t.Range(1, 400)) * ms
		default:
			p.d = time.Duration(t.Range(400, 4000)) * ms
		}
		if p.d <= 0 {
			p.d = time.Microsecond
		}
	}
	return p
}

// open builds the context at the invocation; nil = use the plain API.
func (p *ctxPlan) open(w *world) context.Context {
	if p.mode == cNone {
		return nil
	}
	p.opened = true
	switch p.mode {
	case cDeadlineBefore:
		p.ctx, p.cancel = context.WithDeadline(context.Background(), time.Now().Add(-time.Millisecond))
	case cDeadlineInDB, cTimeout:
		p.ctx, p.cancel = context.WithTimeout(context.Background(), p.d)
	default:
		p.ctx, p.cancel = context.WithCancel(context.Background())
	}
	if p.mode == cCancelBefore || p.early {
		p.kill()
	}
	w.r.Probe("ctx-" + ctxModeNames[p.mode])
	return p.ctx
}

func (p *ctxPlan) kill() {
	if p.ctx.Err() == nil {
		p.cancelledAt = time.Now()
	}
	p.cancel()
}

// aborts: the database stand-in refuses to work for a context that is done.
func (p *ctxPlan) aborts(ctx context.Context) error {
	if ctx == nil {
		ctx = p.ctx
	}
	if !p.honour || ctx == nil {
		return nil
	}
	return ctx.Err()
}

// inDB is called by the database closures when their work is done (the write took effect, the row
// was read), before they return.
func (p *ctxPlan) inDB(w *world) {
	if p.ctx == nil || p.dbDone {
		return
	}
	switch p.mode {
	case cCancelInDB:
		p.dbDone = true
		if p.ctx.Err() == nil {
			w.r.Probe("ctx-ended-while-db-closure-ran")
		}
		p.kill()
	case cDeadlineInDB:
		p.dbDone = true
		if dl, ok := p.ctx.Deadline(); ok {
			if d := time.Until(dl); d >= 0 {
				w.r.Probe("ctx-ended-while-db-closure-ran")
				w.r.Sleep(d + time.Microsecond)
			}
		}
	}
}

// close is called when the call returned.
func (p *ctxPlan) close() {
	if p.ctx == nil {
		return
	}
	p.closed = true
	if err := p.ctx.Err(); err != nil {
		if !p.cancelledAt.IsZero() {
			p.deadAt = p.cancelledAt
		} else {
			p.deadAt, _ = p.ctx.Deadline()
			if p.deadAt.IsZero() {
				p.deadAt = time.Now()
			}
			p.byDeadline = true
		}
	}
	p.cancel()
}

// canceller is the body of the task that ends a cCancelAt context.
func (p *ctxPlan) canceller(w *world, think time.Duration) func() {
	return func() {
		w.r.Sleep(think + p.d)
		switch {
		case p.closed:
		case !p.opened:
			p.early = true
		default:
			p.kill()
		}
	}
}

func isCtxErr(err error) bool {
	return errors.Is(err, context.Canceled) || errors.Is(err, context.DeadlineExceeded)
}

// plans: the contexts of the step's calls.
func (st *step) plans() []*ctxPlan {
	if st.kind != kRead {
		return []*ctxPlan{&st.cx}
	}
	var ps []*ctxPlan
	for _, c := range st.readers {
		ps = append(ps, &c.cx)
	}
	return ps
}

// ctxDied: the context of one of the step's calls ended while the call was running.  From then on
// that call's store commands are not sent, whatever the state of the store: for everything that
// reasons from "nothing disturbed the step" the step counts as disturbed.
func (st *step) ctxDied() bool {
	for _, p := range st.plans() {
		if p.died() {
			return true
		}
	}
	return false
}

// ctxErrPossible: the context error returned by c can be put down to a context that ended - its
// own, or (concurrent readers of a key share the flight leader's result, errors included) that
// of a call which overlapped it.
func (w *world) ctxErrPossible(st *step, c *call) bool {
	for _, d := range st.readers {
		if d.cx.died() && !d.cx.deadAt.After(c.tret) && !d.tinv.After(c.tret) && !d.tret.Before(c.tinv) {
			return true
		}
	}
	return false
}

// noteCtxFaults: a command given up because the deadline passed counts as a failure for go-zero's
// redis breaker (context.Canceled does not); at most one command per call and node fails that way.
func (w *world) noteCtxFaults(st *step) {
	note := func(keys ...string) {
		seen := map[*node]bool{}
		for _, k := range keys {
			if n := w.ownerOf(k); !seen[n] {
				seen[n] = true
				w.noteFault(n)
			}
		}
	}
	if st.kind == kRead {
		for _, c := range st.readers {
			if c.cx.died() && c.cx.byDeadline {
				if c.kind == rIndex {
					note(st.ent.pkey, st.ent.ikey)
				} else {
					note(st.ent.pkey)
				}
			}
		}
		return
	}
	if st.cx.died() && st.cx.byDeadline {
		var keys []string
		for _, e := range st.ents() {
			keys = append(keys, e.keys()...)
		}
		note(keys...)
	}
}
