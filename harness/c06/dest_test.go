package c06

import (
	"encoding/json"
	"fmt"
)

// The 'typed' member: the Go type of the destination object a reader hands in.
//
// Every read entry point takes its destination as `any`: the loader closure fills it, the cache
// encodes it (JSON) for the store and for the callers that share the load, and every other caller
// decodes that into ITS destination.  Nothing says that all readers of a key use one Go type: a
// second model struct over the same table, a generic map[string]any, an untyped `any`.  All of
// them can hold the whole row (every member of the row is present in every encoding), so the
// statement's clauses do not depend on the type: one database query at a time per key whatever the
// readers' destination types are, every reader receives the result of an attributable query (or the
// cached row), entries are served while cached.
//
// Types: *row (draw 0, what the harness always used), *rowAlt (a second struct: the same members
// declared in another order plus a member the table does not have, never set and omitted when
// empty), *map[string]any, *any; and *rowLite (three of the members), for GetCache only - a
// destination that cannot hold the whole row never loads (a loader caches what ITS destination
// encodes to, which would be a partial row for everybody else; outside the premise).
//
// The value a reader received is judged through a projection onto the row type: structs member by
// member; a map / untyped value by decoding its JSON form into a row, and it must have exactly the
// row's members (compared in a canonical generic form that keeps every digit).  monc: struct types
// only (the Mongo driver decodes a document into an untyped map with its own value types).

type destType int

const (
	dRow destType = iota
	dAlt
	dMap
	dAny
	dLite
)

var destNames = [...]string{"row", "rowAlt", "map", "any", "rowLite"}

// destDraw: the weights of the loading destination types (0: the old one).
var destDraw = []destType{dRow, dAlt, dMap, dAny, dRow, dMap, dAlt, dAny}

type rowAlt struct {
	Any   any      `json:"any"`
	Empty struct{} `json:"empty"`
	Nest  *nested  `json:"nest"`
	Ptr   *int64   `json:"ptr"`
	Text  string   `json:"text"`
	Extra string   `json:"extra,omitempty" bson:"extra,omitempty"` // not a column of the table: never set
	F     float64  `json:"f"`
	U     uint64   `json:"u"`
	Big   int64    `json:"big"`
	Ver   int      `json:"ver"`
	Name  string   `json:"name"`
	ID    any      `json:"id"`
}

type rowLite struct {
	Ver  int    `json:"ver"`
	ID   any    `json:"id"`
	Name string `json:"name"`
}

// altOf / rowOf copy member by member (pointers and untyped values are shared, not copied).
func altOf(r row) rowAlt {
	return rowAlt{ID: r.ID, Name: r.Name, Ver: r.Ver, Big: r.Big, U: r.U, F: r.F, Text: r.Text, Ptr: r.Ptr, Nest: r.Nest, Empty: r.Empty, Any: r.Any}
}

func (a rowAlt) rowOf() row {
	return row{ID: a.ID, Name: a.Name, Ver: a.Ver, Big: a.Big, U: a.U, F: a.F, Text: a.Text, Ptr: a.Ptr, Nest: a.Nest, Empty: a.Empty, Any: a.Any}
}

// liteOf: the members a rowLite has.
func liteOf(r row) row { return row{ID: r.ID, Name: r.Name, Ver: r.Ver} }

// same: the row a call received against a row of the database, through the call's destination type.
func (c *call) same(got, want row) bool {
	if c.dt == dLite {
		return sameRow(liteOf(got), liteOf(want))
	}
	return sameRow(got, want)
}

func newDest(dt destType) any {
	switch dt {
	case dAlt:
		return new(rowAlt)
	case dMap:
		return new(map[string]any)
	case dAny:
		return new(any)
	case dLite:
		return new(rowLite)
	}
	return new(row)
}

// resetDest: the zero value of the destination's type.
func resetDest(v any) {
	switch p := v.(type) {
	case *row:
		*p = row{}
	case *rowAlt:
		*p = rowAlt{}
	case *map[string]any:
		*p = nil
	case *any:
		*p = nil
	case *rowLite:
		*p = rowLite{}
	}
}

// generic: a value as its JSON form decoded into untyped values (objects as maps, numbers with
// their digits).
func generic(x any) (any, error) {
	b, err := json.Marshal(x)
	if err != nil {
		return nil, err
	}
	var g any
	if err := decodeNumbers(string(b), &g); err != nil {
		return nil, err
	}
	return g, nil
}

// fillDest is what the database closure does with the destination it is handed: the whole row, in
// the destination's own type.  false: not a destination of the harness.
func fillDest(v any, r row) bool {
	switch p := v.(type) {
	case *row:
		*p = r
	case *rowAlt:
		*p = altOf(r)
	case *map[string]any:
		g, err := generic(r)
		m, ok := g.(map[string]any)
		if err != nil || !ok {
			return false
		}
		*p = m
	case *any:
		g, err := generic(r)
		if err != nil {
			return false
		}
		*p = g
	default:
		return false // (a rowLite never loads)
	}
	return true
}

// projectDest: what the destination holds, as a row (a deep copy).  shape != "": the destination
// holds something that is not a row at all (members missing, members nobody stored, values of
// another kind).
func projectDest(v any) (r row, shape string) {
	switch p := v.(type) {
	case *row:
		return cloneRow(*p), ""
	case *rowAlt:
		if p.Extra != "" {
			shape = fmt.Sprintf("member 'extra', which no row has, holds %q", p.Extra)
		}
		return cloneRow(p.rowOf()), shape
	case *rowLite:
		return cloneRow(row{ID: p.ID, Name: p.Name, Ver: p.Ver}), ""
	case *map[string]any:
		return projectGeneric(*p)
	case *any:
		return projectGeneric(*p)
	}
	return r, fmt.Sprintf("unknown destination %T", v)
}

func projectGeneric(x any) (r row, shape string) {
	if x == nil {
		return r, "" // nothing was decoded (judged only when the call returned a row: the zero row then)
	}
	b, err := json.Marshal(x)
	if err != nil {
		return r, "cannot be encoded: " + err.Error()
	}
	if err := decodeNumbers(string(b), &r); err != nil {
		return row{}, fmt.Sprintf("%s is not a row: %v", short(string(b)), err)
	}
	have, _ := generic(x)
	want, _ := generic(r)
	if h, w := canon(have), canon(want); h != w {
		return r, fmt.Sprintf("%s has not exactly the members of a row (%s)", short(h), short(w))
	}
	return r, ""
}

// cloneDest: a deep copy of what the destination points to (a value, for reflect.DeepEqual with derefDest).
func cloneDest(v any) any {
	switch p := v.(type) {
	case *row:
		return cloneRow(*p)
	case *rowAlt:
		c := altOf(cloneRow(p.rowOf()))
		c.Extra = p.Extra
		return c
	case *rowLite:
		return rowLite{ID: cloneAny(p.ID), Name: p.Name, Ver: p.Ver}
	case *map[string]any:
		if *p == nil {
			return map[string]any(nil)
		}
		return cloneAny(*p)
	case *any:
		return cloneAny(*p)
	}
	return nil
}

func derefDest(v any) any {
	switch p := v.(type) {
	case *row:
		return *p
	case *rowAlt:
		return *p
	case *rowLite:
		return *p
	case *map[string]any:
		return *p
	case *any:
		return *p
	}
	return nil
}

// drawDest: the destination type of a read (the typed member only; draw 0 = *row).
func (w *world) drawDest(c *call) {
	if !w.typed {
		return
	}
	switch {
	case c.kind == rGet && !w.monc:
		c.dt = []destType{dRow, dLite, dAlt, dMap, dAny, dLite}[w.t.Intn(6)]
	case w.monc:
		c.dt = []destType{dRow, dAlt}[w.t.Intn(2)]
	default:
		c.dt = destDraw[w.t.Intn(len(destDraw))]
	}
	w.settleDest(c)
}

// settleDest: what a caller does with an object depends on its type.  Decoding JSON onto a map that
// holds something merges (Go's decoder keeps the entries the document does not name), so a map / an
// untyped destination is never handed in pre-filled and its caller does not write to it: it then
// holds nothing, or a whole row whose every member the next decode replaces.
func (w *world) settleDest(c *call) {
	if c.dt == dMap || c.dt == dAny || c.dt == dLite {
		c.edit, c.editWait, c.prefill = 0, 0, false
	}
}
