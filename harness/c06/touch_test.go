package c06

import (
	"fmt"
	"reflect"
	"time"
)

// The 'touchy' member: what callers do with the destination objects of their reads.
//
// A read (Take / TakeWithExpire / QueryRow / QueryRowIndex / GetCache / FindOne) fills an object
// that belongs to the caller.  Once the call returned the object is the caller's again: it may
// write to it (redact a field, edit nested values in place), hand the same object to its next read
// - of the same key or of another row, as it is or reset -, or hand in an object that already
// holds something.  None of that is anybody else's business: every other caller still receives
// exactly the row a database query attributable to its own call produced (or the cached row).
//
// Oracle.  (1) The value oracle is the one of checkRead, unchanged; what a caller received is
// recorded as a deep copy at the instant its call returns, before its own edits.  Every field of
// the row type is always present in the encoded row (no omitempty), so decoding a row onto an
// object that holds something else gives exactly that row - whatever path filled the object (own
// query, cache hit, shared flight): a re-used or pre-filled destination must equal the row like a
// fresh one.  (2) An object a caller received is written by nobody but that caller: at the end of
// the batch (and before the caller re-uses it) it still is what the caller received plus the
// caller's own edits.

const (
	editScalars   = 1 // redaction: name, text and numbers overwritten
	editInPlace   = 2 // values behind pointers / inside the untyped document written in place
	editStructure = 4 // pointers dropped or replaced, the untyped field replaced, key fields overwritten
)

// tracked is one destination object after the last read that filled it.
type tracked struct {
	obj  any // the destination object (a pointer)
	want any // deep copy of what it points to: what the caller received, plus its own edits
	c    *call
}

func cloneAny(x any) any {
	switch v := x.(type) {
	case map[string]any:
		if v == nil {
			return v
		}
		m := make(map[string]any, len(v))
		for k, e := range v {
			m[k] = cloneAny(e)
		}
		return m
	case []any:
		if v == nil {
			return v
		}
		l := make([]any, len(v))
		for i, e := range v {
			l[i] = cloneAny(e)
		}
		return l
	}
	return x
}

func cloneNested(n *nested) *nested {
	if n == nil {
		return nil
	}
	c := *n
	c.Sub = cloneNested(n.Sub)
	return &c
}

// cloneRow: a copy that shares nothing writable with r.
func cloneRow(r row) row {
	c := r
	if r.Ptr != nil {
		p := *r.Ptr
		c.Ptr = &p
	}
	c.Nest = cloneNested(r.Nest)
	c.ID = cloneAny(r.ID)
	c.Any = cloneAny(r.Any)
	return c
}

// prefillRow: what a destination that is not zero holds: a row nobody ever stored, every field set.
func prefillRow() row {
	p := int64(4242)
	return row{ID: "prefilled", Name: "prefilled name", Ver: -2, Big: 4242, U: 4242, F: 42.5, Text: "prefilled text", Ptr: &p,
		Nest: &nested{N: 1, F: 2, Sub: &nested{N: 3, F: 4, Sub: &nested{N: 5}}},
		Any:  map[string]any{"prefilled": int64(1), "n": "prefilled", "list": []any{int64(1), "two"}}}
}

func (c *call) touchPrefix() string {
	if !c.chained {
		return ""
	}
	return "then:"
}

func (c *call) touchSuffix() string {
	s := ""
	switch c.reuse {
	case 1:
		s += "+same-object"
	case 2:
		s += "+same-object-reset"
	}
	if c.prefill {
		s += "+prefilled"
	}
	if c.edit != 0 {
		s += fmt.Sprintf("+edit%d", c.edit)
		if c.editWait > 0 {
			s += fmt.Sprintf("/wait%d", c.editWait)
		}
	}
	if c.next != nil && c.nextSt != nil {
		s += fmt.Sprintf("+next-on-row%d", c.nextSt.ent.idx)
	}
	return s
}

// drawTouch: what the caller does to the object of this read.
func (w *world) drawTouch(c *call) {
	t := w.t
	if t.Chance(1, 2) {
		c.edit = t.Range(1, 7)
		c.editWait = t.Intn(3)
	}
	if c.reuse == 0 && t.Chance(1, 4) {
		c.prefill = true
	}
	w.settleDest(c)
}

// followDest: the type of the destination of a caller's next read: the object it re-uses has the type
// it has; a fresh object is of any type.
func (w *world) followDest(prev, n *call) {
	if !w.typed {
		return
	}
	if n.reuse != 0 {
		n.dt = prev.dt
		if n.dt == dLite && n.kind != rGet {
			n.reuse = 0 // (a rowLite cannot hold what a loading read returns)
		}
	}
	if n.reuse == 0 {
		w.drawDest(n)
	}
	w.settleDest(n)
}

// newFollower: the next read of a caller.
func (w *world) newFollower(qLat time.Duration) *call {
	t := w.t
	n := &call{chained: true}
	if w.monc {
		if t.Chance(1, 6) {
			n.kind = rGet
		}
	} else {
		n.kind = []readKind{rPrimary, rTake, rIndex, rPrimary, rTake, rGet}[t.Intn(6)]
		if n.kind == rTake && w.cache != nil {
			n.withExp = t.Chance(1, 3)
		}
	}
	n.reuse = []int{0, 1, 1, 2}[t.Intn(4)]
	if t.Chance(1, 3) {
		n.think = time.Duration(t.Range(1, 60)) * time.Millisecond
	}
	if !(w.monc && n.kind == rGet) { // monc.Model.GetCache takes no context
		n.cx = w.drawCtx(n.kind != rGet, qLat)
		if n.cx.mode == cCancelAt {
			n.cx.mode = cTimeout // relative to the invocation, whenever that is
		}
	}
	w.drawTouch(n)
	return n
}

// touch draws, for the read steps of a batch that is about to run, what the callers do with their
// destination objects, and their next reads: of the same key (a further call of the same step) or
// of a row no step of the batch works on (a read step of its own, run along with the batch; it may
// have callers of its own, so that the follower finds a flight under way or leads one).
func (w *world) touch(sts []*step) []*step {
	t := w.t
	busy := map[*entity]bool{}
	for _, st := range sts {
		for _, e := range st.ents() {
			busy[e] = true
		}
	}
	var free []*entity
	for _, e := range w.ents {
		if !busy[e] {
			free = append(free, e)
		}
	}
	follow := map[*entity]*step{}
	var extra []*step
	for _, st := range sts {
		if st.kind != kRead {
			continue
		}
		for _, c := range st.readers[:len(st.readers):len(st.readers)] {
			w.drawTouch(c)
			cur, curSt := c, st
			for depth := 0; depth < 2; depth++ {
				k := t.Intn(6) // 0-2 no further read, 3 the same key again, 4-5 another row
				if k < 3 {
					break
				}
				n := w.newFollower(curSt.qLat)
				target := curSt
				if k >= 4 && len(free) > 0 {
					e := free[t.Intn(len(free))]
					fs := follow[e]
					if fs == nil {
						fs = w.genFollowStep(e, curSt.qLat)
						follow[e] = fs
						extra = append(extra, fs)
					}
					target = fs
					w.r.Probe("next-read-of-another-row")
				} else {
					w.r.Probe("next-read-of-the-same-key")
				}
				target.readers = append(target.readers, n)
				cur.next, cur.nextSt = n, target
				w.followDest(cur, n)
				cur, curSt = n, target
			}
		}
	}
	return append(sts, extra...)
}

// genFollowStep: a read step on a row that is otherwise idle, for the next reads of callers of the
// batch; 0-2 callers of its own arrive around the time the followers do.
func (w *world) genFollowStep(e *entity, lat time.Duration) *step {
	t := w.t
	fs := &step{kind: kRead, ent: e, follow: true, qLat: w.drawLat(), qYields: t.Intn(3), direct: t.Bool()}
	for i, n := 0, []int{0, 0, 1, 2}[t.Intn(4)]; i < n; i++ {
		c := &call{kind: readKind(t.Intn(3))}
		if c.kind == rTake && w.cache != nil {
			c.withExp = t.Chance(1, 3)
		}
		if t.Bool() {
			c.think = lat + time.Duration(t.Range(0, 40))*time.Millisecond
		}
		fs.readers = append(fs.readers, c)
	}
	if w.monc {
		w.monAdapt(fs)
	}
	for _, c := range fs.readers {
		c.cx = w.drawCtx(true, fs.qLat)
		w.drawTouch(c)
		w.drawDest(c)
	}
	if t.Chance(1, 6) {
		fs.errLeft[qPrimary] = t.Range(1, 2)
	}
	if t.Chance(1, 6) {
		fs.errLeft[qIndex] = t.Range(1, 2)
	}
	return fs
}

// readChain is the body of a reader task: the call, what the caller does to the object afterwards,
// its next read.
func (w *world) readChain(st *step, c *call) {
	var obj any
	var tr *tracked
	for first := true; c != nil; first = false {
		if !first && c.think > 0 {
			w.r.Sleep(c.think)
		}
		switch {
		case obj == nil || c.reuse == 0:
			obj, tr = newDest(c.dt), nil
		default:
			// the caller's own object: as the caller left it
			w.checkObject(tr)
			if c.reuse == 2 {
				resetDest(obj)
				w.r.Probe("destination-reused-after-reset")
			} else {
				w.r.Probe("destination-reused-as-it-is")
			}
		}
		if c.prefill {
			switch p := obj.(type) {
			case *row:
				*p = prefillRow()
			case *rowAlt:
				*p = altOf(prefillRow())
			}
			w.r.Probe("destination-prefilled")
		}
		if c.dt != dRow {
			w.r.Probe("dest-type-" + destNames[c.dt])
		}
		ent := st.ent
		c.inv, c.tinv = w.tick(), time.Now()
		w.r.Ev("invoke", int64(c.id), int64(c.kind), int64(ent.idx))
		w.doRead(st, c, obj)
		c.ret, c.tret, c.returned = w.tick(), time.Now(), true
		w.r.Ev("return", int64(c.id), int64(c.out), int64(c.got.Ver))
		if debugOps {
			w.ops = append(w.ops, fmt.Sprintf("    return call %d err=%v seq=%d tape=%d t=%v", c.id, c.err, w.r.Seq(), w.t.Pos(), w.r.Elapsed()))
		}
		if w.touchy && !w.audit {
			if tr == nil {
				tr = &tracked{obj: obj}
				w.objs = append(w.objs, tr)
			}
			tr.c, tr.want = c, cloneDest(obj)
			if c.edit != 0 {
				switch c.editWait {
				case 1:
					w.r.Yield()
				case 2:
					w.r.Sleep(time.Duration(1+c.id%7) * time.Millisecond)
				}
				w.checkObject(tr)
				switch p := obj.(type) {
				case *row:
					w.applyEdits(c, p)
				case *rowAlt:
					// the same writes through the other struct type (what is behind pointers is shared)
					r := p.rowOf()
					w.applyEdits(c, &r)
					*p = altOf(r)
				}
				tr.want = cloneDest(obj)
			}
		}
		st, c = c.nextSt, c.next
	}
}

// applyEdits: the caller writes to the object it received.
func (w *world) applyEdits(c *call, v *row) {
	tag := fmt.Sprintf("edited by call %d", c.id)
	inPlace := false
	if c.edit&editInPlace != 0 {
		if v.Ptr != nil {
			*v.Ptr = -int64(c.id) - 7
			inPlace = true
		}
		if v.Nest != nil {
			v.Nest.N, v.Nest.F = 777+int64(c.id), 0.5
			if v.Nest.Sub != nil {
				v.Nest.Sub.N = 778
			} else {
				v.Nest.Sub = &nested{N: 779}
			}
			inPlace = true
		}
		switch a := v.Any.(type) {
		case map[string]any:
			if a != nil {
				a["n"], a["added"] = tag, int64(c.id)
				delete(a, "big")
				if l, ok := a["list"].([]any); ok && len(l) > 0 {
					l[0] = tag
				}
				inPlace = true
			}
		case []any:
			if len(a) > 0 {
				a[0] = tag
				inPlace = true
			}
		}
		if inPlace {
			w.r.Probe("caller-edits-in-place")
		}
	}
	if c.edit&editScalars != 0 || (c.edit == editInPlace && !inPlace) {
		// (a row without pointers has nothing to edit in place: redact it instead)
		v.Name, v.Text, v.Big, v.U, v.F = "", tag, -int64(c.id)-1, v.U+1, -1
		w.r.Probe("caller-edits-scalars")
	}
	if c.edit&editStructure != 0 {
		if v.Ptr != nil {
			v.Ptr = nil
		} else {
			p := int64(c.id)
			v.Ptr = &p
		}
		if v.Nest != nil {
			v.Nest = nil
		} else {
			v.Nest = &nested{N: 1, Sub: &nested{N: 2}}
		}
		v.Any = map[string]any{"redacted": tag}
		v.ID, v.Ver = tag, -1
		w.r.Probe("caller-edits-structure")
	}
}

// checkObject: nobody but the caller wrote to the object since the caller's read returned.
func (w *world) checkObject(tr *tracked) {
	if tr == nil {
		return
	}
	w.r.Probe("destination-object-checked")
	if now := derefDest(tr.obj); !reflect.DeepEqual(now, tr.want) {
		w.fail("destination-changed-after-return", "call %d (%s): the object the caller received (with the caller's own edits) was %+v and now holds %+v: somebody else wrote to the caller's object after the call had returned",
			tr.c.id, w.rn(tr.c), tr.want, now)
	}
}

// checkObjects: at the end of a batch, every object handed out in it.
func (w *world) checkObjects() {
	for _, tr := range w.objs {
		w.checkObject(tr)
	}
	w.objs = nil
}
