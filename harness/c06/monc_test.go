package c06

import (
	"context"
	"errors"
	"fmt"

	"github.com/zeromicro/go-zero/core/stores/mon"
	"go.mongodb.org/mongo-driver/bson"
	"go.mongodb.org/mongo-driver/mongo"
	mopt "go.mongodb.org/mongo-driver/mongo/options"
)

// The monc member: the cache-aside API under test is monc.Model (core/stores/monc/cachedmodel.go),
// the Mongo cached model.  Real: monc.Model (FindOne over cache.TakeCtx, every write method with
// its DelCache, DelCache / GetCache / SetCache, FindOneNoCache) and the mon.Model wrappers it calls
// (FindOne, DeleteOne, FindOneAndDelete / Replace / Update: decoding of the driver's results).
// Stub: mon.Collection, the database - the same stand-in as for sqlc (document = row, per-key
// query gauge, latency, error injection, context handling), answering with the driver's result
// types.  No mongo client exists (seams mon.VerifNewModel / monc.VerifNew*Model build the models
// without one).
//
// A document is cached under one key (the primary key of the row); the second key of a row is
// never written in this member and only travels in multi-key DelCache / UpdateMany calls.

type monMethod int

const (
	mReplaceOne monMethod = iota
	mUpdateOne
	mUpdateByID
	mInsertOne
	mFindOneAndReplace
	mFindOneAndUpdate
	mDeleteOne
	mFindOneAndDelete
	mUpdateMany
)

var monMethodNames = [...]string{"ReplaceOne", "UpdateOne", "UpdateByID", "InsertOne", "FindOneAndReplace", "FindOneAndUpdate", "DeleteOne", "FindOneAndDelete", "UpdateMany"}

func (m monMethod) findAndModify() bool {
	return m == mFindOneAndReplace || m == mFindOneAndUpdate || m == mFindOneAndDelete
}

// the finding of this member (see monUpsertFinding); repaired in /repo 7ae0139, listed as fixed in known_findings.json
const classMonUpsert = "monc-upsert-reported-as-no-document:not-invalidated"

// monOp travels through monc.Model and mon.Model as the filter (the id of UpdateByID, the document
// of InsertOne) and tells the stub collection which operation of the history it serves.
type monOp struct {
	st *step
	c  *call // reads
}

func (w *world) newMonModel() *mon.Model {
	return mon.VerifNewModel(fmt.Sprintf("c06-%d/rows", w.r.Seq()), &monColl{w: w})
}

// monAdapt maps a generated step onto the API of monc.Model.
func (w *world) monAdapt(st *step) {
	t := w.t
	switch st.kind {
	case kRead:
		for _, c := range st.readers {
			if c.kind == rIndex || c.kind == rTake {
				c.kind = rPrimary // FindOne
			}
			c.withExp = false
		}
	case kSetCacheExp:
		st.kind = kSetCache // no SetCacheWithExpire
	case kWrite:
		if len(st.more) > 0 {
			st.mon = mUpdateMany
			break
		}
		st.mon = monMethod(t.Intn(6))
		had := st.ent.ver != 0
		switch {
		case st.mon == mInsertOne && had:
			st.mon = mReplaceOne // (a second insert is a duplicate key error)
		case st.mon.findAndModify():
			st.upsert = t.Bool()
		case !had:
			st.upsert = true
		default:
			st.upsert = t.Bool()
		}
	case kDelete:
		st.mon = mDeleteOne
		if t.Bool() {
			st.mon = mFindOneAndDelete
		}
	case kFailExec:
		st.mon = monMethod(t.Intn(8))
	}
}

func (w *world) monRead(ctx context.Context, st *step, c *call, v any) error {
	if ctx == nil {
		ctx = context.Background()
	}
	if c.kind == rGet {
		return w.mm.GetCache(st.ent.pkey, v)
	}
	return w.mm.FindOne(ctx, st.ent.pkey, v, &monOp{st: st, c: c})
}

var monUpdate = bson.M{"$inc": bson.M{"ver": 1}}

func (w *world) monWrite(ctx context.Context, st *step, keys []string) {
	ent := st.ent
	if ctx == nil {
		ctx = context.Background()
	}
	op := &monOp{st: st}
	st.monBefore = w.curRow(ent)
	had := ent.ver != 0
	if !had {
		st.monBefore = row{}
	}
	key := ent.pkey
	switch st.kind {
	case kNoCache:
		st.err = w.mm.FindOneNoCache(ctx, &st.monV, op)
	case kSetCache:
		st.err = w.mm.SetCache(key, w.curRow(ent))
	case kDelCache:
		st.err = w.mm.DelCache(ctx, keys...)
	case kWrite, kDelete, kFailExec:
		st.noMatch = st.mon.findAndModify() && !had && !(st.upsert && st.mon != mFindOneAndDelete)
		repl := w.rowAt(ent, 0)
		switch st.mon {
		case mUpdateMany:
			st.monGot, st.err = w.mm.UpdateMany(ctx, keys, op, monUpdate)
		case mReplaceOne:
			st.monGot, st.err = w.mm.ReplaceOne(ctx, key, op, repl, mopt.Replace().SetUpsert(st.upsert))
		case mUpdateOne:
			st.monGot, st.err = w.mm.UpdateOne(ctx, key, op, monUpdate, mopt.Update().SetUpsert(st.upsert))
		case mUpdateByID:
			st.monGot, st.err = w.mm.UpdateByID(ctx, key, op, monUpdate, mopt.Update().SetUpsert(st.upsert))
		case mInsertOne:
			st.monGot, st.err = w.mm.InsertOne(ctx, key, op)
		case mFindOneAndReplace:
			st.err = w.mm.FindOneAndReplace(ctx, key, &st.monV, op, repl, mopt.FindOneAndReplace().SetUpsert(st.upsert))
		case mFindOneAndUpdate:
			st.err = w.mm.FindOneAndUpdate(ctx, key, &st.monV, op, monUpdate, mopt.FindOneAndUpdate().SetUpsert(st.upsert))
		case mDeleteOne:
			st.monGot, st.err = w.mm.DeleteOne(ctx, key, op)
		case mFindOneAndDelete:
			st.err = w.mm.FindOneAndDelete(ctx, key, &st.monV, op)
		}
	}
}

// checkMonResult: what the database answered is what the caller gets (mon.Model decodes the
// driver's results, monc.Model hands them on).
func (w *world) checkMonResult(st *step) {
	if st.err != nil || st.dbErr != nil || (st.kind != kWrite && st.kind != kDelete) {
		return
	}
	bad := func(format string, a ...any) {
		w.fail("monc-result-pass-through", "%s: "+format, append([]any{monMethodNames[st.mon]}, a...)...)
	}
	switch st.mon {
	case mDeleteOne:
		want := int64(0)
		if st.monBefore.Ver != 0 {
			want = 1
		}
		if got, _ := st.monGot.(int64); got != want {
			bad("returned the deleted count %v, the collection deleted %d", st.monGot, want)
		}
	case mFindOneAndDelete, mFindOneAndReplace, mFindOneAndUpdate:
		if !sameRow(st.monV, st.monBefore) {
			bad("decoded %+v, the collection returned the document %+v", st.monV, st.monBefore)
		}
	default:
		same := false
		switch g := st.monGot.(type) {
		case *mongo.UpdateResult:
			r, ok := st.monRes.(*mongo.UpdateResult)
			same = ok && g == r
		case *mongo.InsertOneResult:
			r, ok := st.monRes.(*mongo.InsertOneResult)
			same = ok && g == r
		}
		if !same {
			bad("returned %#v, the collection returned %#v", st.monGot, st.monRes)
		}
	}
	w.r.Probe("monc-result-checked")
}

// ---------------------------------------------------------------------------------------
// the stub collection

type monColl struct{ w *world }

var errMonUnused = "c06: mon.Collection method not used by monc.Model's cache-aside API"

func (m *monColl) op(x any, method string) *monOp {
	op, ok := x.(*monOp)
	if !ok || op.st == nil {
		m.w.fail("monc-filter-pass-through", "%s received %#v instead of the caller's filter", method, x)
		return nil
	}
	return op
}

var errMonBad = errors.New("c06: bad call of the stub collection")

// modify runs a write of the history.
func (m *monColl) modify(ctx context.Context, method monMethod, x any, upsert *bool) (*step, error) {
	op := m.op(x, monMethodNames[method])
	if op == nil {
		return nil, errMonBad
	}
	st := op.st
	if st.mon != method {
		m.w.fail("monc-wrong-collection-method", "%s of monc.Model reached the collection as %s", monMethodNames[st.mon], monMethodNames[method])
	}
	switch method {
	case mReplaceOne, mUpdateOne, mUpdateByID, mFindOneAndReplace, mFindOneAndUpdate:
		if got := upsert != nil && *upsert; got != st.upsert {
			m.w.fail("monc-options-pass-through", "%s: called with upsert=%v, the collection saw upsert=%v", monMethodNames[method], st.upsert, got)
		}
	}
	return st, m.w.dbWrite(ctx, st)
}

func single(doc row, err error) (*mongo.SingleResult, error) {
	var res *mongo.SingleResult
	if err != nil {
		res = mongo.NewSingleResultFromDocument(bson.D{}, err, nil)
	} else {
		res = mongo.NewSingleResultFromDocument(doc, nil, nil)
	}
	// like the real (decorated) collection: the result and its error
	return res, res.Err()
}

// findAndModify: the document as it was before, or "no document" - also after an upsert, which is
// how the server answers when ReturnDocument is Before (the default) and nothing matched.
func (m *monColl) findAndModify(ctx context.Context, method monMethod, x any, upsert *bool) (*mongo.SingleResult, error) {
	st, err := m.modify(ctx, method, x, upsert)
	if err != nil {
		return single(row{}, err)
	}
	if st.monBefore.Ver == 0 {
		st.upsertNoDoc = true
		m.w.r.Probe("monc-find-and-modify-upserted")
		return single(row{}, mongo.ErrNoDocuments)
	}
	return single(st.monBefore, nil)
}

func (m *monColl) update(ctx context.Context, method monMethod, x any, opts []*mopt.UpdateOptions) (*mongo.UpdateResult, error) {
	var up *bool
	for _, o := range opts {
		if o != nil && o.Upsert != nil {
			up = o.Upsert
		}
	}
	st, err := m.modify(ctx, method, x, up)
	if err != nil {
		return nil, err
	}
	res := &mongo.UpdateResult{}
	if st.monBefore.Ver != 0 {
		res.MatchedCount, res.ModifiedCount = 1, 1
	} else {
		res.UpsertedCount, res.UpsertedID = 1, st.ent.pk
	}
	if method == mUpdateMany {
		res.MatchedCount, res.ModifiedCount = int64(len(st.ents())), int64(len(st.ents()))
	}
	st.monRes = res
	return res, nil
}

func (m *monColl) FindOne(ctx context.Context, filter any, _ ...*mopt.FindOneOptions) (*mongo.SingleResult, error) {
	op := m.op(filter, "FindOne")
	if op == nil {
		return single(row{}, errMonBad)
	}
	if op.c == nil {
		// FindOneNoCache: straight to the database
		m.w.r.Probe("monc-find-one-no-cache")
		if op.st.ent.ver == 0 {
			return single(row{}, mongo.ErrNoDocuments)
		}
		return single(m.w.curRow(op.st.ent), nil)
	}
	var v row
	if _, err := m.w.query(ctx, op.st, op.c, qPrimary, &v); err != nil {
		return single(row{}, err)
	}
	return single(v, nil)
}

func (m *monColl) DeleteOne(ctx context.Context, filter any, _ ...*mopt.DeleteOptions) (*mongo.DeleteResult, error) {
	st, err := m.modify(ctx, mDeleteOne, filter, nil)
	if err != nil {
		return nil, err
	}
	res := &mongo.DeleteResult{}
	if st.monBefore.Ver != 0 {
		res.DeletedCount = 1
	}
	return res, nil
}

func (m *monColl) FindOneAndDelete(ctx context.Context, filter any, _ ...*mopt.FindOneAndDeleteOptions) (*mongo.SingleResult, error) {
	return m.findAndModify(ctx, mFindOneAndDelete, filter, nil)
}

func (m *monColl) FindOneAndReplace(ctx context.Context, filter, _ any, opts ...*mopt.FindOneAndReplaceOptions) (*mongo.SingleResult, error) {
	var up *bool
	for _, o := range opts {
		if o != nil && o.Upsert != nil {
			up = o.Upsert
		}
	}
	return m.findAndModify(ctx, mFindOneAndReplace, filter, up)
}

func (m *monColl) FindOneAndUpdate(ctx context.Context, filter, _ any, opts ...*mopt.FindOneAndUpdateOptions) (*mongo.SingleResult, error) {
	var up *bool
	for _, o := range opts {
		if o != nil && o.Upsert != nil {
			up = o.Upsert
		}
	}
	return m.findAndModify(ctx, mFindOneAndUpdate, filter, up)
}

func (m *monColl) InsertOne(ctx context.Context, document any, _ ...*mopt.InsertOneOptions) (*mongo.InsertOneResult, error) {
	st, err := m.modify(ctx, mInsertOne, document, nil)
	if err != nil {
		return nil, err
	}
	res := &mongo.InsertOneResult{InsertedID: st.ent.pk}
	st.monRes = res
	return res, nil
}

func (m *monColl) ReplaceOne(ctx context.Context, filter, _ any, opts ...*mopt.ReplaceOptions) (*mongo.UpdateResult, error) {
	var uo []*mopt.UpdateOptions
	for _, o := range opts {
		if o != nil {
			uo = append(uo, &mopt.UpdateOptions{Upsert: o.Upsert})
		}
	}
	return m.update(ctx, mReplaceOne, filter, uo)
}

func (m *monColl) UpdateByID(ctx context.Context, id, _ any, opts ...*mopt.UpdateOptions) (*mongo.UpdateResult, error) {
	return m.update(ctx, mUpdateByID, id, opts)
}

func (m *monColl) UpdateMany(ctx context.Context, filter, _ any, opts ...*mopt.UpdateOptions) (*mongo.UpdateResult, error) {
	return m.update(ctx, mUpdateMany, filter, opts)
}

func (m *monColl) UpdateOne(ctx context.Context, filter, _ any, opts ...*mopt.UpdateOptions) (*mongo.UpdateResult, error) {
	return m.update(ctx, mUpdateOne, filter, opts)
}

// not part of the cache-aside API

func (m *monColl) Aggregate(context.Context, any, ...*mopt.AggregateOptions) (*mongo.Cursor, error) {
	panic(errMonUnused)
}
func (m *monColl) BulkWrite(context.Context, []mongo.WriteModel, ...*mopt.BulkWriteOptions) (*mongo.BulkWriteResult, error) {
	panic(errMonUnused)
}
func (m *monColl) Clone(...*mopt.CollectionOptions) (*mongo.Collection, error) { panic(errMonUnused) }
func (m *monColl) CountDocuments(context.Context, any, ...*mopt.CountOptions) (int64, error) {
	panic(errMonUnused)
}
func (m *monColl) Database() *mongo.Database { panic(errMonUnused) }
func (m *monColl) DeleteMany(context.Context, any, ...*mopt.DeleteOptions) (*mongo.DeleteResult, error) {
	panic(errMonUnused)
}
func (m *monColl) Distinct(context.Context, string, any, ...*mopt.DistinctOptions) ([]any, error) {
	panic(errMonUnused)
}
func (m *monColl) Drop(context.Context) error { panic(errMonUnused) }
func (m *monColl) EstimatedDocumentCount(context.Context, ...*mopt.EstimatedDocumentCountOptions) (int64, error) {
	panic(errMonUnused)
}
func (m *monColl) Find(context.Context, any, ...*mopt.FindOptions) (*mongo.Cursor, error) {
	panic(errMonUnused)
}
func (m *monColl) Indexes() mongo.IndexView { panic(errMonUnused) }
func (m *monColl) InsertMany(context.Context, []any, ...*mopt.InsertManyOptions) (*mongo.InsertManyResult, error) {
	panic(errMonUnused)
}
func (m *monColl) Watch(context.Context, any, ...*mopt.ChangeStreamOptions) (*mongo.ChangeStream, error) {
	panic(errMonUnused)
}
