package c06

import (
	"errors"
	"time"

	"verifsim/simredis"
)

// The retry ladder of the cleaner (core/stores/cache/cleaner.go: first attempt after 1 s, then
// 5 s, 1 min, 5 min, 1 h after the previous failure; then it gives up), as cumulative delays.
var ladder = []time.Duration{time.Second, 6 * time.Second, 66 * time.Second, 366 * time.Second, 3966 * time.Second}

const (
	attemptMax    = 15 * time.Second // a failing attempt may itself take 4 x 3 s read time-outs plus back-off before the next delay starts
	ladderSlack   = 30 * time.Second // wheel granularity (1 s per rung), task hand-over, command round trips, injected stalls
	breakerWindow = 15 * time.Second // go-zero's redis breaker forgets failures after 10 s
)

func (w *world) maxTTL(base time.Duration) time.Duration { return ceilSec(jitMax(base)) }
func (w *world) minTTL(base time.Duration) time.Duration { return jitMin(base) }

const placeholder = "*"

func (st *step) bounds() (ginv, gret time.Time) {
	if st.kind != kRead {
		return st.tinv, st.tret
	}
	for i, c := range st.readers {
		if i == 0 || c.tinv.Before(ginv) {
			ginv = c.tinv
		}
		if i == 0 || c.tret.After(gret) {
			gret = c.tret
		}
	}
	return
}

func inHist(e *entity, ver int) bool {
	for _, v := range e.hist {
		if v == ver {
			return true
		}
	}
	return false
}

// overlapsExec: the call c overlapped the call that ran the query x (the flight lasts from the
// leader's invocation to its return: a reader arriving after the query itself finished but before
// the leader has left the barrier legitimately shares its result).
func overlapsExec(c *call, x *qexec) bool {
	l := x.caller
	return l.inv < c.ret && (!l.returned || c.inv < l.ret)
}

func (w *world) finishStep(st *step) {
	for _, ru := range st.rules {
		if st.fault == fErrDEL && st.faultExt > 0 {
			ru.until = time.Now().Add(st.faultExt)
			continue
		}
		ru.gone = true
	}
	if st.ctxDied() {
		w.r.Probe("ctx-ended-during-call")
		w.noteCtxFaults(st)
	}
	if st.kind == kRead {
		w.checkRead(st)
	} else {
		w.checkWrite(st)
	}
}

// getFails: the first store access of the call certainly fails (the node owning the key it starts
// with is down for the whole step, or every GET of the row's keys is answered with an error).
func (st *step) getFails(c *call) bool {
	if st.fault == fErrGET {
		return true
	}
	if c.kind == rIndex {
		return st.out(st.ent.ikey)
	}
	return st.out(st.ent.pkey)
}

func (st *step) allGetsFail() bool {
	for _, c := range st.readers {
		if !st.getFails(c) {
			return false
		}
	}
	return true
}

// touched: the nodes a read of this kind can reach.
func (w *world) touched(st *step, c *call) []*node {
	ns := []*node{w.ownerOf(st.ent.pkey)}
	if c.kind == rIndex {
		if o := w.ownerOf(st.ent.ikey); o != ns[0] {
			ns = append(ns, o)
		}
	}
	return ns
}

func (w *world) allClean(st *step, ns []*node) bool {
	for _, n := range ns {
		if !w.clean(st, n) {
			return false
		}
	}
	return true
}

func (w *world) checkRead(st *step) {
	ent := st.ent
	ginv, gret := st.bounds()
	stale := st.dirtyPre
	relaxed := st.pendPre || w.cleanerPending(ent) // the cleaner may delete the entries at any moment
	risk := st.breakerRsk || w.riskEnt(ent)
	cur := w.curRow(ent)
	if len(st.readers) > 1 {
		w.r.Probe("concurrent-read-group")
		nIdx, nPri, joined := 0, 0, false
		for _, c := range st.readers {
			switch c.kind {
			case rIndex:
				nIdx++
			case rPrimary, rTake:
				nPri++
			}
			// a follower: invoked while another caller's index query was running
			for _, x := range st.execs {
				if x.kind == qIndex && x.caller != c && c.kind == rIndex && x.s < c.inv && c.inv < x.e {
					joined = true
				}
			}
		}
		if nIdx > 1 && st.pre[1].missFrom(ginv) {
			w.r.Probe("index-group-on-uncached-index-key")
			if joined {
				w.r.Probe("index-group-follower-joined-during-index-query")
			}
			if c := pkClass(ent.pk); c != "small" {
				w.r.Probe("index-group-with-pk-" + c)
			}
		}
		if nIdx > 0 && nPri > 0 && st.pre[0].missFrom(ginv) {
			w.r.Probe("mixed-group-primary-and-index-on-uncached-row")
		}
		// readers of one key whose destination objects are of different Go types
		var seen [len(destNames)]bool
		nTypes := 0
		for _, c := range st.readers {
			if c.kind != rGet && !seen[c.dt] {
				seen[c.dt] = true
				nTypes++
			}
		}
		if nTypes > 1 {
			w.r.Probe("read-group-with-different-destination-types")
			if st.pre[0].missFrom(ginv) {
				w.r.Probe("read-group-with-different-destination-types-on-uncached-key")
			}
		}
	}
	for _, c := range st.readers {
		// a context error is on the account of a context that ended while the call (or a call that
		// overlapped it: the flight is shared) was running; any other is a store error like another
		if c.out == oStoreErr && isCtxErr(c.err) && w.ctxErrPossible(st, c) {
			c.out = oCtxErr
		}
		if w.r.Tracing() {
			w.r.Logf("  call %d %s %s -> out=%d got=%+v err=%v own=%d ctx-ended=%v", c.id, w.rn(c), c.cx.String(), c.out, c.got, c.err, len(c.own), c.cx.died())
		}
		// (4) the error of one's own failed query is what one gets back
		for _, x := range c.own {
			if x.inj && !errors.Is(c.err, x.err) {
				w.fail("db-error-swallowed", "call %d (%s): its own database query failed with %q but the call returned (%+v, %v)", c.id, w.rn(c), x.err, c.got, c.err)
			}
		}
		switch c.out {
		case oRow:
			switch {
			case c.shape != "":
				w.fail("read-mismatch:garbage-row", "call %d (%s into a %s) returned no error and its destination %s", c.id, w.rn(c), destNames[c.dt], c.shape)
			case ent.ver != 0 && c.same(c.got, cur):
			case ent.ver == 0 && !stale:
				w.fail("read-mismatch:row-for-absent", "call %d (%s) returned row %+v, the database holds no such row", c.id, w.rn(c), c.got)
			case c.got.Ver != 0 && inHist(ent, c.got.Ver) && c.same(c.got, w.rowAt(ent, c.got.Ver)):
				if !stale {
					w.fail("read-mismatch:stale-row", "call %d (%s) returned version %d, the database holds version %d", c.id, w.rn(c), c.got.Ver, ent.ver)
				} else {
					w.r.Probe("stale-read-while-invalidation-pending")
				}
			default:
				w.fail("read-mismatch:garbage-row", "call %d (%s) returned %+v which the database never held (now %+v)", c.id, w.rn(c), c.got, cur)
			}
		case oNotFound:
			switch {
			case ent.ver == 0:
			case c.kind == rGet:
				// not cached is a legitimate answer of GetCache unless the entry certainly is there
				p := st.pre[0]
				if p.hitBy(gret) && p.val != placeholder && !relaxed && !stale {
					w.fail("cached-entry-not-served", "GetCache(%s) returned not-found although the entry is in the store until %v", ent.pkey, p.x.Sub(p.at))
				}
			case stale && inHist(ent, 0):
				w.r.Probe("stale-read-while-invalidation-pending")
			default:
				w.fail("read-mismatch:notfound-for-present", "call %d (%s) returned the not-found error, the database holds %+v", c.id, w.rn(c), cur)
			}
		case oDBErr:
			x := c.dbx
			if c.kind == rGet || x.ent != ent || !overlapsExec(c, x) {
				w.fail("db-error-unattributable", "call %d (%s) [%d,%d] returned %q of query %d run by call %d [%d,%d] which did not overlap it", c.id, w.rn(c), c.inv, c.ret, c.err, x.id, x.caller.id, x.caller.inv, x.caller.ret)
			} else if x.caller != c {
				w.r.Probe("singleflight-shared-error")
			}
		case oCtxErr:
			// the call was given up along with its context; what matters is what it left behind
			// (checked below and by the invariants) and that nothing else was made up
			w.r.Probe("context-error-returned")
			if !c.cx.died() {
				w.r.Probe("context-error-shared-by-flight")
			}
		case oStoreErr:
			if !w.faulty && !risk {
				w.fail("unexpected-error", "call %d (%s) returned %v in a history without store faults", c.id, w.rn(c), c.err)
				break
			}
			w.r.Probe("store-error-returned")
			// (5) a failing GET is reported without querying the database
			if len(c.own) > 0 && (st.getFails(c) || (c.kind != rIndex && st.fault != fErrSET)) {
				w.fail("query-on-store-error", "call %d (%s) returned the store error %v but ran %d database quer(ies)", c.id, w.rn(c), c.err, len(c.own))
			}
			// nothing was injected on the node(s) this read talks to: a failure elsewhere is not its business
			if w.allClean(st, w.touched(st, c)) {
				class := "store-error-on-healthy-node"
				if st.otherDown {
					class += ":other-node-down"
				}
				w.fail(class, "call %d (%s) returned %v; no fault was injected on the node(s) owning the row's keys during the read nor in the %v before it", c.id, w.rn(c), c.err, breakerWindow)
			}
		}
		if st.otherDown && w.allClean(st, w.touched(st, c)) {
			w.r.Probe("read-on-healthy-node-while-other-node-down")
		}
		if st.getFails(c) {
			if c.out != oStoreErr && c.out != oCtxErr {
				w.fail("store-error-not-reported", "call %d (%s): every store access failed (%s) but the call returned (%+v, %v)", c.id, w.rn(c), st.faultDesc(), c.got, c.err)
			} else if st.anyOut() {
				w.r.Probe("store-outage-during-read")
			}
		}
		// a reader that got a value without running a query while another caller's query overlapped it
		if len(c.own) == 0 && (c.out == oRow || c.out == oNotFound) {
			for _, x := range st.execs {
				if x.caller != c && x.s > c.inv && x.e < c.ret {
					w.r.Probe("singleflight-shared-result")
					if x.caller.dt != c.dt {
						w.r.Probe("singleflight-shared-result-across-destination-types")
					}
					// ... and what the caller that ran the query did with its own object afterwards
					if l := x.caller; l.returned && l.ret < c.ret {
						if l.edit != 0 {
							w.r.Probe("shared-result-and-leader-edited-its-object-before-sharer-returned")
						}
						if l.next != nil && l.next.reuse == 1 && l.next.inv < c.ret {
							w.r.Probe("shared-result-and-leader-reused-its-object-before-sharer-returned")
						}
					}
					if c.prefill || (c.chained && c.reuse == 1) {
						w.r.Probe("shared-result-decoded-onto-non-zero-destination")
					}
					break
				}
			}
		}
	}
	if st.allGetsFail() && len(st.execs) > 0 {
		w.fail("query-on-store-error", "%d database quer(ies) ran while every store access failed (%s)", len(st.execs), st.faultDesc())
	}
	// query accounting per cache key
	var n, nOK [2]int
	var firstOK [2]*qexec
	for _, x := range st.execs {
		n[x.kind]++
		if !x.inj {
			nOK[x.kind]++
			if firstOK[x.kind] == nil {
				firstOK[x.kind] = x
			}
		}
	}
	anyIndex, anyPrimary, ansPrimary, ansIndex := false, false, false, false
	for _, c := range st.readers {
		got := c.out == oRow || c.out == oNotFound
		switch c.kind {
		case rIndex:
			anyIndex = true
			ansIndex = ansIndex || got
		case rPrimary, rTake:
			anyPrimary = true
			ansPrimary = ansPrimary || got
		}
	}
	p, ix := st.pre[0], st.pre[1]
	kindOf := func(s snap) string {
		if s.val == placeholder {
			return "placeholder"
		}
		return "row"
	}
	// (2) an entry that is in the store for the whole group is served without touching the database
	if !relaxed {
		if p.hitBy(gret) && n[qPrimary] > 0 {
			w.fail("cached-entry-queried:"+kindOf(p), "key %s holds %q for another %v, yet %d database quer(ies) ran during the read(s) [%v]", ent.pkey, p.val, p.x.Sub(p.at), n[qPrimary], gret.Sub(ginv))
		}
		if ix.hitBy(gret) && n[qIndex] > 0 {
			w.fail("cached-entry-queried:index-"+kindOf(ix), "key %s holds %q for another %v, yet %d index quer(ies) ran during the read(s)", ent.ikey, ix.val, ix.x.Sub(ix.at), n[qIndex])
		}
		if p.hitBy(gret) {
			for _, c := range st.readers {
				if c.out == oRow && (c.prefill || (c.chained && c.reuse == 1)) {
					w.r.Probe("cache-hit-decoded-onto-non-zero-destination")
				}
				if c.out == oRow && c.dt != ent.loadDt && n[qPrimary] == 0 {
					w.r.Probe("cache-hit-of-entry-written-through-another-destination-type")
				}
			}
			w.r.Probe("hit-" + kindOf(p))
			if p.val == placeholder {
				w.r.Probe("placeholder-hit")
			}
		}
	}
	// an entry that is gone cannot be served: somebody has to ask the database
	if !stale {
		if ansPrimary && !anyIndex && p.missFrom(ginv) && n[qPrimary] == 0 {
			w.fail("miss-without-query", "key %s was not in the store, the read(s) returned a value and no database query ran", ent.pkey)
		}
		if ansIndex && !anyPrimary && ix.missFrom(ginv) && n[qIndex] == 0 {
			w.fail("miss-without-query", "key %s was not in the store, the index read(s) returned a value and no index query ran", ent.ikey)
		}
		if ansIndex && !anyPrimary && !relaxed && ix.hitBy(gret) && ix.val != placeholder && p.missFrom(ginv) && n[qPrimary] == 0 {
			w.fail("miss-without-query", "index key %s is cached but the primary key %s was not in the store; the index read(s) returned a value and no primary query ran", ent.ikey, ent.pkey)
		}
	}
	// boundary probes
	for _, s := range []snap{p, ix} {
		if s.ex && s.ttl > 0 {
			if d := ginv.Sub(s.x); d >= -time.Second && d <= time.Second {
				w.r.Probe("expiry-boundary-landed")
				if d == 0 || d == -1 {
					w.r.Probe("expiry-boundary-exact")
				}
			}
		}
	}
	// (2)/(3) once a load succeeded the entry serves everybody else until min-expiry
	for kind := 0; kind < 2; kind++ {
		if nOK[kind] <= 1 || relaxed || st.fault == fErrSET || st.fault == fLossy || st.anyOut() || risk || st.ctxDied() {
			continue // (a loader whose context ended could not write its entry)
		}
		base := w.e
		if firstOK[kind].ver == 0 {
			base = w.nfe
		}
		if gret.Sub(firstOK[kind].te) < w.minTTL(base) {
			w.fail("repeated-load-within-expiry", "key %s: %d successful database queries during one group of reads lasting %v (min expiry %v)", w.keyOf(ent, kind), nOK[kind], gret.Sub(ginv), w.minTTL(base))
		}
	}
	// (the type through which the row's primary entry was written last: for the probes only)
	for kind := 0; kind < 2; kind++ {
		if x := firstOK[kind]; x != nil && x.ver != 0 {
			ent.loadDt = x.caller.dt
		}
	}
	// (4) a failed query leaves nothing behind
	post := [2]snap{w.snapKey(ent.pkey), w.snapKey(ent.ikey)}
	for kind := 0; kind < 2; kind++ {
		if n[kind] > 0 && nOK[kind] == 0 && st.pre[kind].missFrom(ginv) && post[kind].ex {
			if kind == qPrimary && nOK[qIndex] > 0 {
				continue // written by the index loader
			}
			w.fail("db-error-cached", "key %s: every database query failed with an injected error, yet the store now holds %q", w.keyOf(ent, kind), post[kind].val)
		}
	}
	// a successful load is written to the store (how else would the next read be served without a
	// query): where nothing disturbed the key's node, the entry is there
	if (st.fault == fNone || st.fault == fLatency) && !relaxed && !stale {
		for kind := 0; kind < 2; kind++ {
			x := firstOK[kind]
			if x == nil || !w.clean(st, w.ownerOf(w.keyOf(ent, kind))) {
				continue
			}
			if kind == qIndex && x.ver != 0 && !w.clean(st, w.ownerOf(ent.pkey)) {
				continue // the index loader writes the primary entry first and gives up when that fails
			}
			base := w.e
			if x.ver == 0 {
				base = w.nfe
			}
			if !post[kind].ex && post[kind].at.Sub(x.te) < w.minTTL(base) {
				w.fail("load-not-cached", "key %s: the database query of call %d succeeded %v ago, the store was healthy, and the key is not in the store (expiry %v)", w.keyOf(ent, kind), x.caller.id, post[kind].at.Sub(x.te), base)
			}
			w.r.Probe("load-cached-checked")
		}
		// an index load writes the primary entry too
		if x := firstOK[qIndex]; x != nil && x.ver != 0 && w.clean(st, w.ownerOf(ent.pkey)) && w.clean(st, w.ownerOf(ent.ikey)) &&
			!post[0].ex && post[0].at.Sub(x.te) < w.minTTL(w.e) {
			w.fail("load-not-cached", "key %s: the index query of call %d loaded the row %v ago, the store was healthy, and the primary entry is not in the store", ent.pkey, x.caller.id, post[0].at.Sub(x.te))
		}
	}
	// (6) lower TTL bound of entries written by this step
	if st.fault == fNone || st.fault == fLatency {
		for kind := 0; kind < 2; kind++ {
			if st.pre[kind].missFrom(ginv) && post[kind].ex && post[kind].ttl > 0 {
				base := w.e
				if post[kind].val == placeholder {
					base = w.nfe
				}
				w.checkFresh(w.keyOf(ent, kind), post[kind], base, ginv, false)
			}
		}
	}
	// the primary entry written by an index load outlives the index entry
	if nOK[qIndex] > 0 && firstOK[qIndex].ver != 0 && ix.missFrom(ginv) && p.missFrom(ginv) && post[0].ex && post[1].ex && post[0].ttl > 0 && post[1].ttl > 0 &&
		n[qPrimary] == 0 && nOK[qIndex] == 1 && (st.fault == fNone || st.fault == fLatency) && !st.anyOut() {
		w.r.Probe("index-load-both-entries-written")
		dur := gret.Sub(ginv)
		if !post[0].x.Add(dur).After(post[1].x) {
			w.fail("index-entry-outlives-primary", "after an index load (%v long) key %s expires in %v but the primary entry %s already in %v", dur, ent.ikey, post[1].ttl, ent.pkey, post[0].ttl)
		}
	}
}

func (st *step) faultDesc() string {
	if st.anyOut() {
		return "store down"
	}
	return faultNames[st.fault]
}

// checkFresh: an entry written during [inv, now] with expiry base.
func (w *world) checkFresh(key string, s snap, base time.Duration, inv time.Time, exact bool) {
	elapsed := s.at.Sub(inv)
	lo := w.minTTL(base)
	if exact {
		lo = ceilSec(base)
	}
	if s.ttl < lo-elapsed {
		kind := "row"
		if s.val == placeholder {
			kind = "placeholder"
		}
		w.fail("ttl-below-expiry:"+kind, "key %s was written at most %v ago with TTL %v left; the expiry is %v (-5%%)", key, elapsed, s.ttl, base)
	}
	w.r.Probe("fresh-entry-ttl-checked")
}

func (w *world) checkWrite(st *step) {
	ent := st.ent
	post := [2]snap{w.snapKey(ent.pkey), w.snapKey(ent.ikey)}
	if w.r.Tracing() {
		w.r.Logf("  %s -> err=%v post P=%+v I=%+v", stepKindNames[st.kind], st.err, post[0], post[1])
	}
	switch st.kind {
	case kNoCache:
		// the statement goes to the database connection as it is and the cache is left alone
		name := "FindOneNoCache"
		if w.monc {
			// ... and the answer is the database's
			switch {
			case ent.ver == 0 && !errors.Is(st.err, w.errNF):
				w.fail("no-cache-pass-through", "FindOneNoCache returned (%+v, %v), the collection holds no such document", st.monV, st.err)
			case ent.ver != 0 && (st.err != nil || !sameRow(st.monV, w.curRow(ent))):
				w.fail("no-cache-pass-through", "FindOneNoCache returned (%+v, %v), the collection holds %+v", st.monV, st.err, w.curRow(ent))
			}
		} else {
			name = noCacheNames[st.nocache]
			if st.err != errNoSQL {
				w.fail("no-cache-pass-through", "%s returned %v, the database connection returned %q", name, st.err, errNoSQL)
			}
		}
		if n := w.taskCmds[st.taskID]; n > 0 {
			w.fail("no-cache-touched-the-store", "%s sent %d command(s) to the cache store", name, n)
		}
		if !st.pendPre && !w.cleanerPending(ent) {
			for i, pre := range st.pre {
				if pre.hitBy(post[i].at.Add(1)) && (!post[i].ex || post[i].val != pre.val) {
					w.fail("no-cache-touched-the-store", "%s: key %s held %q before and holds %q (present: %v) after", name, ent.keys()[i], pre.val, post[i].val, post[i].ex)
				}
			}
		}
		w.r.Probe("no-cache-pass-through")
		return
	case kWrite, kDelete, kFailExec:
		if st.dbErr == nil {
			break // the write took effect: an invalidation, below
		}
		if !errors.Is(st.err, st.dbErr) {
			w.fail("exec-error-swallowed", "Exec whose database write failed with %q returned %v", st.dbErr, st.err)
		}
		if st.noMatch && errors.Is(st.dbErr, w.errNF) {
			// a find-and-modify that matched no document is not a failed write: the database answered
			// "no document" and nothing changed.  Whether the model invalidates the key nevertheless
			// (it cannot tell this answer from the one of an upsert that inserted) is not the
			// property's business: an invalidation too many never makes a read incoherent.  But an
			// invalidation that was attempted is followed like any other (a failed DEL is retried by
			// the cleaner and must be expected later).
			w.r.Probe("monc-no-match-find-and-modify")
			st.noDoc = true
			break
		}
		// the write did not happen: nothing was invalidated
		if !st.pendPre && !w.cleanerPending(ent) {
			for i, pre := range st.pre {
				if pre.hitBy(post[i].at.Add(1)) && !post[i].ex {
					w.fail("failed-write-invalidated-cache", "Exec returned the database error, yet key %s (%q, %v left) is gone", ent.keys()[i], pre.val, pre.x.Sub(post[i].at))
				}
			}
		}
		return
	case kSetCache, kSetCacheExp:
		relaxed := st.pendPre || w.cleanerPending(ent)
		setFails := st.out(ent.pkey) || st.fault == fErrSET
		if st.err != nil && w.faulty && w.clean(st, w.ownerOf(ent.pkey)) {
			class := "store-error-on-healthy-node:set"
			if st.otherDown {
				class += ":other-node-down"
			}
			w.fail(class, "%s(%s) returned %v; no fault was injected on the node owning the key", stepKindNames[st.kind], ent.pkey, st.err)
		}
		if st.err != nil && !w.faulty && !st.ctxDied() && !w.breakerRisk(w.ownerOf(ent.pkey)) {
			w.fail("unexpected-error", "%s returned %v in a history without store faults", stepKindNames[st.kind], st.err)
		}
		if st.err != nil && st.ctxDied() {
			w.r.Probe("context-error-returned")
		}
		if setFails && st.err == nil {
			w.fail("store-error-not-reported:set", "%s returned nil although every SET failed (%s)", stepKindNames[st.kind], st.faultDesc())
		}
		if st.err == nil {
			ent.loadDt = dRow
			if st.kind == kSetCacheExp && st.expire > ent.customTTL {
				ent.customTTL = st.expire
			}
			if !post[0].ex {
				if post[0].at.Sub(st.tinv) < w.minTTL(w.e) && st.kind == kSetCache && !relaxed {
					w.fail("set-cache-lost", "SetCache(%s) returned nil but the key is not in the store", ent.pkey)
				}
			} else if post[0].ttl > 0 && (st.fault == fNone || st.fault == fLatency) && !relaxed {
				if st.kind == kSetCache {
					w.checkFresh(ent.pkey, post[0], w.e, st.tinv, false)
				} else {
					w.checkFresh(ent.pkey, post[0], st.expire, st.tinv, true)
					if post[0].ttl > ceilSec(st.expire) {
						w.fail("ttl-exceeds-expiry:explicit", "SetCacheWithExpire(%s, %v) left TTL %v", ent.pkey, st.expire, post[0].ttl)
					}
				}
			}
		} else if st.kind == kSetCacheExp && st.expire > ent.customTTL {
			ent.customTTL = st.expire // the command may have been executed all the same
		}
		return
	}
	// invalidating operations: Exec with a successful write, DelCache.  A call whose context ended
	// may report that (the write is in the database all the same: ExecCtx's "result and non-nil
	// error"); it is an invalidation nevertheless
	switch {
	case st.err == nil:
	case (st.upsertNoDoc || st.noDoc) && errors.Is(st.err, w.errNF):
		// the database's answer to a find-and-modify that upserted (or matched nothing): there was no
		// document before
	case !st.ctxDied():
		w.fail("unexpected-error", "%s returned %v", stepKindNames[st.kind], st.err)
	default:
		w.r.Probe("context-error-returned")
	}
	if w.monc {
		w.checkMonResult(st)
	}
	if st.ctxDied() && st.kind != kDelCache {
		w.r.Probe("db-write-took-effect-and-ctx-ended")
	}
	// per key: did its DEL reach the node that owns it?  Keys of one call that live on one node
	// travel in one command, keys on different nodes are deleted node by node, and a node that is
	// unreachable must not keep the call from invalidating the keys on the others.
	for _, e := range st.ents() {
		all := true
		for j, k := range e.keys() {
			if !w.handed(st, j) {
				all = false
				continue // not handed to the call
			}
			o := w.ownerOf(k)
			nDel := 0
			for _, d := range w.dels {
				if d.harness && d.key == k && d.clk > st.cinv && d.clk < st.cret {
					nDel++
				}
			}
			clean := w.clean(st, o)
			attempted := false
			for _, d := range w.delSent {
				if d.harness && d.key == k && d.clk > st.cinv && d.clk < st.cret {
					attempted = true
				}
			}
			// (a DEL that failed before it left the client - ended context, open breaker, refused
			// dial - is invisible here: with a fault or an ended context in the step the ordinary
			// bookkeeping for a DEL that did not arrive applies, the cleaner may retry it)
			if st.noDoc && !attempted && clean {
				all = false
				continue // no invalidation attempted, none needed: the entry is as it was
			}
			if st.upsertNoDoc && nDel == 0 && !attempted && clean {
				w.monUpsertFinding(st, k, clean)
				nDel = 1
			}
			if clean && nDel == 0 && !st.noDoc {
				class := "invalidation-not-executed"
				if st.anyOut() {
					class += ":other-node-down"
				} else if len(st.more) > 0 {
					class += ":multi-row"
				}
				w.fail(class, "%s returned, key %s was to be invalidated, its node %d had no fault, and no DEL of the key reached it", stepKindNames[st.kind], k, o.idx)
			}
			if clean && st.anyOut() && !st.out(k) {
				w.r.Probe("invalidation-on-healthy-node-while-other-node-down")
			}
			// nobody else works on the row while it is written, so what was deleted is still gone
			if clean && nDel > 0 {
				if sn := w.snapKey(k); sn.ex {
					w.fail("invalidated-key-still-in-store", "%s returned, the DEL of key %s was executed by node %d, and the key holds %q", stepKindNames[st.kind], k, o.idx, sn.val)
				}
			}
			if !clean || nDel != 1 {
				e.cleanerMaybe[j]++
			}
			if nDel == 0 {
				w.r.Probe("invalidation-del-failed")
				if !e.dirty() {
					e.dirtyInv = st.tinv
				}
				e.dirtyK[j] = true
				e.dirtyRet = st.tret
				all = false
			} else {
				e.dirtyK[j] = false
			}
		}
		if all {
			e.idxLoaded, e.customTTL = false, 0
		}
	}
}

// handed: key j (0 primary, 1 index) of the step's rows is among the keys given to the call.
func (w *world) handed(st *step, j int) bool {
	switch {
	case st.kind == kDelCache && st.only > 0:
		return j == st.only-1
	case w.monc && st.kind != kDelCache && len(st.more) == 0:
		return j == 0 // the single-key write methods of monc.Model
	}
	return true
}

// monUpsertFinding: FindOneAndReplace / FindOneAndUpdate of monc.Model called with the upsert option
// for a document that does not exist.  The server inserts the document and answers "no document"
// (ReturnDocument defaults to Before and there was none); the driver turns that into
// mongo.ErrNoDocuments, mon.Model returns it, and monc.Model takes it for a failed write: it
// returns without deleting the key.  The write took effect through the model with the key, a
// not-found marker cached for the key keeps being served.  Genuine go-zero behaviour, reported
// under its own class (repaired in /repo 7ae0139).  If it returns nobody is going to delete the key - the
// cleaner was not told either - so the harness removes it from the store itself and the history
// goes on as if the invalidation had happened.
func (w *world) monUpsertFinding(st *step, k string, clean bool) {
	w.r.Probe("monc-upsert-no-document-key-not-deleted")
	srv := w.ownerOf(k).srv
	srv.Sync()
	// reported where it shows: the key holds the not-found marker, which the next read would be served
	if val, err := srv.MR().Get(k); clean && err == nil && srv.MR().Exists(k) {
		w.fail(classMonUpsert, "%s(upsert) inserted row %d (the collection answered %q: there was no document before) and monc.Model returned %v without deleting key %s, which holds %q for another %v",
			monMethodNames[st.mon], st.ent.idx, w.errNF, st.err, k, val, srv.MR().TTL(k))
	}
	srv.MR().Del(k)
}

func parseRow(val string) (row, bool) {
	var v row
	if err := decodeNumbers(val, &v); err != nil {
		return v, false
	}
	return v, true
}

// invariants are checked between operations: (6) every key has a finite TTL within the
// configured expiry, and what the store holds is what the database holds.
func (w *world) invariants() {
	// the store holds nothing but the keys of the rows: an entry under any other key is served to
	// nobody who asks for a row by its keys and is invalidated by no write
	for _, n := range w.nodes {
		n.srv.Sync()
		for _, k := range n.srv.MR().Keys() {
			if w.byKey[k] == nil {
				val, _ := n.srv.MR().Get(k)
				w.fail("stray-key", "node %d holds the key %s (value %s, TTL %v) which is the primary or index key of no row", n.idx, short(k), short(val), n.srv.MR().TTL(k))
			}
		}
		w.r.Probe("store-scanned-for-stray-keys")
	}
	for _, ent := range w.ents {
		for i, k := range ent.keys() {
			s := w.snapKey(k)
			// the key lives on the node that serves it and nowhere else
			for _, n := range w.nodes {
				if n == w.ownerOf(k) {
					continue
				}
				n.srv.Sync()
				if n.srv.MR().Exists(k) {
					w.fail("key-on-foreign-node", "key %s is served by node %d and is present on node %d", k, w.ownerOf(k).idx, n.idx)
				}
			}
			if !s.ex {
				continue
			}
			kind := "row"
			bound := w.maxTTL(w.e)
			if s.val == placeholder {
				kind, bound = "placeholder", w.maxTTL(w.nfe)
			} else if i == 0 {
				if ent.idxLoaded {
					bound += 5 * time.Second // documented safety gap between index and primary entry
				}
				if c := ceilSec(ent.customTTL); c > bound {
					bound = c
				}
			} else {
				kind = "index"
			}
			if s.ttl <= 0 {
				base := w.e
				if s.val == placeholder {
					base = w.nfe
				}
				class := "persistent-key"
				if base == time.Nanosecond {
					// its own scenario class: the smallest positive expiry (see meta.json, assumptions)
					class += ":expiry-1ns"
				}
				w.fail(class, "key %s (%q) has no TTL (configured expiry of this kind of entry: %v)", k, s.val, base)
				continue
			}
			if s.ttl > bound {
				w.fail("ttl-exceeds-expiry:"+kind, "key %s (%q) has TTL %v, more than the expiry allows (%v)", k, s.val, s.ttl, bound)
			}
			w.r.Probe("ttl-checked")
			if ent.dirtyK[i] {
				continue
			}
			ok := false
			switch {
			case s.val == placeholder:
				ok = ent.ver == 0
			case i == 0:
				v, parsed := parseRow(s.val)
				ok = parsed && ent.ver != 0 && sameRow(v, w.curRow(ent))
			default:
				var id any
				ok = decodeNumbers(s.val, &id) == nil && samePK(id, ent.pk) && ent.ver != 0
			}
			if !ok {
				w.fail("stale-entry-in-store:"+kind, "key %s holds %q but the database holds %+v (version 0 = no row)", k, s.val, w.curRow(ent))
			}
		}
	}
}

// quietSince: no injected failure reached a store command at or after this instant and go-zero's
// redis breaker has forgotten the earlier ones: a command sent from here on is executed and answered.
func (w *world) quietSince() time.Time {
	if w.lastFault.IsZero() {
		return w.start.Add(-time.Hour)
	}
	return w.lastFault.Add(breakerWindow)
}

// cleanerDue: the instant by which the cleaner must have made up for the failed DEL(s) of the
// row's invalidation(s): the first rung of the retry ladder whose earliest possible instant (one
// wheel tick early per rung) lies in the quiet period must succeed; every rung before it may have
// failed, each attempt lasting up to attemptMax.
func (w *world) cleanerDue(ent *entity, quiet time.Time) (time.Time, bool) {
	for i, c := range ladder {
		if ent.dirtyInv.Add(c - time.Duration(i+1)*time.Second).After(quiet) {
			return ent.dirtyRet.Add(c + time.Duration(i+1)*attemptMax + ladderSlack), true
		}
	}
	return time.Time{}, false
}

// checkDue: the cleaner's deadline for the row has passed: no key of the row whose DEL failed may
// still hold what the invalidation was to remove.
func (w *world) checkDue(ent *entity, due time.Time) {
	w.r.Probe("cleaner-deadline-checked")
	if w.cluster {
		w.r.Probe("cleaner-deadline-checked-in-cluster")
	}
	for i, k := range ent.keys() {
		s := w.snapKey(k)
		if !s.ex || !ent.dirtyK[i] {
			continue
		}
		stale := false
		switch {
		case s.val == placeholder:
			stale = ent.ver != 0
		case i == 0:
			v, ok := parseRow(s.val)
			stale = !ok || !sameRow(v, w.curRow(ent))
		default:
			stale = ent.ver == 0
		}
		if stale {
			last := "none"
			if !w.lastFault.IsZero() {
				last = w.lastFault.Sub(w.start).String()
			}
			w.fail("stale-after-cleaner-deadline", "the DEL of an invalidation of row %d did not reach the store (the call returned at %v); the cleaner's retry ladder (last store fault: %s) allows until %v, now is %v and key %s still holds the stale %q (database: %+v)",
				ent.idx, ent.dirtyRet.Sub(w.start), last, due.Sub(w.start), time.Since(w.start), k, s.val, w.curRow(ent))
		}
	}
	ent.dirtyK = [2]bool{} // from here on reads must be coherent
}

// overdue is evaluated between operations: a failed invalidation whose cleaner deadline has passed
// meanwhile.  Store faults that fire later cannot undo a retry that was due earlier.
func (w *world) overdue() {
	quiet := w.quietSince()
	for _, ent := range w.ents {
		if !ent.dirty() {
			continue
		}
		if due, ok := w.cleanerDue(ent, quiet); ok && time.Now().After(due) {
			w.r.Probe("cleaner-deadline-passed-during-history")
			w.checkDue(ent, due)
		}
	}
}

// finish: faults stop; bounded liveness of failed invalidations; a final audit through the API.
func (w *world) finish() {
	if w.aborted {
		return
	}
	for _, ru := range w.rules {
		ru.gone = true
	}
	for _, n := range w.nodes {
		n.down = simredis.None
	}
	w.overdue()
	quiet := w.quietSince()
	var deadline time.Time
	for _, ent := range w.ents {
		if !ent.dirty() {
			continue
		}
		if d, ok := w.cleanerDue(ent, quiet); ok {
			if d.After(deadline) {
				deadline = d
			}
			ent.hasDeadline = true
			w.r.Probe("cleaner-deadline-armed")
		} else {
			w.r.Probe("cleaner-ladder-exhausted")
		}
	}
	limit := 7 * time.Minute
	if w.tier == "thorough" {
		limit = 70 * time.Minute
	}
	if d := time.Until(deadline); !deadline.IsZero() && d < limit {
		if d > 0 {
			w.ops = append(w.ops, "wait for the cleaner "+d.String())
			w.r.Sleep(d)
		}
		for _, ent := range w.ents {
			if ent.dirty() && ent.hasDeadline {
				w.checkDue(ent, deadline)
			}
		}
	} else if !deadline.IsZero() {
		w.r.Probe("cleaner-deadline-too-far")
	}
	// let the breaker forget the injected failures before the audit
	if d := time.Until(quiet); d > 0 {
		w.r.Sleep(d)
	}
	// audit: one more read of every row through the API
	w.audit = true
	for _, ent := range w.ents {
		if w.aborted || w.r.Failed() {
			return
		}
		st := &step{kind: kRead, ent: ent}
		k := rPrimary
		if ent.idx%2 == 1 && !w.monc {
			k = rIndex
		}
		st.readers = []*call{{kind: k}}
		w.runSteps(st)
	}
}
