package c06

import (
	"bytes"
	"context"
	"database/sql"
	"encoding/json"
	"errors"
	"fmt"
	"io"
	"math"
	"strconv"
	"strings"
	"time"
)

// Value pools.  Draw 0 of every pool is the simple value the harness started with (small integer
// ids, short ASCII names, empty payload, expiries of seconds to minutes, the configured not-found
// error itself, unique database errors); the others are the shapes real deployments have and
// that arithmetic, number decoding and key building may trip over.

// ---------------------------------------------------------------------------------------
// the row

type nested struct {
	N   int64   `json:"n"`
	F   float64 `json:"f"`
	Sub *nested `json:"sub"` // nil: null
}

type row struct {
	ID   any    `json:"id"` // the primary key: int64 or string
	Name string `json:"name"`
	Ver  int    `json:"ver"`
	// payload: fixed per row, see payloads
	Big   int64    `json:"big"`
	U     uint64   `json:"u"`
	F     float64  `json:"f"`
	Text  string   `json:"text"`
	Ptr   *int64   `json:"ptr"`  // nil: null
	Nest  *nested  `json:"nest"` // nil: null
	Empty struct{} `json:"empty"`
	Any   any      `json:"any"` // untyped: numbers come back as json.Number through go-zero's jsonx
}

// canon is the comparison form of a row (and of any value that went through JSON): numbers as
// their digits whatever Go type holds them (int64, json.Number), maps with sorted keys.  A number
// that went through float64 on the way and lost digits shows.
func canon(v any) string {
	b, err := json.Marshal(v)
	if err != nil {
		return "!" + err.Error()
	}
	return string(b)
}

func sameRow(a, b row) bool { return canon(a) == canon(b) }

func short(s string) string {
	if len(s) > 120 {
		return fmt.Sprintf("%q...(%d bytes)", s[:100], len(s))
	}
	return strconv.Quote(s)
}

// String keeps 64 KB payloads out of messages, traces and samples.
func (r row) String() string { return short(canon(r)) }

// decodeNumbers decodes JSON keeping the digits of numbers in untyped destinations.
func decodeNumbers(data string, v any) error {
	d := json.NewDecoder(strings.NewReader(data))
	d.UseNumber()
	if err := d.Decode(v); err != nil {
		return err
	}
	if _, err := d.Token(); err != io.EOF {
		return errors.New("trailing data")
	}
	return nil
}

func makeText(n int) string {
	var b bytes.Buffer
	for i := 0; b.Len() < n; i++ {
		fmt.Fprintf(&b, "%d:\"quoted\" back\\slash <tag> & \u2028 \u00e9\u4e16\u754c \U0001F511 \t\r\n*|", i)
	}
	return b.String()
}

var longText, veryLongText = makeText(3 << 10), makeText(64 << 10)

// payloadDraw: the weights of the payloads (the 64 KB text is expensive to move around)
var payloadDraw = []int{0, 0, 0, 1, 2, 3, 4, 5, 6, 7, 1, 2, 4, 5, 7, 8}

// payloads: what a row carries besides its key, name and version.  bsonSafe: survives the trip
// through the Mongo driver's encoding too (no unsigned value above MaxInt64, no untyped documents).
var payloads = []struct {
	name     string
	bsonSafe bool
	fill     func(r *row)
}{
	{"plain", true, func(r *row) {}},
	{"big-numbers", false, func(r *row) {
		r.Big, r.U, r.F, r.Any = 1<<53+1, math.MaxUint64, 1.7976931348623157e308, int64(1<<53+1)
	}},
	{"numbers", true, func(r *row) {
		r.Big, r.U, r.F, r.Any = math.MinInt64, 1<<53+1, 5e-324, int64(math.MaxInt64)
		r.Nest = &nested{N: math.MaxInt64, F: 1e21, Sub: &nested{N: -1, F: -0.1}}
	}},
	{"long-text", true, func(r *row) { r.Text = longText }},
	{"placeholder-and-pointer", true, func(r *row) {
		p := int64(1e6)
		r.Text, r.Ptr, r.Any = "*", &p, "*"
	}},
	{"untyped-document", false, func(r *row) {
		r.Any = map[string]any{"n": int64(1e6), "list": []any{int64(1<<53 + 1), 1.5, nil, "x", map[string]any{}}, "big": uint64(math.MaxUint64)}
	}},
	{"empty-values", false, func(r *row) { r.Any, r.Nest = []any{}, &nested{} }},
	{"float-in-any", true, func(r *row) { r.Any, r.F = 1e300, 0.30000000000000004 }},
	{"very-long-text", true, func(r *row) { r.Text = veryLongText }},
}

// ---------------------------------------------------------------------------------------
// primary keys and index values

const (
	maxSafe = int64(1) << 53
)

// pkPool: nil = the small integer 101+i.
var pkPool = []any{nil, int64(999999), int64(1000000), int64(1000001), int64(math.MaxInt32), int64(math.MaxInt32) + 1, int64(math.MaxInt32) + 2,
	maxSafe - 1, maxSafe, maxSafe + 1, int64(math.MaxInt64), int64(-7), int64(math.MinInt64), int64(0),
	"12345", "007", "1e6", "9007199254740993", "a:b/c d", "\u043a\u043b\u044e\u0447-\u952e-\U0001F511", "*", "line\nbreak\r\nend", strings.Repeat("k", 5000), ""}

// namePool: "" at index 0 = the short name n<i>.
var namePool = []string{"", "two words", "tab\tname", "line\nbreak", "crlf\r\nname", "\u043a\u043b\u044e\u0447-\u952e-\U0001F511", "*", `quote"back\slash'`, strings.Repeat("long-name-", 400),
	"1000000", "9007199254740993", "{json}", " "}

func pkClass(pk any) string {
	switch v := pk.(type) {
	case int64:
		switch {
		case v < 0:
			return "negative"
		case v > maxSafe:
			return "above-2^53"
		case v >= 1000000:
			return "million-and-up"
		}
		return "small"
	case string:
		if _, err := strconv.ParseFloat(v, 64); err == nil {
			return "numeric-string"
		}
		return "string"
	}
	return "other"
}

// samePK: a primary key that came back from the cache is the one the database has - with the
// digits it had (go-zero's jsonx hands numbers of untyped destinations on as json.Number).
func samePK(got, pk any) bool {
	switch g := got.(type) {
	case json.Number:
		p, ok := pk.(int64)
		return ok && g.String() == strconv.FormatInt(p, 10)
	case int64:
		p, ok := pk.(int64)
		return ok && g == p
	case int:
		p, ok := pk.(int64)
		return ok && int64(g) == p
	case string:
		p, ok := pk.(string)
		return ok && g == p
	}
	return false
}

// ---------------------------------------------------------------------------------------
// expiries

const day = 24 * time.Hour

// longExpiries: reference data is cached for months; 100/101/102 days straddle MaxInt64/1050 ns.
var longExpiries = []time.Duration{30 * day, 100 * day, 101 * day, 102 * day, 180 * day, 365 * day, 3650 * day, 36 * time.Hour}

// oddExpiries: configured expiries that are legal (positive) and unusual: below a second - the
// statement rounds the jittered expiry UP to whole seconds, so all of these mean a TTL of 1 s (999 ms
// and 960 ms: 1 s or 2 s) -, exactly one second, just above it, and not a whole number of seconds.
// 1 ns is the smallest positive duration (what WithExpiry(1) means), 20 ns a bare small number.
var oddExpiries = []time.Duration{300 * time.Millisecond, time.Millisecond, 999 * time.Millisecond, time.Second, 1500 * time.Millisecond,
	2001 * time.Millisecond, time.Nanosecond, 20 * time.Nanosecond, 960 * time.Millisecond, time.Second + time.Nanosecond, 400 * time.Millisecond, 2500 * time.Microsecond}

func oddClass(d time.Duration) string {
	switch {
	case d < time.Second:
		return "below-1s"
	case d == time.Second:
		return "exactly-1s"
	}
	return "fractional-seconds"
}

// explicit expiries of SetWithExpire
var explicitExpiries = []time.Duration{7 * time.Second, time.Second, 1500 * time.Millisecond, 40 * time.Second, 3 * time.Minute,
	2 * time.Hour, 30 * day, 102 * day, 180 * day, 3650 * day, 300 * time.Millisecond, 2001 * time.Millisecond, time.Millisecond}

const ttlSlack = time.Microsecond // go-zero multiplies through float64

// jitter bounds in integer arithmetic (1.05 x 10 years in float64 is off by tens of nanoseconds,
// base x 105 overflows int64)
func jitMax(base time.Duration) time.Duration { return base + base/20 + ttlSlack }
func jitMin(base time.Duration) time.Duration { return base - base/20 - ttlSlack }

func ceilSec(d time.Duration) time.Duration {
	s := d / time.Second
	if d%time.Second > 0 {
		s++
	}
	return s * time.Second
}

// ---------------------------------------------------------------------------------------
// error identities

// notFoundPool: what a cache built by the harness itself may be configured with as its not-found
// error.  Index 0 = a plain custom error.
var notFoundPool = []struct {
	name string
	mk   func() error
}{
	{"custom", func() error { return errors.New("c06: no such row") }},
	{"sql.ErrNoRows", func() error { return sql.ErrNoRows }},
	{"chain-around-sql.ErrNoRows", func() error { return fmt.Errorf("c06 rows: %w", sql.ErrNoRows) }},
	{"typed-value", func() error { return notFoundErr{table: "rows"} }},
}

type notFoundErr struct{ table string }

func (e notFoundErr) Error() string { return "no row in " + e.table }

// notFoundFromDB: how the database says "no such row": the configured error, or a chain around it.
func (w *world) notFoundFromDB(ent *entity) error {
	if !w.idents || !w.t.Bool() {
		return w.errNF
	}
	w.r.Probe("not-found-wrapped-by-database")
	return fmt.Errorf("row %v: %w", ent.idx, w.errNF)
}

// lookAlike: an error that reads like "not found" but is not the configured not-found error.
func (w *world) lookAlike() error {
	if errors.Is(sql.ErrNoRows, w.errNF) || errors.Is(w.errNF, sql.ErrNoRows) {
		return errors.New("c06: no such row")
	}
	return sql.ErrNoRows
}

// injectedDBErr: the identity of an injected database error.  bare: a shared sentinel (several
// queries may return the same value).
func (w *world) injectedDBErr(n int) (err error, bare bool) {
	if !w.idents {
		return fmt.Errorf("injected database error %d", n), false
	}
	k := w.t.Intn(8)
	var base error
	switch k {
	case 0:
		return fmt.Errorf("injected database error %d", n), false
	case 1, 5:
		base = context.DeadlineExceeded // the database's own time-out, the caller's context is fine
	case 2:
		base = context.Canceled
	case 3, 6:
		base = w.lookAlike()
	case 4:
		base = sql.ErrConnDone
	default:
		base = io.ErrUnexpectedEOF
	}
	w.r.Probe("db-error-identity-" + []string{"", "deadline", "canceled", "not-found-look-alike", "conn-done", "deadline", "not-found-look-alike", "eof"}[k])
	if k >= 5 {
		w.r.Probe("db-error-bare-sentinel")
		return base, true
	}
	return fmt.Errorf("injected database error %d: %w", n, base), false
}
