package c06

import (
	"context"
	"database/sql"
	"encoding/json"
	"errors"
	"fmt"
	"os"
	"strings"
	"testing"
	"time"

	"github.com/zeromicro/go-zero/core/collection"
	"github.com/zeromicro/go-zero/core/logx"
	"github.com/zeromicro/go-zero/core/stat"
	"github.com/zeromicro/go-zero/core/stores/cache"
	"github.com/zeromicro/go-zero/core/stores/redis"
	"github.com/zeromicro/go-zero/core/stores/sqlc"
	"github.com/zeromicro/go-zero/core/stores/sqlx"
	"github.com/zeromicro/go-zero/core/syncx"

	"verifsim/simharness"
	"verifsim/simredis"
	"verifsim/simrt"
)

// C06: cache-aside store (core/stores/cache + core/stores/sqlc over the simulated Redis transport).
//
// The "database" is a harness map reached only through the closures handed to
// QueryRow / QueryRowIndex / Exec / Take; the store is a real miniredis behind the simredis
// transport.  The oracle works from what is observable: values and errors returned by the
// calls, the number and the overlap of database queries, and the content / TTL of the keys
// in the store (inspected directly between operations).

// findings that are masked while developing (VERIF_C06_MASK=class,class): the scenario is
// still generated but only counted, not reported.
var masked = map[string]bool{}

// development aid: VERIF_C06_DEBUG=1 prints every run's history to stderr
var debugOps = os.Getenv("VERIF_C06_DEBUG") != ""

func init() {
	logx.Disable()
	// stat.Report (called by the redis breaker when it drops a request and by the cleaner when it
	// gives up) rate-limits through a process-global LessExecutor keyed on timex.Now(): whether the
	// first report of a run passes or is discarded depends on earlier runs of the same process, and
	// the limiter lives in an instrumented package (one scheduling point more or less).  go-zero
	// switches the reporter off under `go test` itself (flag test.v), but that look-up runs at package
	// init, before the testing flags exist; do what it intends.
	stat.SetReporter(nil)
	for _, c := range strings.Split(os.Getenv("VERIF_C06_MASK"), ",") {
		if c = strings.TrimSpace(c); c != "" {
			masked[c] = true
		}
	}
}

// ---------------------------------------------------------------------------------------
// database stand-in

type row struct {
	ID   int64  `json:"id"`
	Name string `json:"name"`
	Ver  int    `json:"ver"`
}

var errNoSQL = errors.New("c06: the fake SqlConn executes no statements")

// fakeConn is the sqlx.SqlConn handed to sqlc; every real access goes through the closures.
type fakeConn struct{}

func (fakeConn) Exec(string, ...any) (sql.Result, error)                        { return nil, errNoSQL }
func (fakeConn) ExecCtx(context.Context, string, ...any) (sql.Result, error)    { return nil, errNoSQL }
func (fakeConn) Prepare(string) (sqlx.StmtSession, error)                       { return nil, errNoSQL }
func (fakeConn) PrepareCtx(context.Context, string) (sqlx.StmtSession, error)   { return nil, errNoSQL }
func (fakeConn) QueryRow(any, string, ...any) error                             { return errNoSQL }
func (fakeConn) QueryRowCtx(context.Context, any, string, ...any) error         { return errNoSQL }
func (fakeConn) QueryRowPartial(any, string, ...any) error                      { return errNoSQL }
func (fakeConn) QueryRowPartialCtx(context.Context, any, string, ...any) error  { return errNoSQL }
func (fakeConn) QueryRows(any, string, ...any) error                            { return errNoSQL }
func (fakeConn) QueryRowsCtx(context.Context, any, string, ...any) error        { return errNoSQL }
func (fakeConn) QueryRowsPartial(any, string, ...any) error                     { return errNoSQL }
func (fakeConn) QueryRowsPartialCtx(context.Context, any, string, ...any) error { return errNoSQL }
func (fakeConn) RawDB() (*sql.DB, error)                                        { return nil, errNoSQL }
func (fakeConn) Transact(func(sqlx.Session) error) error                        { return errNoSQL }
func (fakeConn) TransactCtx(context.Context, func(context.Context, sqlx.Session) error) error {
	return errNoSQL
}

type execResult struct{}

func (execResult) LastInsertId() (int64, error) { return 0, nil }
func (execResult) RowsAffected() (int64, error) { return 1, nil }

// ---------------------------------------------------------------------------------------
// model

type entity struct {
	idx        int
	id         int64
	name       string
	pkey, ikey string
	ver        int   // version the database holds now; 0 = no such row
	hist       []int // every state the database has held for this row, oldest first

	idxLoaded bool          // an index read loaded the row since the last invalidation (primary entry may carry the safety gap)
	customTTL time.Duration // longest explicit expiry set on the primary key since the last invalidation

	// fault-injecting members only
	dirty        bool      // an invalidation's DEL did not reach the store and none has since
	dirtyInv     time.Time // invocation instant of the first such invalidation
	dirtyRet     time.Time // return instant of the last such invalidation
	cleanerMaybe int       // invalidations after which a cleaner task may be pending
	cleanerDone  int       // cleaner DELs on this row's keys that the server executed
	hasDeadline  bool
}

func (e *entity) keys() []string { return []string{e.pkey, e.ikey} }

const (
	qPrimary = 0
	qIndex   = 1
)

// qexec is one execution of a database query closure.
type qexec struct {
	id     int
	ent    *entity
	kind   int // qPrimary | qIndex
	caller *call
	s, e   int // logical clock
	ts, te time.Time
	err    error // injected error, the not-found error or nil
	inj    bool  // err is an injected database error
	ver    int
	done   bool
}

type readKind int

const (
	rPrimary readKind = iota // CachedConn.QueryRow
	rTake                    // cache.Cache.Take (only when the harness owns the Cache value), else QueryRow
	rIndex                   // CachedConn.QueryRowIndex
	rGet                     // CachedConn.GetCache
)

var readKindNames = [...]string{"QueryRow", "Take", "QueryRowIndex", "GetCache"}

type outcome int

const (
	oRow outcome = iota
	oNotFound
	oDBErr
	oStoreErr
)

type call struct {
	id         int
	kind       readKind
	think      time.Duration
	inv, ret   int
	tinv, tret time.Time
	returned   bool
	err        error
	got        row
	out        outcome
	own        []*qexec
}

type stepKind int

const (
	kRead stepKind = iota
	kWrite
	kDelete
	kFailExec
	kSetCache
	kSetCacheExp
	kDelCache
)

var stepKindNames = [...]string{"read", "exec-upsert", "exec-delete", "exec-db-error", "set-cache", "set-cache-with-expire", "del-cache"}

type faultKind int

const (
	fNone faultKind = iota
	fErrGET
	fErrSET
	fErrDEL
	fLossy
	fLatency
)

var faultNames = [...]string{"none", "error-reply-on-GET", "error-reply-on-SET", "error-reply-on-DEL", "lossy-first-attempt", "latency"}

type snap struct {
	ex  bool
	val string
	ttl time.Duration // 0: persistent
	at  time.Time
	x   time.Time // instant at which the entry expires
}

// hitBy: an access finished before ret certainly finds the entry.
func (s snap) hitBy(ret time.Time) bool { return s.ex && (s.ttl == 0 || ret.Before(s.x)) }

// missFrom: an access started at inv (or later) certainly finds nothing, unless somebody writes.
func (s snap) missFrom(inv time.Time) bool { return !s.ex || (s.ttl > 0 && !inv.Before(s.x)) }

type step struct {
	kind    stepKind
	ent     *entity
	readers []*call
	qLat    time.Duration
	qYields int
	errLeft [2]int // injected database errors still to hand out, per query kind
	expire  time.Duration
	keyRev  bool
	direct  bool // use the cache.Cache value instead of the CachedConn

	fault      faultKind
	lossy      simredis.Kind
	lossyCmd   string
	faultExt   time.Duration // fErrDEL: the rule outlives the step by this much
	outage     bool          // the step runs while the store is down
	breakerRsk bool

	// runtime
	pre        [2]snap // primary key, index key
	tinv, tret time.Time
	cinv, cret int
	err        error
	execs      []*qexec
	rules      []*rule
	dirtyPre   bool
	pendPre    bool
	wroteVer   int
}

type rule struct {
	cmd     string
	keys    []string
	kind    simredis.Kind
	msg     string
	first   bool
	used    int
	until   time.Time
	harness bool
	delay   time.Duration
	gone    bool
}

type delExec struct {
	key     string
	at      time.Time
	clk     int
	harness bool
}

type world struct {
	r    *simrt.Run
	t    *simrt.Tape
	tier string

	srv   *simredis.Server
	tw    *collection.TimingWheel
	cc    sqlc.CachedConn
	cache cache.Cache // nil unless the harness built the node itself
	conn  fakeConn
	errNF error

	variant int
	faulty  bool
	e, nfe  time.Duration

	ents      []*entity
	byKey     map[string]*entity
	clk       int
	nVer      int
	nErr      int
	nCall     int
	gauge     map[string]int
	execs     []*qexec
	rules     []*rule
	dels      []delExec
	htask     map[int]bool
	faults    []time.Time // instants of injected store failures (for the breaker estimate)
	lastFault time.Time
	down      simredis.Kind // store outage in force: every command (handshakes excepted) fails this way
	start     time.Time
	aborted   bool
	ops       []string
}

func (w *world) tick() int { w.clk++; return w.clk }

func (w *world) fail(class, format string, a ...any) {
	if masked[class] {
		w.r.Probe("masked-finding-" + class)
		return
	}
	w.r.Fail(class, format, a...)
}

func (w *world) curRow(e *entity) row { return row{ID: e.id, Name: e.name, Ver: e.ver} }

func (w *world) keyOf(e *entity, kind int) string {
	if kind == qIndex {
		return e.ikey
	}
	return e.pkey
}

// query is the body of every database read closure.
func (w *world) query(st *step, c *call, kind int, v any) (any, error) {
	ent := st.ent
	key := w.keyOf(ent, kind)
	x := &qexec{id: len(w.execs), ent: ent, kind: kind, caller: c, s: w.tick(), ts: time.Now()}
	w.execs = append(w.execs, x)
	st.execs = append(st.execs, x)
	c.own = append(c.own, x)
	w.r.Ev("query", int64(ent.idx), int64(kind), int64(c.id))
	w.gauge[key]++
	if w.gauge[key] > 1 {
		w.fail("concurrent-queries", "key %s: database query %d (call %d) started while %d other quer(ies) of the same key are running", key, x.id, c.id, w.gauge[key]-1)
	}
	failing := st.errLeft[kind] > 0
	if failing {
		st.errLeft[kind]--
	}
	for i := 0; i < st.qYields; i++ {
		w.r.Yield()
	}
	if st.qLat > 0 {
		w.r.Sleep(st.qLat)
	}
	w.gauge[key]--
	x.e, x.te, x.done = w.tick(), time.Now(), true
	if debugOps {
		w.ops = append(w.ops, fmt.Sprintf("    query %d of call %d done seq=%d tape=%d t=%v", x.id, c.id, w.r.Seq(), w.t.Pos(), w.r.Elapsed()))
	}
	switch {
	case failing:
		w.nErr++
		x.inj = true
		x.err = fmt.Errorf("injected database error %d", w.nErr)
		w.r.Probe("db-error-injected")
		return nil, x.err
	case ent.ver == 0:
		x.err = w.errNF
		return nil, w.errNF
	}
	rp, ok := v.(*row)
	if !ok {
		w.fail("closure-destination", "query closure of key %s received a %T instead of the caller's destination", key, v)
		return nil, errors.New("bad destination")
	}
	*rp = w.curRow(ent)
	x.ver = ent.ver
	if kind == qIndex {
		ent.idxLoaded = true
	}
	return ent.id, nil
}

func toInt(v any) (int64, bool) {
	switch n := v.(type) {
	case int64:
		return n, true
	case int:
		return int64(n), true
	case float64:
		return int64(n), float64(int64(n)) == n
	case json.Number: // go-zero's jsonx decodes numbers of an `any` destination this way
		i, err := n.Int64()
		return i, err == nil
	}
	return 0, false
}

func (w *world) doRead(st *step, c *call) {
	ent := st.ent
	var v row
	switch c.kind {
	case rPrimary, rTake:
		if c.kind == rTake && w.cache != nil {
			c.err = w.cache.Take(&v, ent.pkey, func(v any) error {
				_, err := w.query(st, c, qPrimary, v)
				return err
			})
			break
		}
		c.err = w.cc.QueryRow(&v, ent.pkey, func(conn sqlx.SqlConn, v any) error {
			_, err := w.query(st, c, qPrimary, v)
			return err
		})
	case rIndex:
		c.err = w.cc.QueryRowIndex(&v, ent.ikey, func(primary any) string {
			return fmt.Sprintf("p:%v", primary)
		}, func(conn sqlx.SqlConn, v any) (any, error) {
			return w.query(st, c, qIndex, v)
		}, func(conn sqlx.SqlConn, v, primary any) error {
			if id, ok := toInt(primary); !ok || id != ent.id {
				w.fail("index-wrong-primary", "index key %s resolved to primary %v (%T), the row's primary key is %d", ent.ikey, primary, primary, ent.id)
			}
			_, err := w.query(st, c, qPrimary, v)
			return err
		})
	case rGet:
		if w.cache != nil && st.direct {
			c.err = w.cache.Get(ent.pkey, &v)
		} else {
			c.err = w.cc.GetCache(ent.pkey, &v)
		}
	}
	c.got = v
	switch {
	case c.err == nil:
		c.out = oRow
	case errors.Is(c.err, w.errNF):
		c.out = oNotFound
	case w.injected(c.err) != nil:
		c.out = oDBErr
	default:
		c.out = oStoreErr
	}
}

func (w *world) injected(err error) *qexec {
	for _, x := range w.execs {
		if x.inj && errors.Is(err, x.err) {
			return x
		}
	}
	return nil
}

var errWrite = errors.New("injected database write error")

func (w *world) doWrite(st *step) {
	ent := st.ent
	keys := ent.keys()
	if st.keyRev {
		keys[0], keys[1] = keys[1], keys[0]
	}
	switch st.kind {
	case kWrite, kDelete, kFailExec:
		_, st.err = w.cc.Exec(func(conn sqlx.SqlConn) (sql.Result, error) {
			for i := 0; i < st.qYields; i++ {
				w.r.Yield()
			}
			if st.qLat > 0 {
				w.r.Sleep(st.qLat)
			}
			switch st.kind {
			case kFailExec:
				return nil, errWrite
			case kWrite:
				w.nVer++
				ent.ver = w.nVer
			case kDelete:
				ent.ver = 0
			}
			ent.hist = append(ent.hist, ent.ver)
			st.wroteVer = ent.ver
			w.r.Ev("db-write", int64(ent.idx), int64(ent.ver))
			return execResult{}, nil
		}, keys...)
	case kSetCache:
		if w.cache != nil && st.direct {
			st.err = w.cache.Set(ent.pkey, w.curRow(ent))
		} else {
			st.err = w.cc.SetCache(ent.pkey, w.curRow(ent))
		}
	case kSetCacheExp:
		if w.cache != nil && st.direct {
			st.err = w.cache.SetWithExpire(ent.pkey, w.curRow(ent), st.expire)
		} else {
			st.err = w.cc.SetCacheWithExpire(ent.pkey, w.curRow(ent), st.expire)
		}
	case kDelCache:
		if w.cache != nil && st.direct {
			st.err = w.cache.Del(keys...)
		} else {
			st.err = w.cc.DelCache(keys...)
		}
	}
}

// ---------------------------------------------------------------------------------------
// store side: faults and observation

func (w *world) isHarness(task int) bool { return w.htask[task] }

func (ru *rule) matches(c *simredis.Cmd) bool {
	if ru.cmd != "" && ru.cmd != c.Name() {
		return false
	}
	if len(ru.keys) == 0 {
		return true
	}
	for _, a := range c.Args[1:] {
		for _, k := range ru.keys {
			if a == k {
				return true
			}
		}
	}
	return false
}

func (w *world) faultFn(c *simredis.Cmd) simredis.Fault {
	if debugOps {
		w.ops = append(w.ops, fmt.Sprintf("    send %v task=%d conn=%d seq=%d tape=%d t=%v", c.Args, c.Task, c.Conn, w.r.Seq(), w.t.Pos(), w.r.Elapsed()))
	}
	if c.Handshake() {
		return simredis.Fault{}
	}
	if w.down != simredis.None {
		w.noteFault()
		return simredis.Fault{Kind: w.down, Msg: "ERR injected store failure"}
	}
	now := time.Now()
	for _, ru := range w.rules {
		if ru.gone || (!ru.until.IsZero() && !now.Before(ru.until)) {
			continue
		}
		if ru.first && ru.used > 0 {
			continue
		}
		if ru.harness && !w.isHarness(c.Task) {
			continue
		}
		if !ru.matches(c) {
			continue
		}
		ru.used++
		if ru.kind == simredis.Latency {
			if w.t.Bool() {
				return simredis.Fault{Kind: simredis.Latency, ReqDelay: ru.delay}
			}
			return simredis.Fault{Kind: simredis.Latency, RepDelay: ru.delay}
		}
		w.noteFault()
		return simredis.Fault{Kind: ru.kind, Msg: ru.msg}
	}
	return simredis.Fault{}
}

func (w *world) noteFault() {
	now := time.Now()
	w.faults = append(w.faults, now)
	w.lastFault = now
}

// breakerRisk: enough store commands failed recently that go-zero's redis breaker may reject
// commands by itself (googleBreaker: more than 5 non-accepted requests in its 10 s window).
func (w *world) breakerRisk() bool {
	if !w.faulty {
		return false
	}
	n := 0
	now := time.Now()
	for _, at := range w.faults {
		if now.Sub(at) <= 11*time.Second {
			n++
		}
	}
	return n >= 4
}

func (w *world) onExec(e *simredis.Exec) {
	if e.Cmd.Handshake() {
		return
	}
	name := e.Cmd.Name()
	w.r.Ev("exec:"+name, int64(len(e.Cmd.Args)))
	if debugOps {
		w.ops = append(w.ops, fmt.Sprintf("    exec %v task=%d conn=%d fault=%v seq=%d tape=%d t=%v", e.Cmd.Args, e.Cmd.Task, e.Cmd.Conn, e.Fault, w.r.Seq(), w.t.Pos(), w.r.Elapsed()))
	}
	if name != "DEL" {
		return
	}
	h := w.isHarness(e.Cmd.Task)
	now, clk := time.Now(), w.tick()
	seen := map[*entity]bool{}
	for _, k := range e.Cmd.Args[1:] {
		w.dels = append(w.dels, delExec{key: k, at: now, clk: clk, harness: h})
		ent := w.byKey[k]
		if ent == nil || seen[ent] {
			continue
		}
		seen[ent] = true
		if !h {
			// a DEL sent by the cleaner reached the server: the failed invalidation is made up for
			ent.cleanerDone++
			w.r.Probe("cleaner-retry-executed")
			if ent.dirty {
				ent.dirty = false
				w.r.Probe("del-failed-and-cleaner-retried")
			}
		}
	}
}

func (w *world) snapKey(k string) snap {
	w.srv.Sync()
	mr := w.srv.MR()
	s := snap{at: time.Now()}
	if !mr.Exists(k) {
		return s
	}
	v, err := mr.Get(k)
	if err != nil {
		w.fail("store-key-type", "key %s is not a string: %v", k, err)
		return s
	}
	s.ex, s.val, s.ttl = true, v, mr.TTL(k)
	s.x = s.at.Add(s.ttl)
	return s
}

func (w *world) cleanerPending(e *entity) bool { return e.cleanerMaybe > e.cleanerDone }

// ---------------------------------------------------------------------------------------
// set-up

var expiries = []time.Duration{10 * time.Second, time.Second, 2 * time.Second, 3 * time.Second, 5 * time.Second, 20 * time.Second,
	30 * time.Second, time.Minute, 90 * time.Second, 5 * time.Minute, 1500 * time.Millisecond, 10 * time.Minute, 30 * time.Minute, time.Hour, 3 * time.Hour}
var nfExpiries = []time.Duration{5 * time.Second, time.Second, 2 * time.Second, 10 * time.Second, 2500 * time.Millisecond, time.Minute, 10 * time.Minute}

func newWorld(r *simrt.Run, tier string) *world {
	t := r.Tape
	w := &world{r: r, t: t, tier: tier, start: time.Now(), byKey: map[string]*entity{}, gauge: map[string]int{}, htask: map[int]bool{}}
	// the cleaner's wheel and task runner are package globals: rebuild them on this run's clock
	w.tw = cache.VerifResetCleaner()
	w.srv = simredis.New(r)
	w.srv.Fault = w.faultFn
	w.srv.OnExec = w.onExec
	w.faulty = t.Intn(5) >= 3
	w.variant = t.Intn(3)
	ne := len(expiries)
	if tier != "thorough" {
		ne -= 2 // hour-scale expiries only in the thorough tier (one wheel tick per virtual second)
	}
	w.e = expiries[t.Intn(ne)]
	w.nfe = nfExpiries[t.Intn(len(nfExpiries))]
	var opts []cache.Option
	switch t.Intn(3) {
	case 0:
		opts = []cache.Option{cache.WithExpiry(w.e), cache.WithNotFoundExpiry(w.nfe)}
	case 1:
		opts = []cache.Option{cache.WithNotFoundExpiry(w.nfe), cache.WithExpiry(w.e)}
	default:
		// the configured defaults: 7 days / 1 minute would need weeks of virtual time; keep the
		// not-found default only
		opts = []cache.Option{cache.WithExpiry(w.e)}
		w.nfe = time.Minute
	}
	rds := redis.New(w.srv.Addr, redis.WithHook(w.srv.Hook()))
	switch w.variant {
	case 0:
		// the harness builds the node: own barrier, own stat, own not-found error
		w.errNF = errors.New("c06: no such row")
		var st *cache.Stat
		if t.Bool() {
			st = cache.NewStat(w.srv.Addr) // starts the stat logger on the virtual clock
		} else {
			st = &cache.Stat{}
		}
		w.cache = cache.NewNode(rds, syncx.NewSingleFlight(), st, w.errNF, opts...)
		w.cc = sqlc.NewConnWithCache(w.conn, w.cache)
	case 1:
		w.errNF = sqlc.ErrNotFound
		w.cc = sqlc.NewConnWithCache(w.conn, cache.NewNode(rds, syncx.NewSingleFlight(), &cache.Stat{}, sqlc.ErrNotFound, opts...))
	default:
		// cache.New with a one-node cluster configuration.  It builds its own redis.Redis from the
		// configuration (no way to pass a hook), so the go-redis client for this address is created
		// first, with the transport hook, through rds; go-zero shares clients by address.
		w.errNF = sqlc.ErrNotFound
		if !rds.Ping() {
			r.EngineError("c06: cannot reach the simulated redis")
		}
		conf := cache.CacheConf{{RedisConf: redis.RedisConf{Host: w.srv.Addr, Type: redis.NodeType, NonBlock: t.Bool(), PingTimeout: time.Minute}, Weight: 100}}
		w.cc = sqlc.NewConn(w.conn, conf, opts...)
	}
	r.MarkBackground(func(name string) bool {
		return strings.Contains(name, "timingwheel.go") || strings.Contains(name, "cachestat.go")
	})
	n := t.Range(2, 4)
	for i := 0; i < n; i++ {
		ent := &entity{idx: i, id: int64(101 + i), name: fmt.Sprintf("n%d", i)}
		ent.pkey = fmt.Sprintf("p:%d", ent.id)
		ent.ikey = "i:" + ent.name
		if !t.Bool() {
			w.nVer++
			ent.ver = w.nVer
		}
		ent.hist = []int{ent.ver}
		w.ents = append(w.ents, ent)
		w.byKey[ent.pkey] = ent
		w.byKey[ent.ikey] = ent
	}
	return w
}

func (w *world) close() {
	w.down = simredis.None
	w.rules = nil
	w.tw.Stop()
}

// ---------------------------------------------------------------------------------------
// workload generation

func (w *world) drawLat() time.Duration {
	switch w.t.Intn(6) {
	case 0, 1, 2:
		return 0
	case 3:
		return time.Duration(w.t.Range(1, 40)) * time.Millisecond
	case 4:
		return time.Duration(w.t.Range(100, 900)) * time.Millisecond
	default:
		return time.Duration(w.t.Range(1000, 3500)) * time.Millisecond
	}
}

func (w *world) genStep(ent *entity, allowWrite bool) *step {
	t := w.t
	st := &step{ent: ent}
	k := t.Intn(14)
	if !allowWrite && k >= 7 {
		k = 0
	}
	switch {
	case k < 7:
		st.kind = kRead
	case k < 9:
		st.kind = kWrite
	case k == 9:
		st.kind = kDelete
	case k == 10:
		st.kind = kFailExec
	case k == 11:
		st.kind = kSetCache
		if t.Bool() {
			st.kind = kSetCacheExp
			st.expire = []time.Duration{7 * time.Second, time.Second, 1500 * time.Millisecond, 40 * time.Second, 3 * time.Minute}[t.Intn(5)]
		}
		if ent.ver == 0 {
			st.kind = kWrite // nothing to put into the cache: insert the row instead
		}
	default:
		st.kind = kDelCache
	}
	st.qLat = w.drawLat()
	st.qYields = t.Intn(3)
	st.keyRev = t.Bool()
	st.direct = t.Bool()
	if st.kind == kRead {
		maxG := 6
		if w.tier == "thorough" {
			maxG = 8
		}
		n := 1
		if t.Bool() {
			n = t.Range(2, maxG)
		}
		flavour := t.Intn(4) // 0 primary, 1 index, 2 mixed, 3 primary
		for i := 0; i < n; i++ {
			c := &call{}
			switch flavour {
			case 0, 3:
				c.kind = readKind(t.Intn(2))
			case 1:
				c.kind = rIndex
			default:
				c.kind = readKind(t.Intn(4))
			}
			if i > 0 && t.Chance(1, 3) {
				c.think = time.Duration(t.Range(1, 60)) * time.Millisecond
				if t.Chance(1, 4) {
					c.think = st.qLat + time.Duration(t.Range(0, 20))*time.Millisecond // arrives around the end of the first load
				}
			}
			st.readers = append(st.readers, c)
		}
		if n == 1 && t.Chance(1, 8) {
			st.readers[0].kind = rGet
		}
		if t.Chance(1, 5) {
			st.errLeft[qPrimary] = t.Range(1, 2)
		}
		if t.Chance(1, 5) {
			st.errLeft[qIndex] = t.Range(1, 2)
		}
	}
	if w.faulty {
		w.genFault(st)
	}
	return st
}

func (w *world) genFault(st *step) {
	t := w.t
	if !t.Chance(2, 5) {
		return
	}
	switch st.kind {
	case kRead:
		switch t.Intn(4) {
		case 0:
			st.fault = fErrGET
		case 1:
			st.fault = fErrSET
		case 2:
			st.fault = fLossy
			st.lossyCmd = []string{"GET", "SET"}[t.Intn(2)]
		default:
			st.fault = fLatency
		}
	case kWrite, kDelete, kDelCache:
		switch t.Intn(4) {
		case 0, 1:
			st.fault = fErrDEL
			st.faultExt = []time.Duration{0, 0, 3 * time.Second, 9 * time.Second, 80 * time.Second}[t.Intn(5)]
		case 2:
			st.fault = fLossy
			st.lossyCmd = "DEL"
		default:
			st.fault = fLatency
		}
	case kSetCache, kSetCacheExp:
		switch t.Intn(3) {
		case 0:
			st.fault = fErrSET
		case 1:
			st.fault = fLossy
			st.lossyCmd = "SET"
		default:
			st.fault = fLatency
		}
	}
	if st.fault == fLossy {
		st.lossy = []simredis.Kind{simredis.DropReply, simredis.DropRequest, simredis.ResetBefore, simredis.ResetAfter, simredis.Truncate, simredis.ErrReply}[t.Intn(6)]
	}
}

func (st *step) String() string {
	s := fmt.Sprintf("%s row%d", stepKindNames[st.kind], st.ent.idx)
	if st.kind == kRead {
		s += "["
		for i, c := range st.readers {
			if i > 0 {
				s += " "
			}
			s += readKindNames[c.kind]
		}
		s += "]"
		if st.errLeft[0]+st.errLeft[1] > 0 {
			s += fmt.Sprintf(" dberr=%v", st.errLeft)
		}
	}
	if st.kind == kSetCacheExp {
		s += " " + st.expire.String()
	}
	if st.qLat > 0 {
		s += " dblat=" + st.qLat.String()
	}
	if st.fault != fNone {
		s += " fault=" + faultNames[st.fault]
		if st.fault == fLossy {
			s += ":" + st.lossy.String() + "@" + st.lossyCmd
		}
		if st.faultExt > 0 {
			s += "+" + st.faultExt.String()
		}
	}
	if st.outage {
		s += " (store down)"
	}
	return s
}

// item generates and runs the next element of the history.
func (w *world) item() {
	t := w.t
	k := t.Intn(10)
	switch {
	case k < 5:
		w.runSteps(w.genStep(w.ents[t.Intn(len(w.ents))], true))
	case k < 8:
		w.advance()
	case k == 8:
		// operations on two different rows run concurrently
		p := t.Perm(len(w.ents))
		a := w.genStep(w.ents[p[0]], true)
		b := w.genStep(w.ents[p[1]], true)
		w.r.Probe("parallel-rows")
		w.runSteps(a, b)
	default:
		if !w.faulty {
			w.runSteps(w.genStep(w.ents[t.Intn(len(w.ents))], false))
			return
		}
		w.outage()
	}
}

// outage: the store is unusable while one or two operations run, and for a while longer.  The
// outage is realised on established connections (every command is reset while it is sent, or
// vanishes without a reply, or is answered with an error) and not by refusing dials: go-redis
// counts failed dials per client and after PoolSize (10 x GOMAXPROCS, not configurable through
// go-zero) of them starts a re-dial goroutine of its own, which makes the behaviour depend on
// GOMAXPROCS and is not a task of the simulation.
func (w *world) outage() {
	t := w.t
	n := t.Range(1, 2)
	kind := []simredis.Kind{simredis.ResetBefore, simredis.ResetBefore, simredis.ErrReply, simredis.DropRequest}[t.Intn(4)]
	w.ops = append(w.ops, "store down ("+kind.String()+" on every command)")
	w.down = kind
	for i := 0; i < n && !w.aborted; i++ {
		st := w.genStep(w.ents[t.Intn(len(w.ents))], true)
		st.fault, st.faultExt = fNone, 0
		st.outage = true
		w.runSteps(st)
	}
	ext := []time.Duration{0, 1500 * time.Millisecond, 7 * time.Second, 70 * time.Second}[t.Intn(4)]
	if ext > 0 {
		w.r.Sleep(ext)
	}
	w.noteFault()
	w.down = simredis.None
	w.ops = append(w.ops, fmt.Sprintf("store up after %v more", ext))
	w.r.Probe("store-outage")
}

// advance moves the clock: by a little, to an instant around the expiry of an entry that is in
// the store, or by a fraction / multiple of the configured expiries.
func (w *world) advance() {
	t := w.t
	var d time.Duration
	mode := t.Intn(4)
	type live struct {
		key string
		s   snap
	}
	var lives []live
	if mode >= 2 {
		for _, e := range w.ents {
			for _, k := range e.keys() {
				if s := w.snapKey(k); s.ex && s.ttl > 0 {
					lives = append(lives, live{k, s})
				}
			}
		}
	}
	switch {
	case mode == 0 || (mode >= 2 && len(lives) == 0):
		d = time.Duration(t.Range(1, 3000)) * time.Millisecond
	case mode == 1:
		base := w.e
		if t.Bool() {
			base = w.nfe
		}
		f := []float64{0.5, 0.95, 1.0, 1.05, 1.2}[t.Intn(5)]
		d = time.Duration(f*float64(base)) + []time.Duration{0, -time.Millisecond, time.Second, -time.Second}[t.Intn(4)]
	default:
		l := lives[t.Intn(len(lives))]
		d = l.s.ttl + []time.Duration{0, -1, 1, -time.Second, time.Second, -500 * time.Millisecond}[t.Intn(6)]
		w.r.Probe("advance-to-entry-expiry")
	}
	if d <= 0 {
		d = time.Millisecond
	}
	w.ops = append(w.ops, "advance "+d.String())
	w.r.Ev("advance", int64(d))
	w.r.Sleep(d)
}

// ---------------------------------------------------------------------------------------
// running steps

func (w *world) addRule(st *step, ru *rule) {
	w.rules = append(w.rules, ru)
	st.rules = append(st.rules, ru)
}

func (w *world) prepare(st *step) {
	ent := st.ent
	st.pre[0], st.pre[1] = w.snapKey(ent.pkey), w.snapKey(ent.ikey)
	st.dirtyPre = ent.dirty
	st.pendPre = w.cleanerPending(ent)
	st.breakerRsk = w.breakerRisk()
	keys := ent.keys()
	switch st.fault {
	case fErrGET:
		w.addRule(st, &rule{cmd: "GET", keys: keys, kind: simredis.ErrReply, msg: "ERR injected store failure"})
	case fErrSET:
		w.addRule(st, &rule{cmd: "SET", keys: keys, kind: simredis.ErrReply, msg: "ERR injected store failure"})
	case fErrDEL:
		w.addRule(st, &rule{cmd: "DEL", keys: keys, kind: simredis.ErrReply, msg: "ERR injected store failure"})
	case fLossy:
		ru := &rule{cmd: st.lossyCmd, keys: keys, kind: st.lossy, first: true, harness: true}
		if st.lossy == simredis.ErrReply {
			ru.msg = "LOADING Redis is loading the dataset in memory"
		}
		w.addRule(st, ru)
	case fLatency:
		w.addRule(st, &rule{keys: keys, kind: simredis.Latency, harness: true, delay: time.Duration(w.t.Range(1, 400)) * time.Millisecond})
	}
	if debugOps {
		w.ops = append(w.ops, fmt.Sprintf("@step %d tape %d t=%v", w.r.Seq(), w.t.Pos(), w.r.Elapsed()))
	}
	w.ops = append(w.ops, st.String())
	if w.r.Tracing() {
		w.r.Logf("STEP %s | db ver=%d | pre P=%+v I=%+v dirty=%v pending=%v", st, ent.ver, st.pre[0], st.pre[1], st.dirtyPre, st.pendPre)
	}
}

func (w *world) launch(st *step) []*simrt.Task {
	var ts []*simrt.Task
	ent := st.ent
	if st.kind == kRead {
		for i, c := range st.readers {
			c := c
			c.id = w.nCall
			w.nCall++
			tk := w.r.Go(fmt.Sprintf("reader%d-row%d", i, ent.idx), func() {
				if c.think > 0 {
					w.r.Sleep(c.think)
				}
				c.inv, c.tinv = w.tick(), time.Now()
				w.r.Ev("invoke", int64(c.id), int64(c.kind), int64(ent.idx))
				w.doRead(st, c)
				c.ret, c.tret, c.returned = w.tick(), time.Now(), true
				w.r.Ev("return", int64(c.id), int64(c.out), int64(c.got.Ver))
				if debugOps {
					w.ops = append(w.ops, fmt.Sprintf("    return call %d err=%v seq=%d tape=%d t=%v", c.id, c.err, w.r.Seq(), w.t.Pos(), w.r.Elapsed()))
				}
			})
			w.htask[tk.ID] = true
			ts = append(ts, tk)
		}
		return ts
	}
	tk := w.r.Go(fmt.Sprintf("writer-row%d", ent.idx), func() {
		st.cinv, st.tinv = w.tick(), time.Now()
		w.r.Ev("invoke-w", int64(st.kind), int64(ent.idx))
		w.doWrite(st)
		st.tret = time.Now()
		st.cret = w.tick()
		ok := int64(0)
		if st.err != nil {
			ok = 1
		}
		w.r.Ev("return-w", int64(st.kind), ok)
	})
	w.htask[tk.ID] = true
	return []*simrt.Task{tk}
}

func (w *world) runSteps(sts ...*step) {
	if w.aborted {
		return
	}
	for _, st := range sts {
		w.prepare(st)
	}
	var ts []*simrt.Task
	for _, st := range sts {
		ts = append(ts, w.launch(st)...)
	}
	if !w.r.JoinTimeout(2*time.Hour, ts...) {
		w.fail("operation-did-not-return", "operations still running after 2 h of virtual time: %v", w.r.AliveTasks())
		w.aborted = true
		return
	}
	for _, st := range sts {
		w.finishStep(st)
	}
	w.invariants()
}

// ---------------------------------------------------------------------------------------

func body(r *simrt.Run, tier string) {
	t := r.Tape
	w := newWorld(r, tier)
	defer w.close()
	maxItems := 10
	if tier == "thorough" {
		maxItems = 24
	}
	n := t.Range(3, maxItems)
	for i := 0; i < n && !w.aborted; i++ {
		w.item()
	}
	w.finish()
	r.Probe("oracle")
	r.Probe("nontrivial")
	if debugOps {
		fmt.Fprintf(os.Stderr, "C06 run: variant=%d faulty=%v e=%v nfe=%v elapsed=%v execs=%d\n  %s\n", w.variant, w.faulty, w.e, w.nfe, r.Elapsed(), w.srv.Executed(), strings.Join(w.ops, "\n  "))
	}
	ents := ""
	for _, e := range w.ents {
		ents += fmt.Sprintf("row%d:%v ", e.idx, e.hist)
	}
	r.Sample(map[string]any{"construction": []string{"cache.NewNode+NewConnWithCache", "sqlc.NewNodeConn", "sqlc.NewConn(one-node cluster conf)"}[w.variant],
		"fault_injecting": w.faulty, "expiry": w.e.String(), "not_found_expiry": w.nfe.String(), "rows_version_history": strings.TrimSpace(ents),
		"history": w.ops, "store_faults_fired": w.srv.FiredMap()})
}

func config(t *simrt.Tape, tier string) simrt.Config {
	c := simharness.DefaultConfig(t, tier)
	c.MaxSteps = 1500000
	c.MaxVirtual = 400 * time.Hour
	if os.Getenv("VERIF_C06_ALLSWITCH") != "" {
		c.SwitchPerMille, c.StallPerMille = 999, 0 // development aid: every scheduling point shows up in the trace
	}
	return c
}

func TestSim(t *testing.T) {
	simharness.Main(t, &simharness.Spec{ID: "C06", Body: body, Config: config, CrashIsViolation: true})
}
