package c06

import (
	"context"
	"database/sql"
	"errors"
	"fmt"
	"os"
	"sort"
	"strings"
	"testing"
	"time"

	"github.com/zeromicro/go-zero/core/collection"
	"github.com/zeromicro/go-zero/core/logx"
	"github.com/zeromicro/go-zero/core/stat"
	"github.com/zeromicro/go-zero/core/stores/cache"
	"github.com/zeromicro/go-zero/core/stores/monc"
	"github.com/zeromicro/go-zero/core/stores/redis"
	"github.com/zeromicro/go-zero/core/stores/sqlc"
	"github.com/zeromicro/go-zero/core/stores/sqlx"
	"github.com/zeromicro/go-zero/core/syncx"

	"verifsim/simharness"
	"verifsim/simredis"
	"verifsim/simrt"
)

// C06: cache-aside store (core/stores/cache + core/stores/sqlc over the simulated Redis transport).
//
// The "database" is a harness map reached only through the closures handed to
// QueryRow / QueryRowIndex / Exec / Take; the store is a real miniredis behind the simredis
// transport.  The oracle works from what is observable: values and errors returned by the
// calls, the number and the overlap of database queries, and the content / TTL of the keys
// in the store (inspected directly between operations).

// findings that are masked while developing (VERIF_C06_MASK=class,class): the scenario is
// still generated but only counted, not reported.
var masked = map[string]bool{}

// development aid: VERIF_C06_DEBUG=1 prints every run's history to stderr
var debugOps = os.Getenv("VERIF_C06_DEBUG") != ""

// development aid: VERIF_C06_NOTOUCH=1 switches the 'touchy' member off (to show that a mutant needs it)
var noTouch = os.Getenv("VERIF_C06_NOTOUCH") != ""

// development aid: VERIF_C06_NOTYPES=1 switches the 'typed' member off (to show that a mutant needs it)
var noTypes = os.Getenv("VERIF_C06_NOTYPES") != ""

func init() {
	logx.Disable()
	// stat.Report (called by the redis breaker when it drops a request and by the cleaner when it
	// gives up) rate-limits through a process-global LessExecutor keyed on timex.Now(): whether the
	// first report of a run passes or is discarded depends on earlier runs of the same process, and
	// the limiter lives in an instrumented package (one scheduling point more or less).  go-zero
	// switches the reporter off under `go test` itself (flag test.v), but that look-up runs at package
	// init, before the testing flags exist; do what it intends.
	stat.SetReporter(nil)
	for _, c := range strings.Split(os.Getenv("VERIF_C06_MASK"), ",") {
		if c = strings.TrimSpace(c); c != "" {
			masked[c] = true
		}
	}
}

// ---------------------------------------------------------------------------------------
// database stand-in

var errNoSQL = errors.New("c06: the fake SqlConn executes no statements")

// fakeConn is the sqlx.SqlConn handed to sqlc; every real access goes through the closures.  The
// statements it is asked to run directly (the *NoCache pass-through methods of CachedConn) are
// only recorded.
type fakeConn struct{ log *connLog }

type connCall struct {
	method string
	dest   any
	q      string
	args   []any
}

type connLog struct{ calls []connCall }

func (f fakeConn) rec(method string, dest any, q string, args []any) {
	if f.log != nil {
		f.log.calls = append(f.log.calls, connCall{method, dest, q, args})
	}
}

func (f fakeConn) Exec(q string, a ...any) (sql.Result, error) {
	f.rec("Exec", nil, q, a)
	return nil, errNoSQL
}
func (f fakeConn) ExecCtx(_ context.Context, q string, a ...any) (sql.Result, error) {
	f.rec("ExecCtx", nil, q, a)
	return nil, errNoSQL
}
func (fakeConn) Prepare(string) (sqlx.StmtSession, error)                     { return nil, errNoSQL }
func (fakeConn) PrepareCtx(context.Context, string) (sqlx.StmtSession, error) { return nil, errNoSQL }
func (f fakeConn) QueryRow(v any, q string, a ...any) error {
	f.rec("QueryRow", v, q, a)
	return errNoSQL
}
func (f fakeConn) QueryRowCtx(_ context.Context, v any, q string, a ...any) error {
	f.rec("QueryRowCtx", v, q, a)
	return errNoSQL
}
func (f fakeConn) QueryRowPartial(v any, q string, a ...any) error {
	f.rec("QueryRowPartial", v, q, a)
	return errNoSQL
}
func (f fakeConn) QueryRowPartialCtx(_ context.Context, v any, q string, a ...any) error {
	f.rec("QueryRowPartialCtx", v, q, a)
	return errNoSQL
}
func (f fakeConn) QueryRows(v any, q string, a ...any) error {
	f.rec("QueryRows", v, q, a)
	return errNoSQL
}
func (f fakeConn) QueryRowsCtx(_ context.Context, v any, q string, a ...any) error {
	f.rec("QueryRowsCtx", v, q, a)
	return errNoSQL
}
func (f fakeConn) QueryRowsPartial(v any, q string, a ...any) error {
	f.rec("QueryRowsPartial", v, q, a)
	return errNoSQL
}
func (f fakeConn) QueryRowsPartialCtx(_ context.Context, v any, q string, a ...any) error {
	f.rec("QueryRowsPartialCtx", v, q, a)
	return errNoSQL
}
func (fakeConn) RawDB() (*sql.DB, error)                 { return nil, errNoSQL }
func (fakeConn) Transact(func(sqlx.Session) error) error { return errNoSQL }
func (fakeConn) TransactCtx(context.Context, func(context.Context, sqlx.Session) error) error {
	return errNoSQL
}

type execResult struct{}

func (execResult) LastInsertId() (int64, error) { return 0, nil }
func (execResult) RowsAffected() (int64, error) { return 1, nil }

// ---------------------------------------------------------------------------------------
// model

type entity struct {
	idx        int
	pk         any // the primary key as the database has it: int64 or string
	name       string
	pay        int // index into payloads
	pkey, ikey string
	ver        int   // version the database holds now; 0 = no such row
	hist       []int // every state the database has held for this row, oldest first

	loadDt    destType      // the destination type through which the primary entry was written last (probes only)
	idxLoaded bool          // an index read loaded the row since the last invalidation (primary entry may carry the safety gap)
	customTTL time.Duration // longest explicit expiry set on the primary key since the last invalidation

	// fault-injecting members only; per key (primary, index): the two keys of a row travel in one
	// DEL command when one node owns both, in two commands to two nodes otherwise
	dirtyK       [2]bool   // an invalidation's DEL of this key did not reach the store and none has since
	dirtyInv     time.Time // invocation instant of the first such invalidation
	dirtyRet     time.Time // return instant of the last such invalidation
	cleanerMaybe [2]int    // invalidations after which a cleaner task may be pending for the key
	cleanerDone  [2]int    // cleaner DELs on the key that its node executed
	hasDeadline  bool
}

func (e *entity) keys() []string { return []string{e.pkey, e.ikey} }
func (e *entity) dirty() bool    { return e.dirtyK[0] || e.dirtyK[1] }

// node is one cache node: a simulated Redis server of its own.  The single-node constructions
// have exactly one.
type node struct {
	idx       int
	srv       *simredis.Server
	addr      string
	weight    int
	down      simredis.Kind // outage in force: every command (handshakes excepted) fails this way
	faults    []time.Time   // instants of injected failures (for the breaker estimate)
	nFault    int
	lastFault time.Time
}

const (
	qPrimary = 0
	qIndex   = 1
)

// qexec is one execution of a database query closure.
type qexec struct {
	id     int
	ent    *entity
	kind   int // qPrimary | qIndex
	caller *call
	s, e   int // logical clock
	ts, te time.Time
	err    error // injected error, the not-found error or nil
	inj    bool  // err is an injected database error
	bare   bool  // ... a shared sentinel value, not a unique error
	ver    int
	done   bool
}

type readKind int

const (
	rPrimary readKind = iota // CachedConn.QueryRow
	rTake                    // cache.Cache.Take (only when the harness owns the Cache value), else QueryRow
	rIndex                   // CachedConn.QueryRowIndex
	rGet                     // CachedConn.GetCache
)

var readKindNames = [...]string{"QueryRow", "Take", "QueryRowIndex", "GetCache"}

// rn: the name of the read call as the API under test has it.
func (w *world) rn(c *call) string {
	if w.monc && c.kind != rGet {
		return "FindOne"
	}
	return readKindNames[c.kind]
}

type outcome int

const (
	oRow outcome = iota
	oNotFound
	oDBErr
	oStoreErr
	oCtxErr // the error of a context that ended (classified in checkRead, when the whole group has returned)
)

type call struct {
	id         int
	kind       readKind
	think      time.Duration
	inv, ret   int
	tinv, tret time.Time
	returned   bool
	err        error
	got        row
	out        outcome
	own        []*qexec
	dbx        *qexec   // out == oDBErr: the query whose error the call returned
	withExp    bool     // rTake through Cache.TakeWithExpire
	dest       any      // the destination object of the call
	dt         destType // the Go type of the destination object handed to the read (member 'typed', dest_test.go)
	shape      string   // what the destination holds is not a row at all (why)
	cx         ctxPlan  // the request context of the call

	// what the caller does with its destination object (member 'touchy', touch_test.go); all zero: a
	// fresh zero object for every read, left alone once the read returned
	edit     int   // once the read returned the caller writes to the object it received (mask of edit*)
	editWait int   // ... 0 at once, 1 after a yield, 2 after a few milliseconds
	prefill  bool  // the destination handed to the read holds another row (every field set)
	next     *call // the caller's next read, run by the same task
	nextSt   *step // ... and the step that read belongs to (this one, or a read of another row)
	chained  bool  // this call is the next read of another call
	reuse    int   // chained: 0 a fresh object, 1 the object of the previous read as it is, 2 that object reset to the zero row
}

type stepKind int

const (
	kRead stepKind = iota
	kWrite
	kDelete
	kFailExec
	kSetCache
	kSetCacheExp
	kDelCache
	kNoCache
)

var stepKindNames = [...]string{"read", "exec-upsert", "exec-delete", "exec-db-error", "set-cache", "set-cache-with-expire", "del-cache", "no-cache-pass-through"}

var noCacheNames = [...]string{"QueryRowNoCache", "ExecNoCache", "QueryRowsNoCache", "QueryRowPartialNoCache", "QueryRowsPartialNoCache"}
var noCacheConnMethods = [...]string{"QueryRowCtx", "ExecCtx", "QueryRowsCtx", "QueryRowPartialCtx", "QueryRowsPartialCtx"}

type faultKind int

const (
	fNone faultKind = iota
	fErrGET
	fErrSET
	fErrDEL
	fLossy
	fLatency
)

var faultNames = [...]string{"none", "error-reply-on-GET", "error-reply-on-SET", "error-reply-on-DEL", "lossy-first-attempt", "latency"}

type snap struct {
	ex  bool
	val string
	ttl time.Duration // 0: persistent
	at  time.Time
	x   time.Time // instant at which the entry expires
}

// hitBy: an access finished before ret certainly finds the entry.
func (s snap) hitBy(ret time.Time) bool { return s.ex && (s.ttl == 0 || ret.Before(s.x)) }

// missFrom: an access started at inv (or later) certainly finds nothing, unless somebody writes.
func (s snap) missFrom(inv time.Time) bool { return !s.ex || (s.ttl > 0 && !inv.Before(s.x)) }

type step struct {
	kind    stepKind
	ent     *entity
	more    []*entity // further rows written / invalidated by the same call (kWrite, kDelete, kDelCache)
	keyList []string  // the keys handed to the call when more than one row is involved
	nocache int       // kNoCache: which pass-through method
	only    int       // kDelCache of a single row: 1 + index of the only key handed to the call (0: both)
	readers []*call
	qLat    time.Duration
	qYields int
	errLeft [2]int // injected database errors still to hand out, per query kind
	expire  time.Duration
	keyRev  bool
	direct  bool // use the cache.Cache value instead of the CachedConn
	follow  bool // a read of another row added for the next read(s) of callers of this batch (touch_test.go)

	fault      faultKind
	lossy      simredis.Kind
	lossyCmd   string
	faultExt   time.Duration   // fErrDEL: the rule outlives the step by this much
	outK       map[string]bool // keys whose node is down while the step runs
	breakerRsk bool

	// per node, at the start of the step
	nfPre     []int
	riskPre   []bool
	downPre   []bool
	otherDown bool // a node that owns none of the step's keys is down
	taskID    int
	connPre   int

	// runtime
	pre        [2]snap // primary key, index key
	tinv, tret time.Time
	cinv, cret int
	err        error
	execs      []*qexec
	rules      []*rule
	dirtyPre   bool
	pendPre    bool
	wroteVer   int
	cx         ctxPlan // the request context of the call (writes; a read has one per reader)
	dbErr      error   // Exec: what the database closure returned

	// monc member
	monc        bool
	mon         monMethod // the write method of monc.Model that carries the step
	upsert      bool      // ... is called with the upsert option
	noDoc       bool      // set by the oracle: the step is a find-and-modify that was answered "no document" and changed nothing
	noMatch     bool      // a find-and-modify that finds no document and does not upsert: no effect, the not-found error
	upsertNoDoc bool      // a find-and-modify that upserted: the write took effect, the result is "no document" (there was none before)
	monBefore   row       // the document as it was before the write
	monRes      any       // what the stub collection returned
	monGot      any       // what monc.Model returned
	monV        row       // find-and-modify: the destination after the call
}

type rule struct {
	cmd     string
	keys    []string
	kind    simredis.Kind
	msg     string
	first   bool
	used    int
	until   time.Time
	harness bool
	delay   time.Duration
	gone    bool
}

type delExec struct {
	key     string
	at      time.Time
	clk     int
	harness bool
}

func (st *step) ents() []*entity { return append([]*entity{st.ent}, st.more...) }

// out: the node owning key k is down for the whole step
func (st *step) out(k string) bool { return st.outK[k] }
func (st *step) anyOut() bool      { return len(st.outK) > 0 }

type world struct {
	r    *simrt.Run
	t    *simrt.Tape
	tier string

	nodes   []*node
	owner   map[string]*node // the node that serves a key (cluster: as observed, see observe)
	cluster bool
	pfx     string // run-specific part of the key names (cluster: moves the keys around the ring)
	tw      *collection.TimingWheel
	cc      sqlc.CachedConn
	cache   cache.Cache // nil unless the harness built the cache value itself
	conn    fakeConn
	errNF   error
	optDesc string

	variant int
	faulty  bool
	ctxy    bool // request contexts may end while (or before) an operation runs
	idents  bool // error identities are drawn (wrapped not-found, sentinel / look-alike database errors)
	monc    bool // the cache-aside API under test is monc.Model (Mongo cached model) instead of sqlc.CachedConn
	touchy  bool // readers write to, re-use and pre-fill their destination objects (touch_test.go)
	typed   bool // readers hand in destination objects of different Go types (dest_test.go)
	audit   bool // the closing audit is running: plain reads
	objs    []*tracked
	mm      *monc.Model
	e, nfe  time.Duration
	maxJump time.Duration // longest single clock advance (one wheel tick per virtual second)

	ents      []*entity
	byKey     map[string]*entity
	clk       int
	nVer      int
	nErr      int
	nCall     int
	gauge     map[string]int
	execs     []*qexec
	rules     []*rule
	dels      []delExec
	delSent   []delExec // DEL commands sent (onExec records the executed ones in dels)
	htask     map[int]bool
	taskCmds  map[int]int // store commands sent, by task
	lastFault time.Time
	start     time.Time
	aborted   bool
	ops       []string
}

func (w *world) tick() int { w.clk++; return w.clk }

func (w *world) fail(class, format string, a ...any) {
	for i, x := range a {
		if str, ok := x.(string); ok && len(str) > 160 {
			a[i] = fmt.Sprintf("%s...(%d bytes)", str[:100], len(str)) // keys and values of several KB
		}
	}
	if masked[class] {
		w.r.Probe("masked-finding-" + class)
		return
	}
	w.r.Fail(class, format, a...)
}

func (w *world) curRow(e *entity) row { return w.rowAt(e, e.ver) }

// rowAt: the row as the database held it at version ver.
func (w *world) rowAt(e *entity, ver int) row {
	r := row{ID: e.pk, Name: e.name, Ver: ver}
	payloads[e.pay].fill(&r)
	return r
}

func (w *world) keyOf(e *entity, kind int) string {
	if kind == qIndex {
		return e.ikey
	}
	return e.pkey
}

// query is the body of every database read closure.
func (w *world) query(ctx context.Context, st *step, c *call, kind int, v any) (any, error) {
	ent := st.ent
	key := w.keyOf(ent, kind)
	x := &qexec{id: len(w.execs), ent: ent, kind: kind, caller: c, s: w.tick(), ts: time.Now()}
	w.execs = append(w.execs, x)
	st.execs = append(st.execs, x)
	c.own = append(c.own, x)
	w.r.Ev("query", int64(ent.idx), int64(kind), int64(c.id))
	w.gauge[key]++
	if w.gauge[key] > 1 {
		w.fail("concurrent-queries", "key %s: database query %d (call %d) started while %d other quer(ies) of the same key are running", key, x.id, c.id, w.gauge[key]-1)
	}
	failing := st.errLeft[kind] > 0
	if failing {
		st.errLeft[kind]--
	}
	// a database that honours the request context gives up a statement whose context is done
	aborted := c.cx.aborts(ctx)
	if aborted == nil {
		for i := 0; i < st.qYields; i++ {
			w.r.Yield()
		}
		if st.qLat > 0 {
			w.r.Sleep(st.qLat)
		}
		if aborted = c.cx.aborts(ctx); aborted == nil && !failing {
			c.cx.inDB(w) // the row is read: the context may end now, the closure still returns what it read
		}
	}
	w.gauge[key]--
	x.e, x.te, x.done = w.tick(), time.Now(), true
	if debugOps {
		w.ops = append(w.ops, fmt.Sprintf("    query %d of call %d done seq=%d tape=%d t=%v", x.id, c.id, w.r.Seq(), w.t.Pos(), w.r.Elapsed()))
	}
	switch {
	case aborted != nil:
		w.nErr++
		x.inj = true
		x.err = fmt.Errorf("injected database error %d: statement given up: %w", w.nErr, aborted)
		w.r.Probe("db-query-aborted-by-context")
		return nil, x.err
	case failing:
		w.nErr++
		x.inj = true
		x.err, x.bare = w.injectedDBErr(w.nErr)
		w.r.Probe("db-error-injected")
		return nil, x.err
	case ent.ver == 0:
		x.err = w.errNF
		return nil, w.notFoundFromDB(ent)
	}
	// the closure is handed the destination of the call it runs for (monc: the stub collection's own
	// document, which the driver then decodes into the destination)
	if (!w.monc && c.dest != nil && v != c.dest) || !fillDest(v, w.curRow(ent)) {
		w.fail("closure-destination", "query closure of key %s received a %T instead of the caller's destination (%T)", key, v, c.dest)
		return nil, errors.New("bad destination")
	}
	x.ver = ent.ver
	if kind == qIndex {
		ent.idxLoaded = true
	}
	return ent.pk, nil
}

// doRead: one read call with the destination v.  What the caller received is recorded (a deep
// copy) the moment the call returns.
func (w *world) doRead(st *step, c *call, v any) {
	ent := st.ent
	c.dest = v
	ctx := c.cx.open(w)
	if w.monc {
		c.err = w.monRead(ctx, st, c, v)
		w.classify(ent, c, v)
		c.cx.close()
		return
	}
	checkExpire := func(expire time.Duration) {
		// the expiry handed to the loader is the one the entry is going to be written with
		if expire < jitMin(w.e)-time.Millisecond || expire > jitMax(w.e)+time.Millisecond {
			w.fail("take-with-expire:expiry-out-of-bounds", "TakeWithExpire(%s) handed the expiry %v to the loader; the configured expiry is %v (+/-5%%)", ent.pkey, expire, w.e)
		}
		w.r.Probe("take-with-expire")
	}
	// the keyer is what generated model code uses: prefix + %v of the primary key.  The key it builds
	// from the primary key that the cache hands it must be the row's primary cache key: an entry
	// under any other key is invalidated by nobody
	keyer := func(primary any) string {
		k := fmt.Sprintf("p%s:%v", w.pfx, primary)
		if k != ent.pkey {
			w.fail("index-wrong-primary:key", "index key %s: the keyer was handed the primary %v (%T) and builds the cache key %s; the row's primary key is %v (%T), cached under %s", short(ent.ikey), primary, primary, short(k), ent.pk, ent.pk, short(ent.pkey))
		}
		return k
	}
	checkPrimary := func(primary any) {
		if !samePK(primary, ent.pk) {
			w.fail("index-wrong-primary", "index key %s resolved to primary %v (%T), the row's primary key is %v (%T)", short(ent.ikey), primary, primary, ent.pk, ent.pk)
		}
	}
	switch c.kind {
	case rPrimary, rTake:
		if c.kind == rTake && w.cache != nil {
			switch {
			case c.withExp && ctx == nil:
				c.err = w.cache.TakeWithExpire(v, ent.pkey, func(v any, expire time.Duration) error {
					checkExpire(expire)
					_, err := w.query(nil, st, c, qPrimary, v)
					return err
				})
			case c.withExp:
				c.err = w.cache.TakeWithExpireCtx(ctx, v, ent.pkey, func(v any, expire time.Duration) error {
					checkExpire(expire)
					_, err := w.query(ctx, st, c, qPrimary, v)
					return err
				})
			case ctx == nil:
				c.err = w.cache.Take(v, ent.pkey, func(v any) error {
					_, err := w.query(nil, st, c, qPrimary, v)
					return err
				})
			default:
				c.err = w.cache.TakeCtx(ctx, v, ent.pkey, func(v any) error {
					_, err := w.query(ctx, st, c, qPrimary, v)
					return err
				})
			}
			break
		}
		if ctx == nil {
			c.err = w.cc.QueryRow(v, ent.pkey, func(conn sqlx.SqlConn, v any) error {
				_, err := w.query(nil, st, c, qPrimary, v)
				return err
			})
			break
		}
		// the closures use the context go-zero hands them: that is what a driver would see
		c.err = w.cc.QueryRowCtx(ctx, v, ent.pkey, func(ctx context.Context, conn sqlx.SqlConn, v any) error {
			_, err := w.query(ctx, st, c, qPrimary, v)
			return err
		})
	case rIndex:
		if ctx == nil {
			c.err = w.cc.QueryRowIndex(v, ent.ikey, keyer, func(conn sqlx.SqlConn, v any) (any, error) {
				return w.query(nil, st, c, qIndex, v)
			}, func(conn sqlx.SqlConn, v, primary any) error {
				checkPrimary(primary)
				_, err := w.query(nil, st, c, qPrimary, v)
				return err
			})
			break
		}
		c.err = w.cc.QueryRowIndexCtx(ctx, v, ent.ikey, keyer, func(ctx context.Context, conn sqlx.SqlConn, v any) (any, error) {
			return w.query(ctx, st, c, qIndex, v)
		}, func(ctx context.Context, conn sqlx.SqlConn, v, primary any) error {
			checkPrimary(primary)
			_, err := w.query(ctx, st, c, qPrimary, v)
			return err
		})
	case rGet:
		switch direct := w.cache != nil && st.direct; {
		case direct && ctx == nil:
			c.err = w.cache.Get(ent.pkey, v)
		case direct:
			c.err = w.cache.GetCtx(ctx, ent.pkey, v)
		case ctx == nil:
			c.err = w.cc.GetCache(ent.pkey, v)
		default:
			c.err = w.cc.GetCacheCtx(ctx, ent.pkey, v)
		}
	}
	w.classify(ent, c, v)
	c.cx.close()
}

func (w *world) classify(ent *entity, c *call, v any) {
	c.got, c.shape = projectDest(v)
	switch {
	case c.err == nil:
		c.out = oRow
	case errors.Is(c.err, w.errNF):
		c.out = oNotFound
	case w.injectedFor(ent, c, c.err) != nil:
		c.dbx = w.injectedFor(ent, c, c.err)
		c.out = oDBErr
	default:
		c.out = oStoreErr
	}
	if w.cache != nil && w.cache.IsNotFound(c.err) != (c.out == oNotFound) {
		w.fail("is-not-found-mismatch", "call %d (%s) returned %v; Cache.IsNotFound says %v, the configured not-found error is %q", c.id, w.rn(c), c.err, w.cache.IsNotFound(c.err), w.errNF)
	}
}

// injectedFor: the injected database error that call c returned.  A query of its own first, then
// one of a call that overlapped it on the same row (shared flight); a unique error matches wherever
// it was made (and is then judged unattributable), a bare sentinel only where it can have come from.
func (w *world) injectedFor(ent *entity, c *call, err error) *qexec {
	if err == nil {
		return nil
	}
	var other *qexec
	for i := len(w.execs) - 1; i >= 0; i-- {
		x := w.execs[i]
		if !x.inj || !errors.Is(err, x.err) {
			continue
		}
		l := x.caller
		if l != c && x.bare && c.kind == rGet {
			continue // GetCache shares nobody's flight: the same sentinel from the store (an ended context)
		}
		if l == c || (x.ent == ent && (!l.returned || c.inv < l.ret)) {
			return x
		}
		if !x.bare && other == nil {
			other = x
		}
	}
	return other
}

var errWrite = errors.New("injected database write error")

func (w *world) doWrite(st *step) {
	ent := st.ent
	keys := ent.keys()
	if st.keyRev {
		keys[0], keys[1] = keys[1], keys[0]
	}
	if len(st.more) > 0 {
		keys = st.keyList
	}
	if st.kind == kDelCache && st.only > 0 {
		keys = []string{ent.keys()[st.only-1]}
	}
	var ctx context.Context
	if st.kind != kNoCache {
		ctx = st.cx.open(w)
	}
	if w.monc {
		w.monWrite(ctx, st, keys)
		st.cx.close()
		return
	}
	switch st.kind {
	case kNoCache:
		st.connPre = len(w.conn.log.calls)
		q := fmt.Sprintf("statement %d for row ?", w.tick())
		var v row
		var vs []row
		switch st.nocache {
		case 0:
			st.err = w.cc.QueryRowNoCache(&v, q, ent.pk)
		case 1:
			_, st.err = w.cc.ExecNoCache(q, ent.pk)
		case 2:
			st.err = w.cc.QueryRowsNoCache(&vs, q, ent.pk)
		case 3:
			st.err = w.cc.QueryRowPartialNoCache(&v, q, ent.pk)
		default:
			st.err = w.cc.QueryRowsPartialNoCache(&vs, q, ent.pk)
		}
		calls := w.conn.log.calls[st.connPre:]
		if len(calls) != 1 || calls[0].method != noCacheConnMethods[st.nocache] || calls[0].q != q || len(calls[0].args) != 1 || calls[0].args[0] != ent.pk {
			w.fail("no-cache-pass-through", "%s(%q, %v) reached the database connection as %+v", noCacheNames[st.nocache], q, ent.pk, calls)
		}
	case kWrite, kDelete, kFailExec:
		exec := func(ctx context.Context) (sql.Result, error) {
			if err := w.dbWrite(ctx, st); err != nil {
				return nil, err
			}
			return execResult{}, nil
		}
		if ctx == nil {
			_, st.err = w.cc.Exec(func(conn sqlx.SqlConn) (sql.Result, error) { return exec(nil) }, keys...)
		} else {
			_, st.err = w.cc.ExecCtx(ctx, func(ctx context.Context, conn sqlx.SqlConn) (sql.Result, error) { return exec(ctx) }, keys...)
		}
	case kSetCache:
		switch direct := w.cache != nil && st.direct; {
		case direct && ctx == nil:
			st.err = w.cache.Set(ent.pkey, w.curRow(ent))
		case direct:
			st.err = w.cache.SetCtx(ctx, ent.pkey, w.curRow(ent))
		case ctx == nil:
			st.err = w.cc.SetCache(ent.pkey, w.curRow(ent))
		default:
			st.err = w.cc.SetCacheCtx(ctx, ent.pkey, w.curRow(ent))
		}
	case kSetCacheExp:
		switch direct := w.cache != nil && st.direct; {
		case direct && ctx == nil:
			st.err = w.cache.SetWithExpire(ent.pkey, w.curRow(ent), st.expire)
		case direct:
			st.err = w.cache.SetWithExpireCtx(ctx, ent.pkey, w.curRow(ent), st.expire)
		case ctx == nil:
			st.err = w.cc.SetCacheWithExpire(ent.pkey, w.curRow(ent), st.expire)
		default:
			st.err = w.cc.SetCacheWithExpireCtx(ctx, ent.pkey, w.curRow(ent), st.expire)
		}
	case kDelCache:
		switch direct := w.cache != nil && st.direct; {
		case direct && ctx == nil:
			st.err = w.cache.Del(keys...)
		case direct:
			st.err = w.cache.DelCtx(ctx, keys...)
		case ctx == nil:
			st.err = w.cc.DelCache(keys...)
		default:
			st.err = w.cc.DelCacheCtx(ctx, keys...)
		}
	}
	st.cx.close()
}

// dbWrite is the body of every database write (the Exec closure of sqlc, the write methods of the
// stub collection of monc): latency, context handling, injected failure, effect.  nil: the write
// took effect.
func (w *world) dbWrite(ctx context.Context, st *step) error {
	// a database that honours the request context gives up a statement whose context is done
	if err := st.cx.aborts(ctx); err != nil {
		return w.abortedWrite(st, err)
	}
	for i := 0; i < st.qYields; i++ {
		w.r.Yield()
	}
	if st.qLat > 0 {
		w.r.Sleep(st.qLat)
	}
	if err := st.cx.aborts(ctx); err != nil {
		return w.abortedWrite(st, err)
	}
	if st.kind == kFailExec {
		st.dbErr = errWrite
		return errWrite
	}
	if st.noMatch {
		// a find-and-modify that matches no document (and does not upsert) changes nothing and says so
		st.dbErr = w.errNF
		w.r.Probe("db-write-matched-no-document")
		return w.errNF
	}
	for _, ent := range st.ents() {
		if st.kind == kWrite {
			w.nVer++
			ent.ver = w.nVer
		} else {
			ent.ver = 0
		}
		ent.hist = append(ent.hist, ent.ver)
		w.r.Ev("db-write", int64(ent.idx), int64(ent.ver))
	}
	st.wroteVer = st.ent.ver
	// the write took effect: whatever becomes of the context now, the database reports success
	st.cx.inDB(w)
	return nil
}

// abortedWrite: the database gave the statement up, nothing was written.
func (w *world) abortedWrite(st *step, cause error) error {
	w.nErr++
	st.dbErr = fmt.Errorf("injected database error %d: statement given up: %w", w.nErr, cause)
	w.r.Probe("db-write-aborted-by-context")
	return st.dbErr
}

// ---------------------------------------------------------------------------------------
// store side: faults and observation

func (w *world) isHarness(task int) bool { return w.htask[task] }

func (ru *rule) matches(c *simredis.Cmd) bool {
	if ru.cmd != "" && ru.cmd != c.Name() {
		return false
	}
	if len(ru.keys) == 0 {
		return true
	}
	for _, a := range c.Args[1:] {
		for _, k := range ru.keys {
			if a == k {
				return true
			}
		}
	}
	return false
}

// observe learns which node serves a key from where the cache sends the commands that read or
// write it, and holds the cache to it: whatever the dispatch rule is, a key that is looked up on
// one node and stored on another is never found again.  (A DEL reaching a node that does not hold
// the key is harmless and only counted.)
func (w *world) observe(n *node, c *simredis.Cmd) {
	name := c.Name()
	if len(c.Args) < 2 || name == "PING" {
		return
	}
	if name == "DEL" {
		h, clk := w.isHarness(c.Task), w.tick()
		for _, k := range c.Args[1:] {
			if o := w.owner[k]; o != nil && o != n {
				w.r.Probe("del-sent-to-foreign-node")
			}
			// a DEL that left the client (it may still be lost, refused or answered with an error)
			w.delSent = append(w.delSent, delExec{key: k, clk: clk, harness: h})
		}
		return
	}
	k := c.Args[1]
	if w.byKey[k] == nil {
		return
	}
	switch o := w.owner[k]; {
	case o == nil:
		w.owner[k] = n
	case o != n:
		w.fail("key-dispatched-to-two-nodes", "%s %s was sent to node %d (%s); the key has been served by node %d (%s) before", name, k, n.idx, n.addr, o.idx, o.addr)
	}
}

func (w *world) faultFn(n *node, c *simredis.Cmd) simredis.Fault {
	if debugOps {
		w.ops = append(w.ops, fmt.Sprintf("    send node%d %v task=%d conn=%d seq=%d tape=%d t=%v", n.idx, c.Args, c.Task, c.Conn, w.r.Seq(), w.t.Pos(), w.r.Elapsed()))
	}
	if c.Handshake() {
		return simredis.Fault{}
	}
	w.taskCmds[c.Task]++
	w.observe(n, c)
	if n.down != simredis.None {
		w.noteFault(n)
		return simredis.Fault{Kind: n.down, Msg: "ERR injected store failure"}
	}
	now := time.Now()
	for _, ru := range w.rules {
		if ru.gone || (!ru.until.IsZero() && !now.Before(ru.until)) {
			continue
		}
		if ru.first && ru.used > 0 {
			continue
		}
		if ru.harness && !w.isHarness(c.Task) {
			continue
		}
		if !ru.matches(c) {
			continue
		}
		ru.used++
		if ru.kind == simredis.Latency {
			if w.t.Bool() {
				return simredis.Fault{Kind: simredis.Latency, ReqDelay: ru.delay}
			}
			return simredis.Fault{Kind: simredis.Latency, RepDelay: ru.delay}
		}
		w.noteFault(n)
		return simredis.Fault{Kind: ru.kind, Msg: ru.msg}
	}
	return simredis.Fault{}
}

func (w *world) noteFault(n *node) {
	now := time.Now()
	n.faults = append(n.faults, now)
	n.lastFault = now
	n.nFault++
	w.lastFault = now
}

// breakerRisk: enough commands to the node failed recently that go-zero's redis breaker may reject
// commands by itself (googleBreaker: more than 5 non-accepted requests in its 10 s window).
func (w *world) breakerRisk(n *node) bool {
	cnt := 0
	now := time.Now()
	for _, at := range n.faults {
		// (an injected failure is noted when the command is sent; a lost request or reply fails the
		// command - and is counted by the breaker - only a read time-out of 3 s later)
		if now.Sub(at) <= breakerWindow {
			cnt++
		}
	}
	return cnt >= 4
}

// riskEnt: breakerRisk for a node that owns one of the row's keys.
func (w *world) riskEnt(e *entity) bool {
	return w.breakerRisk(w.ownerOf(e.pkey)) || w.breakerRisk(w.ownerOf(e.ikey))
}

func (w *world) ownerOf(k string) *node {
	if n := w.owner[k]; n != nil {
		return n
	}
	return w.nodes[0]
}

func keyIdx(e *entity, k string) int {
	if k == e.ikey {
		return 1
	}
	return 0
}

func (w *world) onExec(n *node, e *simredis.Exec) {
	if e.Cmd.Handshake() {
		return
	}
	name := e.Cmd.Name()
	w.r.Ev("exec:"+name, int64(len(e.Cmd.Args)), int64(n.idx))
	if debugOps {
		w.ops = append(w.ops, fmt.Sprintf("    exec node%d %v task=%d conn=%d fault=%v seq=%d tape=%d t=%v", n.idx, e.Cmd.Args, e.Cmd.Task, e.Cmd.Conn, e.Fault, w.r.Seq(), w.t.Pos(), w.r.Elapsed()))
	}
	if name != "DEL" {
		return
	}
	h := w.isHarness(e.Cmd.Task)
	now, clk := time.Now(), w.tick()
	for _, k := range e.Cmd.Args[1:] {
		ent := w.byKey[k]
		if ent == nil || w.ownerOf(k) != n {
			continue // a DEL on a node that does not hold the key deletes nothing
		}
		w.dels = append(w.dels, delExec{key: k, at: now, clk: clk, harness: h})
		if !h {
			// a DEL sent by the cleaner reached the key's node: the failed invalidation is made up for
			j := keyIdx(ent, k)
			ent.cleanerDone[j]++
			w.r.Probe("cleaner-retry-executed")
			if ent.dirtyK[j] {
				ent.dirtyK[j] = false
				w.r.Probe("del-failed-and-cleaner-retried")
			}
		}
	}
}

func (w *world) snapKey(k string) snap {
	srv := w.ownerOf(k).srv
	srv.Sync()
	mr := srv.MR()
	s := snap{at: time.Now()}
	if !mr.Exists(k) {
		return s
	}
	v, err := mr.Get(k)
	if err != nil {
		w.fail("store-key-type", "key %s is not a string: %v", k, err)
		return s
	}
	s.ex, s.val, s.ttl = true, v, mr.TTL(k)
	s.x = s.at.Add(s.ttl)
	return s
}

func (w *world) cleanerPending(e *entity) bool {
	return e.cleanerMaybe[0] > e.cleanerDone[0] || e.cleanerMaybe[1] > e.cleanerDone[1]
}

// clean: nothing was injected on the node since the step was prepared, it is up, its breaker
// cannot have an opinion, and no request context of the step ended while its call was running:
// whatever the step had to send there was sent, executed and answered.
func (w *world) clean(st *step, n *node) bool {
	return !st.downPre[n.idx] && !st.riskPre[n.idx] && n.nFault == st.nfPre[n.idx] && n.down == simredis.None && !w.breakerRisk(n) && !st.ctxDied()
}

// ---------------------------------------------------------------------------------------
// set-up

var expiries = []time.Duration{10 * time.Second, time.Second, 2 * time.Second, 3 * time.Second, 5 * time.Second, 20 * time.Second,
	30 * time.Second, time.Minute, 90 * time.Second, 5 * time.Minute, 1500 * time.Millisecond, 10 * time.Minute, 30 * time.Minute, time.Hour, 3 * time.Hour}
var nfExpiries = []time.Duration{5 * time.Second, time.Second, 2 * time.Second, 10 * time.Second, 2500 * time.Millisecond, time.Minute, 10 * time.Minute}

// newNode takes a simulated server for the run.  addr "" = the server's own run-unique address.
func (w *world) newNode(addr string, weight int) *node {
	n := &node{idx: len(w.nodes), srv: simredis.New(w.r), addr: addr, weight: weight}
	if addr == "" {
		n.addr = n.srv.Addr
	}
	n.srv.Fault = func(c *simredis.Cmd) simredis.Fault { return w.faultFn(n, c) }
	n.srv.OnExec = func(e *simredis.Exec) { w.onExec(n, e) }
	w.nodes = append(w.nodes, n)
	return n
}

const defaultExpiry = 7 * 24 * time.Hour // documented default of the cache options (readme / cacheopt.go)

func newWorld(r *simrt.Run, tier string) *world {
	t := r.Tape
	w := &world{r: r, t: t, tier: tier, start: time.Now(), byKey: map[string]*entity{}, gauge: map[string]int{}, htask: map[int]bool{},
		owner: map[string]*node{}, taskCmds: map[int]int{}}
	w.conn = fakeConn{log: &connLog{}}
	// the cleaner's wheel and task runner are package globals: rebuild them on this run's clock
	w.tw = cache.VerifResetCleaner()
	// go-zero shares go-redis clients by address for the life of the process; the cluster mode uses
	// addresses that depend on the tape only and may therefore come back
	redis.VerifC06ResetClients()
	w.faulty = t.Intn(5) >= 3
	w.ctxy = t.Intn(5) >= 3
	if w.ctxy {
		r.Probe("ctx-member")
	}
	w.monc = t.Intn(4) == 3
	if w.monc {
		r.Probe("monc-member")
	}
	w.idents = t.Intn(3) == 2
	if w.idents {
		r.Probe("error-identities-member")
	}
	w.touchy = t.Intn(5) >= 3 && !noTouch
	if w.touchy {
		r.Probe("touchy-member")
	}
	w.typed = t.Intn(5) >= 3 && !noTypes
	if w.typed {
		r.Probe("typed-member")
	}
	w.variant = t.Intn(4)
	w.cluster = w.variant == 3
	ne := len(expiries)
	w.maxJump = 3 * time.Hour
	if tier != "thorough" {
		ne -= 2 // hour-scale expiries only in the thorough tier (one wheel tick per virtual second)
		w.maxJump = 30 * time.Minute
	}
	w.e = expiries[t.Intn(ne)]
	w.nfe = nfExpiries[t.Intn(len(nfExpiries))]
	// months and years (nobody waits for such an entry to expire; its TTL is what is checked)
	if t.Intn(10) >= 7 {
		w.e = longExpiries[t.Intn(len(longExpiries))]
		r.Probe("expiry-long")
		if w.e > 100*day {
			r.Probe("expiry-above-100-days")
		}
	}
	if t.Intn(10) >= 8 {
		w.nfe = longExpiries[t.Intn(len(longExpiries))]
		r.Probe("not-found-expiry-long")
		if w.nfe > 100*day {
			r.Probe("not-found-expiry-above-100-days")
		}
	}
	// unusual but legal expiries: below a second, exactly a second, not a whole number of seconds
	// (the statement: the TTL is the expiry, +/-5 %, rounded UP to seconds).  Drawn for the expiry and
	// the not-found expiry independently; draw 0 keeps what was drawn above
	var oddE, oddNF time.Duration
	if k := t.Intn(3 * len(oddExpiries)); k > 0 && k <= len(oddExpiries) {
		oddE = oddExpiries[k-1]
		w.e = oddE
	}
	if k := t.Intn(3 * len(oddExpiries)); k > 0 && k <= len(oddExpiries) {
		oddNF = oddExpiries[k-1]
		w.nfe = oddNF
	}
	var opts []cache.Option
	switch []int{0, 0, 0, 0, 0, 0, 1, 1, 1, 2, 2, 2, 2, 4, 5, 6}[t.Intn(16)] {
	case 0:
		opts = []cache.Option{cache.WithExpiry(w.e), cache.WithNotFoundExpiry(w.nfe)}
		w.optDesc = "WithExpiry, WithNotFoundExpiry"
	case 1:
		opts = []cache.Option{cache.WithNotFoundExpiry(w.nfe), cache.WithExpiry(w.e)}
		w.optDesc = "WithNotFoundExpiry, WithExpiry"
	case 2:
		// the not-found default (1 minute)
		opts = []cache.Option{cache.WithExpiry(w.e)}
		w.nfe = time.Minute
		w.optDesc = "WithExpiry"
	case 4:
		// the expiry default (7 days): entries are checked for their TTL, nobody waits for them to expire
		opts = []cache.Option{cache.WithNotFoundExpiry(w.nfe)}
		w.e = defaultExpiry
		w.optDesc = "WithNotFoundExpiry"
	case 5:
		w.e, w.nfe = defaultExpiry, time.Minute
		w.optDesc = "no option"
	default:
		// zero or negative values ask for the defaults
		bad := []time.Duration{0, -time.Second}
		opts = []cache.Option{cache.WithExpiry(bad[t.Intn(2)]), cache.WithNotFoundExpiry(bad[t.Intn(2)])}
		if t.Bool() {
			// ... and a later option overrides an earlier one
			opts = append([]cache.Option{cache.WithExpiry(w.e)}, opts...)
		}
		w.e, w.nfe = defaultExpiry, time.Minute
		w.optDesc = "WithExpiry(<=0), WithNotFoundExpiry(<=0)"
	}
	if w.e == defaultExpiry {
		r.Probe("default-expiry")
	}
	// (counted where the option really carries the value: some option sets above leave one out)
	if oddE != 0 && w.e == oddE {
		r.Probe("expiry-odd")
		r.Probe("expiry-odd-" + oddClass(oddE))
	}
	if oddNF != 0 && w.nfe == oddNF {
		r.Probe("not-found-expiry-odd")
		r.Probe("not-found-expiry-odd-" + oddClass(oddNF))
	}
	newStat := func(name string) *cache.Stat {
		if t.Bool() {
			return cache.NewStat(name) // starts the stat logger on the virtual clock
		}
		return &cache.Stat{}
	}
	// the API under test on top of the cache: sqlc.CachedConn over the fake connection, or monc.Model
	// over the stub collection (monc: the not-found error of the cache must be the one the database
	// reports, mongo.ErrNoDocuments, as in all of monc's own constructors)
	ownNF := func() error {
		if w.monc {
			return monc.ErrNotFound
		}
		k := t.Intn(len(notFoundPool))
		r.Probe("not-found-error-" + notFoundPool[k].name)
		return notFoundPool[k].mk()
	}
	libNF := func() error {
		if w.monc {
			return monc.ErrNotFound
		}
		return sqlc.ErrNotFound
	}
	withCache := func(c cache.Cache) {
		if w.monc {
			w.mm = monc.VerifNewModel(w.newMonModel(), c)
		} else {
			w.cc = sqlc.NewConnWithCache(w.conn, c)
		}
	}
	withConf := func(conf cache.CacheConf) {
		if w.monc {
			w.mm = monc.VerifNewConfModel(w.newMonModel(), conf, opts...)
		} else {
			w.cc = sqlc.NewConn(w.conn, conf, opts...)
		}
	}
	switch w.variant {
	case 0:
		// the harness builds the node: own barrier, own stat, own not-found error
		n := w.newNode("", 100)
		rds := redis.New(n.addr, redis.WithHook(n.srv.Hook()))
		w.errNF = ownNF()
		w.cache = cache.NewNode(rds, syncx.NewSingleFlight(), newStat(n.addr), w.errNF, opts...)
		withCache(w.cache)
	case 1:
		n := w.newNode("", 100)
		rds := redis.New(n.addr, redis.WithHook(n.srv.Hook()))
		w.errNF = libNF()
		if w.monc {
			w.mm = monc.VerifNewNodeModel(w.newMonModel(), rds, opts...) // = monc.NewNodeModel
		} else {
			w.cc = sqlc.NewConnWithCache(w.conn, cache.NewNode(rds, syncx.NewSingleFlight(), &cache.Stat{}, sqlc.ErrNotFound, opts...))
		}
	case 2:
		// cache.New with a one-node cluster configuration.  It builds its own redis.Redis from the
		// configuration (no way to pass a hook), so the go-redis client for this address is created
		// first, with the transport hook, through rds; go-zero shares clients by address.
		n := w.newNode("", 100)
		rds := redis.New(n.addr, redis.WithHook(n.srv.Hook()))
		w.errNF = libNF()
		if !rds.Ping() {
			r.EngineError("c06: cannot reach the simulated redis")
		}
		conf := cache.CacheConf{{RedisConf: redis.RedisConf{Host: n.addr, Type: redis.NodeType, NonBlock: t.Bool(), PingTimeout: time.Minute}, Weight: 100}}
		withConf(conf)
	default:
		// a cluster of 2-3 nodes with weights.  The node address is what the consistent hash places
		// on the ring, so the addresses (and the key names, below) come from the tape.
		nn := t.Range(2, 3)
		var conf cache.ClusterConf
		for i := 0; i < nn; i++ {
			weight := []int{100, 100, 50, 30, 10, 200}[t.Intn(6)]
			n := w.newNode(fmt.Sprintf("c06-%c%d.verif:6379", 'a'+i, t.Intn(40)), weight)
			rds := redis.New(n.addr, redis.WithHook(n.srv.Hook()))
			if !rds.Ping() {
				r.EngineError("c06: cannot reach the simulated redis node %d", i)
			}
			conf = append(conf, cache.NodeConf{RedisConf: redis.RedisConf{Host: n.addr, Type: redis.NodeType, NonBlock: t.Bool(), PingTimeout: time.Minute}, Weight: weight})
		}
		w.pfx = fmt.Sprint(t.Intn(1000))
		if t.Bool() {
			w.errNF = libNF()
			withConf(conf)
		} else {
			w.errNF = ownNF()
			w.cache = cache.New(conf, syncx.NewSingleFlight(), newStat("c06"), w.errNF, opts...)
			withCache(w.cache)
		}
		r.Probe("cluster")
	}
	r.MarkBackground(func(name string) bool {
		return strings.Contains(name, "timingwheel.go") || strings.Contains(name, "cachestat.go")
	})
	n := t.Range(2, 4)
	for i := 0; i < n; i++ {
		ent := &entity{idx: i, pk: int64(101 + i), name: fmt.Sprintf("n%d", i)}
		// primary key, index value and payload from the pools (0: the simple one); two rows never
		// share a key
		if pk := pkPool[t.Intn(len(pkPool))]; pk != nil && w.byKey[fmt.Sprintf("p%s:%v", w.pfx, pk)] == nil {
			ent.pk = pk
		}
		if name := namePool[t.Intn(len(namePool))]; name != "" && w.byKey[fmt.Sprintf("i%s:%s", w.pfx, name)] == nil {
			ent.name = name
		}
		ent.pay = payloadDraw[t.Intn(len(payloadDraw))]
		if w.monc && !payloads[ent.pay].bsonSafe {
			ent.pay = 0
		}
		r.Probe("pk-" + pkClass(ent.pk))
		if ent.name != fmt.Sprintf("n%d", i) {
			r.Probe("index-value-from-pool")
		}
		r.Probe("payload-" + payloads[ent.pay].name)
		ent.pkey = fmt.Sprintf("p%s:%v", w.pfx, ent.pk)
		ent.ikey = fmt.Sprintf("i%s:%s", w.pfx, ent.name)
		if !t.Bool() {
			w.nVer++
			ent.ver = w.nVer
		}
		ent.hist = []int{ent.ver}
		w.ents = append(w.ents, ent)
		w.byKey[ent.pkey] = ent
		w.byKey[ent.ikey] = ent
	}
	if w.cluster {
		w.placement()
	}
	return w
}

// placement: the store is empty, so asking the cache for every key once (a miss, by Get through
// the cache value when the harness owns it) shows which node the cache takes for it.
func (w *world) placement() {
	used := map[*node]bool{}
	for _, ent := range w.ents {
		for _, k := range ent.keys() {
			var v row
			var err error
			switch {
			case w.cache != nil:
				err = w.cache.Get(k, &v)
			case w.monc:
				err = w.mm.GetCache(k, &v)
			default:
				err = w.cc.GetCache(k, &v)
			}
			if !errors.Is(err, w.errNF) {
				w.fail("miss-not-reported-as-not-found", "GetCache(%s) on the empty cluster returned %v, not the configured not-found error", k, err)
			}
			if w.owner[k] == nil {
				w.fail("key-not-dispatched", "GetCache(%s) reached none of the %d nodes", k, len(w.nodes))
				w.owner[k] = w.nodes[0]
			}
			used[w.owner[k]] = true
		}
		if w.owner[ent.pkey] != w.owner[ent.ikey] {
			w.r.Probe("row-keys-on-two-nodes")
		}
	}
	w.r.Probe(fmt.Sprintf("cluster-keys-on-%d-of-%d-nodes", len(used), len(w.nodes)))
}

func shortKeys(ks []string) string {
	var out []string
	for _, k := range ks {
		out = append(out, short(k))
	}
	return "[" + strings.Join(out, " ") + "]"
}

func (w *world) placementDesc() []string {
	var out []string
	for _, n := range w.nodes {
		var ks []string
		for k, o := range w.owner {
			if o == n {
				ks = append(ks, k)
			}
		}
		sort.Strings(ks)
		out = append(out, fmt.Sprintf("node%d %s weight %d: %s", n.idx, n.addr, n.weight, shortKeys(ks)))
	}
	return out
}

func (w *world) close() {
	for _, n := range w.nodes {
		n.down = simredis.None
	}
	w.rules = nil
	w.tw.Stop()
}

// ---------------------------------------------------------------------------------------
// workload generation

func (w *world) drawLat() time.Duration {
	switch w.t.Intn(6) {
	case 0, 1, 2:
		return 0
	case 3:
		return time.Duration(w.t.Range(1, 40)) * time.Millisecond
	case 4:
		return time.Duration(w.t.Range(100, 900)) * time.Millisecond
	default:
		return time.Duration(w.t.Range(1000, 3500)) * time.Millisecond
	}
}

func (w *world) genStep(ent *entity, allowWrite bool) *step {
	t := w.t
	st := &step{ent: ent}
	k := t.Intn(14)
	if !allowWrite && k >= 7 {
		k = 0
	}
	switch {
	case k < 7:
		st.kind = kRead
	case k < 9:
		st.kind = kWrite
	case k == 9:
		st.kind = kDelete
	case k == 10:
		st.kind = kFailExec
	case k == 11:
		st.kind = kSetCache
		if t.Bool() {
			st.kind = kSetCacheExp
			st.expire = explicitExpiries[t.Intn(len(explicitExpiries))]
			if st.expire > time.Hour {
				w.r.Probe("explicit-expiry-long")
			}
			if st.expire < time.Second {
				w.r.Probe("explicit-expiry-below-1s")
			}
		}
		if ent.ver == 0 {
			st.kind = kWrite // nothing to put into the cache: insert the row instead
		}
	default:
		st.kind = kDelCache
		if t.Chance(1, 3) {
			st.only = 1 + t.Intn(2)
		}
	}
	st.qLat = w.drawLat()
	st.qYields = t.Intn(3)
	st.keyRev = t.Bool()
	st.direct = t.Bool()
	if st.kind == kRead {
		maxG := 6
		if w.tier == "thorough" {
			maxG = 8
		}
		n := 1
		if t.Bool() {
			n = t.Range(2, maxG)
		}
		flavour := t.Intn(4) // 0 primary, 1 index, 2 mixed, 3 primary
		for i := 0; i < n; i++ {
			c := &call{}
			switch flavour {
			case 0, 3:
				c.kind = readKind(t.Intn(2))
			case 1:
				c.kind = rIndex
			default:
				c.kind = readKind(t.Intn(4))
			}
			if c.kind == rTake && w.cache != nil {
				c.withExp = t.Chance(1, 3)
			}
			if i > 0 && t.Chance(1, 3) {
				c.think = time.Duration(t.Range(1, 60)) * time.Millisecond
				if t.Chance(1, 4) {
					c.think = st.qLat + time.Duration(t.Range(0, 20))*time.Millisecond // arrives around the end of the first load
				}
			}
			st.readers = append(st.readers, c)
		}
		if n == 1 && t.Chance(1, 8) {
			st.readers[0].kind = rGet
		}
		if w.monc {
			w.monAdapt(st)
		}
		for _, c := range st.readers {
			if w.monc && c.kind == rGet {
				continue // monc.Model.GetCache takes no context
			}
			c.cx = w.drawCtx(c.kind != rGet, st.qLat)
		}
		for _, c := range st.readers {
			w.drawDest(c)
		}
		if t.Chance(1, 5) {
			st.errLeft[qPrimary] = t.Range(1, 2)
		}
		if t.Chance(1, 5) {
			st.errLeft[qIndex] = t.Range(1, 2)
		}
	}
	if st.kind != kRead {
		if w.monc {
			w.monAdapt(st)
		}
		if !w.monc || st.kind != kSetCache { // monc.Model.SetCache takes no context
			st.cx = w.drawCtx(st.kind == kWrite || st.kind == kDelete || st.kind == kFailExec, st.qLat)
		}
	}
	if w.faulty {
		w.genFault(st)
	}
	return st
}

func (w *world) genFault(st *step) {
	t := w.t
	if !t.Chance(2, 5) {
		return
	}
	switch st.kind {
	case kRead:
		switch t.Intn(4) {
		case 0:
			st.fault = fErrGET
		case 1:
			st.fault = fErrSET
		case 2:
			st.fault = fLossy
			st.lossyCmd = []string{"GET", "SET"}[t.Intn(2)]
		default:
			st.fault = fLatency
		}
	case kWrite, kDelete, kDelCache:
		switch t.Intn(4) {
		case 0, 1:
			st.fault = fErrDEL
			st.faultExt = []time.Duration{0, 0, 3 * time.Second, 9 * time.Second, 80 * time.Second}[t.Intn(5)]
		case 2:
			st.fault = fLossy
			st.lossyCmd = "DEL"
		default:
			st.fault = fLatency
		}
	case kSetCache, kSetCacheExp:
		switch t.Intn(3) {
		case 0:
			st.fault = fErrSET
		case 1:
			st.fault = fLossy
			st.lossyCmd = "SET"
		default:
			st.fault = fLatency
		}
	}
	if st.fault == fLossy {
		st.lossy = []simredis.Kind{simredis.DropReply, simredis.DropRequest, simredis.ResetBefore, simredis.ResetAfter, simredis.Truncate, simredis.ErrReply}[t.Intn(6)]
	}
}

func (st *step) String() string {
	s := fmt.Sprintf("%s row%d", stepKindNames[st.kind], st.ent.idx)
	if st.follow {
		s = "next-" + s
	}
	for _, e := range st.more {
		s += fmt.Sprintf("+row%d", e.idx)
	}
	if len(st.more) > 0 {
		s += " keys=" + shortKeys(st.keyList)
	}
	if st.kind == kNoCache && st.nocache < len(noCacheNames) {
		s += " " + noCacheNames[st.nocache]
	}
	if st.kind == kNoCache && st.nocache == len(noCacheNames) {
		s += " FindOneNoCache"
	}
	if st.monc && (st.kind == kWrite || st.kind == kDelete || st.kind == kFailExec) {
		s += " via " + monMethodNames[st.mon]
		if st.upsert {
			s += "(upsert)"
		}
	}
	if st.kind == kDelCache && st.only > 0 {
		s += " only " + short(st.ent.keys()[st.only-1])
	}
	if st.kind == kRead {
		s += "["
		for i, c := range st.readers {
			if i > 0 {
				s += " "
			}
			s += c.touchPrefix()
			if st.monc && c.kind != rGet {
				s += "FindOne"
			} else {
				s += readKindNames[c.kind]
			}
			if c.cx.mode != cNone {
				s += "(" + c.cx.String() + ")"
			}
			if c.dt != dRow {
				s += "->" + destNames[c.dt]
			}
			s += c.touchSuffix()
		}
		s += "]"
		if st.errLeft[0]+st.errLeft[1] > 0 {
			s += fmt.Sprintf(" dberr=%v", st.errLeft)
		}
	}
	if st.kind == kSetCacheExp {
		s += " " + st.expire.String()
	}
	if st.qLat > 0 {
		s += " dblat=" + st.qLat.String()
	}
	if st.cx.mode != cNone {
		s += " " + st.cx.String()
	}
	if st.fault != fNone {
		s += " fault=" + faultNames[st.fault]
		if st.fault == fLossy {
			s += ":" + st.lossy.String() + "@" + st.lossyCmd
		}
		if st.faultExt > 0 {
			s += "+" + st.faultExt.String()
		}
	}
	if st.anyOut() {
		var ks []string
		for _, e := range st.ents() {
			for _, k := range e.keys() {
				if st.out(k) {
					ks = append(ks, k)
				}
			}
		}
		s += fmt.Sprintf(" (node down for %v)", ks)
	}
	return s
}

// genMulti: one call that writes / invalidates 2..all rows at once (a batch update, a DelCache of
// many keys); in a cluster the keys live on different nodes.
func (w *world) genMulti() *step {
	t := w.t
	p := t.Perm(len(w.ents))
	n := t.Range(2, len(w.ents))
	st := &step{ent: w.ents[p[0]]}
	for _, i := range p[1:n] {
		st.more = append(st.more, w.ents[i])
	}
	st.kind = []stepKind{kDelCache, kWrite, kDelete}[t.Intn(3)]
	if w.monc {
		if st.kind == kDelete {
			st.kind = kWrite // the only multi-key write of monc.Model is UpdateMany
		}
		w.monAdapt(st)
	}
	st.qLat = w.drawLat()
	st.qYields = t.Intn(3)
	st.direct = t.Bool()
	var keys []string
	for _, e := range st.ents() {
		keys = append(keys, e.keys()...)
	}
	for _, i := range t.Perm(len(keys)) {
		st.keyList = append(st.keyList, keys[i])
	}
	st.cx = w.drawCtx(st.kind != kDelCache, st.qLat)
	if w.faulty {
		w.genFault(st)
	}
	w.r.Probe("multi-row-invalidation")
	return st
}

func (w *world) genNoCache() *step {
	st := &step{kind: kNoCache, ent: w.ents[w.t.Intn(len(w.ents))], nocache: w.t.Intn(len(noCacheNames))}
	if w.monc {
		st.nocache = len(noCacheNames) // FindOneNoCache
	}
	return st
}

// item generates and runs the next element of the history.
func (w *world) item() {
	t := w.t
	k := t.Intn(12)
	switch {
	case k < 5:
		w.runSteps(w.genStep(w.ents[t.Intn(len(w.ents))], true))
	case k < 8:
		w.advance()
	case k == 10:
		w.runSteps(w.genMulti())
	case k == 11:
		if t.Bool() {
			w.runSteps(w.genNoCache())
		} else {
			w.runSteps(w.genMulti())
		}
	case k == 8:
		// operations on two different rows run concurrently
		p := t.Perm(len(w.ents))
		a := w.genStep(w.ents[p[0]], true)
		b := w.genStep(w.ents[p[1]], true)
		w.r.Probe("parallel-rows")
		w.runSteps(a, b)
	default:
		if !w.faulty {
			w.runSteps(w.genStep(w.ents[t.Intn(len(w.ents))], false))
			return
		}
		w.outage()
	}
}

// outage: the store is unusable while one or two operations run, and for a while longer.  The
// outage is realised on established connections (every command is reset while it is sent, or
// vanishes without a reply, or is answered with an error) and not by refusing dials: go-redis
// counts failed dials per client and after PoolSize (10 x GOMAXPROCS, not configurable through
// go-zero) of them starts a re-dial goroutine of its own, which makes the behaviour depend on
// GOMAXPROCS and is not a task of the simulation.
func (w *world) outage() {
	t := w.t
	n := t.Range(1, 2)
	kind := []simredis.Kind{simredis.ResetBefore, simredis.ResetBefore, simredis.ErrReply, simredis.DropRequest}[t.Intn(4)]
	// faults hit the nodes independently: one node, two nodes, or all of them
	downs := w.nodes
	if len(w.nodes) > 1 {
		n = t.Range(1, 4)
		p := t.Perm(len(w.nodes))
		switch t.Intn(4) {
		case 0, 1:
			downs = []*node{w.nodes[p[0]]}
		case 2:
			downs = []*node{w.nodes[p[0]], w.nodes[p[1]]}
		}
	}
	desc := ""
	for _, nd := range downs {
		nd.down = kind
		desc += fmt.Sprintf(" node%d", nd.idx)
	}
	w.ops = append(w.ops, "store down:"+desc+" ("+kind.String()+" on every command)")
	for i := 0; i < n && !w.aborted; i++ {
		var st *step
		if t.Chance(1, 4) {
			st = w.genMulti()
		} else {
			st = w.genStep(w.ents[t.Intn(len(w.ents))], true)
		}
		st.fault, st.faultExt = fNone, 0
		w.runSteps(st)
	}
	ext := []time.Duration{0, 1500 * time.Millisecond, 7 * time.Second, 70 * time.Second}[t.Intn(4)]
	if ext > 0 {
		w.r.Sleep(ext)
	}
	for _, nd := range downs {
		w.noteFault(nd)
		nd.down = simredis.None
	}
	w.ops = append(w.ops, fmt.Sprintf("store up after %v more", ext))
	w.r.Probe("store-outage")
	if len(downs) < len(w.nodes) {
		w.r.Probe("partial-outage")
	}
}

// advance moves the clock: by a little, to an instant around the expiry of an entry that is in
// the store, or by a fraction / multiple of the configured expiries.
func (w *world) advance() {
	t := w.t
	var d time.Duration
	mode := t.Intn(4)
	type live struct {
		key string
		s   snap
	}
	var lives []live
	if mode >= 2 {
		for _, e := range w.ents {
			for _, k := range e.keys() {
				if s := w.snapKey(k); s.ex && s.ttl > 0 && s.ttl < w.maxJump {
					lives = append(lives, live{k, s})
				}
			}
		}
	}
	switch {
	case mode == 0 || (mode >= 2 && len(lives) == 0):
		d = time.Duration(t.Range(1, 3000)) * time.Millisecond
	case mode == 1:
		base := w.e
		if t.Bool() || base > w.maxJump {
			base = w.nfe
		}
		f := []float64{0.5, 0.95, 1.0, 1.05, 1.2}[t.Intn(5)]
		d = time.Duration(f*float64(base)) + []time.Duration{0, -time.Millisecond, time.Second, -time.Second}[t.Intn(4)]
		if base > w.maxJump {
			d = time.Duration(t.Range(1, 3000)) * time.Millisecond // nobody waits months
		}
	default:
		l := lives[t.Intn(len(lives))]
		d = l.s.ttl + []time.Duration{0, -1, 1, -time.Second, time.Second, -500 * time.Millisecond}[t.Intn(6)]
		w.r.Probe("advance-to-entry-expiry")
	}
	if d <= 0 {
		d = time.Millisecond
	}
	w.ops = append(w.ops, "advance "+d.String())
	w.r.Ev("advance", int64(d))
	w.r.Sleep(d)
}

// ---------------------------------------------------------------------------------------
// running steps

func (w *world) addRule(st *step, ru *rule) {
	w.rules = append(w.rules, ru)
	st.rules = append(st.rules, ru)
}

func (w *world) prepare(st *step) {
	ent := st.ent
	st.monc = w.monc
	st.pre[0], st.pre[1] = w.snapKey(ent.pkey), w.snapKey(ent.ikey)
	st.dirtyPre = ent.dirty()
	st.pendPre = w.cleanerPending(ent)
	st.breakerRsk = w.riskEnt(ent)
	st.outK = map[string]bool{}
	owns := map[*node]bool{}
	for _, e := range st.ents() {
		for _, k := range e.keys() {
			o := w.ownerOf(k)
			owns[o] = true
			if o.down != simredis.None {
				st.outK[k] = true
			}
		}
	}
	for _, n := range w.nodes {
		st.nfPre = append(st.nfPre, n.nFault)
		st.riskPre = append(st.riskPre, w.breakerRisk(n))
		st.downPre = append(st.downPre, n.down != simredis.None)
		if n.down != simredis.None && !owns[n] {
			st.otherDown = true
		}
	}
	keys := ent.keys()
	switch st.fault {
	case fErrGET:
		w.addRule(st, &rule{cmd: "GET", keys: keys, kind: simredis.ErrReply, msg: "ERR injected store failure"})
	case fErrSET:
		w.addRule(st, &rule{cmd: "SET", keys: keys, kind: simredis.ErrReply, msg: "ERR injected store failure"})
	case fErrDEL:
		w.addRule(st, &rule{cmd: "DEL", keys: keys, kind: simredis.ErrReply, msg: "ERR injected store failure"})
	case fLossy:
		ru := &rule{cmd: st.lossyCmd, keys: keys, kind: st.lossy, first: true, harness: true}
		if st.lossy == simredis.ErrReply {
			ru.msg = "LOADING Redis is loading the dataset in memory"
		}
		w.addRule(st, ru)
	case fLatency:
		w.addRule(st, &rule{keys: keys, kind: simredis.Latency, harness: true, delay: time.Duration(w.t.Range(1, 400)) * time.Millisecond})
	}
	if debugOps {
		w.ops = append(w.ops, fmt.Sprintf("@step %d tape %d t=%v", w.r.Seq(), w.t.Pos(), w.r.Elapsed()))
	}
	w.ops = append(w.ops, st.String())
	if w.r.Tracing() {
		w.r.Logf("STEP %s | db ver=%d | pre P=%+v I=%+v dirty=%v pending=%v", st, ent.ver, st.pre[0], st.pre[1], st.dirtyPre, st.pendPre)
	}
}

func (w *world) launch(st *step) []*simrt.Task {
	var ts []*simrt.Task
	ent := st.ent
	if st.kind == kRead {
		for i, c := range st.readers {
			if c.chained {
				continue // run by the task of the call it follows
			}
			c := c
			tk := w.r.Go(fmt.Sprintf("reader%d-row%d", i, ent.idx), func() {
				if c.think > 0 {
					w.r.Sleep(c.think)
				}
				w.readChain(st, c)
			})
			w.htask[tk.ID] = true
			ts = append(ts, tk)
			if c.cx.mode == cCancelAt {
				ts = append(ts, w.r.Go(fmt.Sprintf("canceller%d-row%d", i, ent.idx), c.cx.canceller(w, c.think)))
			}
		}
		return ts
	}
	tk := w.r.Go(fmt.Sprintf("writer-row%d", ent.idx), func() {
		st.cinv, st.tinv = w.tick(), time.Now()
		w.r.Ev("invoke-w", int64(st.kind), int64(ent.idx))
		w.doWrite(st)
		st.tret = time.Now()
		st.cret = w.tick()
		ok := int64(0)
		if st.err != nil {
			ok = 1
		}
		w.r.Ev("return-w", int64(st.kind), ok)
	})
	w.htask[tk.ID] = true
	st.taskID = tk.ID
	ts = append(ts, tk)
	if st.cx.mode == cCancelAt {
		ts = append(ts, w.r.Go(fmt.Sprintf("canceller-row%d", ent.idx), st.cx.canceller(w, 0)))
	}
	return ts
}

func (w *world) runSteps(sts ...*step) {
	if w.aborted {
		return
	}
	w.overdue()
	if w.touchy && !w.audit {
		sts = w.touch(sts)
	}
	for _, st := range sts {
		for _, c := range st.readers {
			c.id = w.nCall
			w.nCall++
		}
		w.prepare(st)
	}
	var ts []*simrt.Task
	for _, st := range sts {
		ts = append(ts, w.launch(st)...)
	}
	if !w.r.JoinTimeout(2*time.Hour, ts...) {
		w.fail("operation-did-not-return", "operations still running after 2 h of virtual time: %v", w.r.AliveTasks())
		w.aborted = true
		return
	}
	for _, st := range sts {
		w.finishStep(st)
	}
	w.checkObjects()
	w.invariants()
}

// ---------------------------------------------------------------------------------------

func body(r *simrt.Run, tier string) {
	t := r.Tape
	w := newWorld(r, tier)
	defer w.close()
	maxItems := 10
	if tier == "thorough" {
		maxItems = 24
	}
	n := t.Range(3, maxItems)
	for i := 0; i < n && !w.aborted; i++ {
		w.item()
	}
	w.finish()
	r.Probe("oracle")
	r.Probe("nontrivial")
	if debugOps {
		fmt.Fprintf(os.Stderr, "C06 run: variant=%d faulty=%v e=%v nfe=%v elapsed=%v placement=%v\n  %s\n", w.variant, w.faulty, w.e, w.nfe, r.Elapsed(), w.placementDesc(), strings.Join(w.ops, "\n  "))
	}
	ents := ""
	for _, e := range w.ents {
		ents += fmt.Sprintf("row%d(pk %s, index value %s, payload %s):%v ", e.idx, short(fmt.Sprint(e.pk)), short(e.name), payloads[e.pay].name, e.hist)
	}
	construction := []string{"cache.NewNode+NewConnWithCache", "sqlc.NewNodeConn", "sqlc.NewConn(one-node cluster conf)", "sqlc.NewConn(cluster conf)"}[w.variant]
	if w.cluster && w.cache != nil {
		construction = "cache.New(cluster conf)+NewConnWithCache"
	}
	if w.monc {
		construction = []string{"cache.NewNode+monc.NewModelWithCache", "monc.NewNodeModel", "monc.NewModel(one-node cluster conf)", "monc.NewModel(cluster conf)"}[w.variant]
		if w.cluster && w.cache != nil {
			construction = "cache.New(cluster conf)+monc.NewModelWithCache"
		}
		construction += " over the stub mon.Collection (seam constructors: no mongo client)"
	}
	fired := map[string]int{}
	for _, n := range w.nodes {
		for k, v := range n.srv.FiredMap() {
			fired[fmt.Sprintf("node%d:%s", n.idx, k)] = v
		}
	}
	r.Sample(map[string]any{"construction": construction, "options": w.optDesc, "nodes_and_keys": w.placementDesc(),
		"fault_injecting": w.faulty, "contexts_may_end": w.ctxy, "callers_touch_their_destination_objects": w.touchy, "destination_types_differ": w.typed, "expiry": w.e.String(), "not_found_expiry": w.nfe.String(), "rows_version_history": strings.TrimSpace(ents),
		"history": w.ops, "store_faults_fired": fired})
}

func config(t *simrt.Tape, tier string) simrt.Config {
	c := simharness.DefaultConfig(t, tier)
	c.MaxSteps = 1500000
	c.MaxVirtual = 400 * time.Hour
	if os.Getenv("VERIF_C06_ALLSWITCH") != "" {
		c.SwitchPerMille, c.StallPerMille = 999, 0 // development aid: every scheduling point shows up in the trace
	}
	return c
}

func TestSim(t *testing.T) {
	simharness.Main(t, &simharness.Spec{ID: "C06", Body: body, Config: config, CrashIsViolation: true})
}
