package c10

import (
	"context"
	"errors"
	"fmt"
	"io"
	"net/http"
	"runtime"
	"sort"
	"strings"
	"testing"
	"time"

	"github.com/zeromicro/go-zero/core/mr"

	"verifsim/simharness"
	"verifsim/simrt"
)

// C10: MapReduce exactly-once mapping, complete reduction, clean termination.
//
// One run = one *scenario*: a single call, or two calls of the mr API (one after the other -
// optionally on the same context -, side by side, or the second one nested inside a mapper
// invocation of the first, its outcome forwarded to the outer cancel).  Every call has its own
// plan (entry point, options, sizes, user-function behaviour, disturbances) and its own oracle
// state (world); the termination oracle (no goroutine started by a call survives) is evaluated
// once for the whole scenario.

const (
	dNone = iota
	dGenPanic
	dMapPanic
	dRedPanic
	dMapCancel
	dMapCancelNil
	dRedCancel
	dCtxCancel
	dCtxDeadline
	dStall
)

var dNames = []string{"none", "generator-panic", "mapper-panic", "reducer-panic", "mapper-cancel", "mapper-cancel-nil", "reducer-cancel", "ctx-cancel", "ctx-deadline", "stall"}

// further, independent disturbances of the same call (the statement quantifies over every choice
// of which invocations cancel or panic)
const (
	xMapCancel         = iota + 1 // mapper invocation `at` cancels
	xRedCancel                    // the reducer cancels after `at` values
	xMapPanic                     // mapper invocation `at` panics
	xRedPanic                     // the reducer panics after `at` values
	xMapCancelDetached            // mapper invocation `at` hands cancel to a goroutine of its own which calls it `delay` later (possibly after the call returned)
	xMapPanicFrom                 // every mapper invocation from `at` on panics
)

var xNames = []string{"", "mapper-cancel", "reducer-cancel", "mapper-panic", "reducer-panic", "mapper-cancel-detached", "mapper-panic-from"}

type extra struct {
	kind      int
	at        int
	errKind   int
	panicKind int
	delay     time.Duration
}

// how the worker count is configured
const (
	optWorkers     = iota // WithWorkers(n), n >= 1
	optDefault            // no WithWorkers at all
	optZero               // WithWorkers(0)
	optNegative           // WithWorkers(-k)
	optTwice              // WithWorkers(other), WithWorkers(n)
	optWorkersLast        // like optWorkers, but WithContext (if any) comes first in the option list
)

var optNames = []string{"workers", "default-workers", "workers-zero", "workers-negative", "workers-twice", "context-then-workers"}

type plan struct {
	variant int // 0 MapReduce 1 MapReduceVoid 2 MapReduceChan 3 ForEach 4 Finish 5 FinishVoid
	items   int
	workers int // argument of WithWorkers
	optKind int
	other   int // first WithWorkers of optTwice
	eff     int // number of mappers one may expect to run side by side (sizing of the workload only)
	bound   int // concurrency bound the property gives for this configuration; 0: none stated
	fanout  []int
	redKind int // 0 sum+write once at end, 1 write nothing, 2 write early (after first value) then keep consuming, 3 write twice
	// the reducer stops consuming after redStop values and returns (-1: consumes until the pipe is closed)
	redStop         int
	redQuitOnCancel bool // a cancelling reducer returns right after its cancel call
	dist            int
	distAt          int           // invocation index (item index for generator/mapper, consumed count for reducer)
	distDur         time.Duration // ctx instant / stall duration
	workDur         []time.Duration
	genDur          time.Duration
	useCtx          bool
	ctxDeadline     time.Duration // > 0: the context additionally carries this deadline (cancel-contexts and never-ending contexts)
	ctxPreEnded     bool          // dCtxCancel: the context is cancelled before the call starts
	errKind         int           // dynamic type / identity of the error passed by the first canceller
	panicKind       int           // kind of value the first panicking function raises
	extras          []extra
	fwdCtx          bool // mappers forward ctx.Err() through cancel once they see the context ended
	// nested scenario: mapper invocation nestAt runs the second call and (nestForward) passes its error to cancel
	nestAt      int
	nestForward bool
	// lagging deadline context (only for contexts that carry a deadline): Deadline() reports T, Done is
	// closed at T + lag by a harness task
	lagShape  bool
	lag       time.Duration
	lagParent bool // dCtxDeadline: the lagging context wraps a cancellable parent
	// user functions working up to an instant relative to the deadline before they write (0: not)
	edgesDrawn bool
	mapEdge    []int // per item
	redEdge    int   // the reducer, before the writes it does after its loop (write-early reducers: before the early write)
	genEdge    int   // the generator / feeder, before handing over item genEdgeAt
	genEdgeAt  int
}

// instants, relative to the deadline T of the call's context and the lag of its Done channel, up to
// which a user function stays busy before it goes on (writes / hands over / returns)
var edgeNames = []string{"", "just-before-deadline", "at-deadline", "just-past-deadline", "mid-lag", "just-before-done-closes", "when-done-closes", "just-after-done-closes"}

func edgeOffset(edge int, lag time.Duration) time.Duration {
	switch edge {
	case 1:
		return -1
	case 3:
		return 1
	case 4:
		return lag / 2
	case 5:
		return lag - 1
	case 6:
		return lag
	case 7:
		return lag + 1
	}
	return 0
}

// lagName: ASCII name of a lag for probes and samples.
func lagName(d time.Duration) string {
	return strings.ReplaceAll(d.String(), "\u00b5", "u")
}

func drawEdge(t *simrt.Tape) int {
	return []int{0, 0, 0, 0, 2, 3, 1, 4, 5, 6, 7, 2}[t.Intn(12)]
}

// drawEdges draws which user functions stay busy up to an instant around the deadline.
func drawEdges(t *simrt.Tape, p *plan) {
	p.edgesDrawn = true
	for i := 0; i < p.items; i++ {
		p.mapEdge = append(p.mapEdge, drawEdge(t))
	}
	if t.Chance(1, 3) {
		p.redEdge = drawEdge(t)
	}
	if t.Chance(1, 4) {
		p.genEdge = drawEdge(t)
		p.genEdgeAt = t.Intn(p.items + 1)
	}
}

// ---- error values passed to cancel / returned by Finish functions

type customErr struct{ tag string }

func (e customErr) Error() string { return "custom cancel error " + e.tag }

type ptrErr struct{ tag string }

func (e *ptrErr) Error() string { return "pointer cancel error " + e.tag }

var errBase = errors.New("base error")

var errKindNames = []string{"plain", "wrapped", "custom-struct", "custom-pointer", "joined",
	"sentinel-ErrCancelWithNil", "sentinel-context.Canceled", "sentinel-context.DeadlineExceeded", "sentinel-io",
	"sentinel-ErrReduceNoOutput", "wrapped-ErrReduceNoOutput"}

// mkErr builds a cancel error: fresh values of five different dynamic types, the package's own
// sentinels, the context sentinels (passed by the user, not produced by a context) and a foreign one.
func mkErr(kind int, tag string) error {
	switch kind {
	case 1:
		return fmt.Errorf("cancel-err-%s: %w", tag, errBase)
	case 2:
		return customErr{tag}
	case 3:
		return &ptrErr{tag}
	case 4:
		return errors.Join(fmt.Errorf("cancel-err-%s", tag), errBase)
	case 5:
		return mr.ErrCancelWithNil
	case 6:
		return context.Canceled
	case 7:
		return context.DeadlineExceeded
	case 8:
		return io.ErrUnexpectedEOF
	case 9:
		return mr.ErrReduceNoOutput
	case 10:
		return fmt.Errorf("inner call %s: %w", tag, mr.ErrReduceNoOutput)
	default:
		return fmt.Errorf("cancel-err-%s", tag)
	}
}

func drawErrKind(t *simrt.Tape) int {
	return []int{0, 0, 0, 1, 2, 3, 4, 5, 6, 7, 8, 9, 10}[t.Intn(13)]
}

// ---- panic values

type customPanic struct{ tag string }

type nilPanic struct{} // stands for panic(nil) in the list of raised panics

var panicKindNames = []string{"string", "error", "wrapped-error", "runtime-error", "http.ErrAbortHandler", "struct", "nil", "int", "pointer"}

func drawPanicKind(t *simrt.Tape) int {
	return []int{0, 0, 0, 1, 2, 3, 4, 5, 6, 7, 8}[t.Intn(11)]
}

// nilMapWrite provokes a genuine runtime error.
func nilMapWrite() {
	var m map[int]int
	m[0] = 1
}

func runtimeErrValue() (v any) {
	defer func() { v = recover() }()
	nilMapWrite()
	return nil
}

// samePanic: is pv (what the call re-raised) the user's value up, possibly decorated?
func samePanic(pv, up any) bool {
	if _, ok := up.(nilPanic); ok {
		if _, ok := pv.(*runtime.PanicNilError); ok {
			return true
		}
		return strings.Contains(fmt.Sprint(pv), "panic called with nil argument")
	}
	if safeEq(pv, up) {
		return true
	}
	if ue, ok := up.(error); ok {
		if pe, ok := pv.(error); ok {
			if errors.Is(pe, ue) {
				return true
			}
			if _, ok := ue.(runtime.Error); ok {
				if _, ok := pe.(runtime.Error); ok && pe.Error() == ue.Error() {
					return true
				}
			}
		}
	}
	// the library may decorate the value; it must still be the user's
	u := fmt.Sprint(up)
	return len(u) >= 6 && strings.Contains(fmt.Sprint(pv), u)
}

func safeEq(a, b any) (eq bool) {
	defer func() {
		if recover() != nil {
			eq = false
		}
	}()
	return a == b
}

// ---- contexts

// ctxState is one context given to WithContext (two consecutive calls may share one).
type ctxState struct {
	ctx        context.Context
	cancel     context.CancelFunc
	fired      bool          // the harness cancelled it (set right before the cancel call)
	firedAt    time.Duration // virtual instant of that
	deadlineAt time.Duration // virtual instant of its deadline (what Deadline() reports), -1: none
	task       *simrt.Task
	lc         *lagCtx       // the context is a lagging deadline context
	lagDur     time.Duration // its lag
	alignable  bool          // the deadline is near enough for user functions to work up to it
}

// pastDeadlineOpen: the deadline instant has been reached while Done is not closed (yet).
func (c *ctxState) pastDeadlineOpen(now time.Duration) bool {
	return c != nil && c.deadlineAt >= 0 && now >= c.deadlineAt && c.ctx.Err() == nil
}

// endedBefore: the context had certainly ended (its Done channel was closed) strictly before virtual instant at.
func (c *ctxState) endedBefore(at time.Duration) bool {
	if c == nil {
		return false
	}
	if c.lc != nil && c.lc.lag > 0 {
		// Done is closed by a harness task some time after the deadline: the recorded instant counts
		return c.lc.err != nil && c.lc.endedAt < at
	}
	return c.fired && c.firedAt < at || c.deadlineAt >= 0 && c.deadlineAt < at
}

// lagCtx is a context.Context owned by the harness: a "lagging deadline context".  Deadline() reports T,
// but Done is closed - and Err() turns non-nil - only at T + lag, by a harness background task (in a real
// execution the timer behind a context's Done fires a little after the deadline instant).  It ends at
// once (context.Canceled) when the harness cancels it or its parent.  With lag 0 it behaves exactly like
// the standard deadline context it wraps.
type lagCtx struct {
	r        *simrt.Run
	parent   context.Context
	inner    context.Context // standard context on parent with deadline T + lag: it wakes the closer task
	deadline time.Time
	lag      time.Duration
	done     chan struct{}
	err      error
	endedAt  time.Duration // virtual instant at which done was closed
}

func newLagCtx(r *simrt.Run, parent context.Context, deadline time.Time, lag time.Duration) (*lagCtx, context.CancelFunc) {
	c := &lagCtx{r: r, parent: parent, deadline: deadline, lag: lag}
	var cancelInner context.CancelFunc
	c.inner, cancelInner = context.WithDeadline(parent, deadline.Add(lag))
	if lag == 0 {
		return c, cancelInner
	}
	c.done = make(chan struct{})
	r.GoBackground("lagctx-closer", func() {
		simrt.Recv("lagctx-closer", c.inner.Done())
		c.end(c.inner.Err())
	})
	return c, func() {
		cancelInner()
		c.end(context.Canceled)
	}
}

// end closes Done (once); closing and the change of Err() are one step for every other task.
func (c *lagCtx) end(err error) {
	if c.err != nil {
		return
	}
	c.err = err
	close(c.done)
	c.endedAt = c.r.Elapsed()
	if errors.Is(err, context.DeadlineExceeded) {
		c.r.Probe("ctx-lagging-done-closed-after-deadline")
	}
}

func (c *lagCtx) Deadline() (time.Time, bool) { return c.deadline, true }

func (c *lagCtx) Done() <-chan struct{} {
	if c.lag == 0 {
		return c.inner.Done()
	}
	return c.done
}

func (c *lagCtx) Err() error {
	if c.lag == 0 {
		return c.inner.Err()
	}
	return c.err
}

func (c *lagCtx) Value(key any) any { return c.parent.Value(key) }

type world struct {
	r   *simrt.Run
	p   *plan
	tag string
	clk int

	cs       *ctxState
	sharedCs *ctxState // context of an earlier call to be used instead of an own one
	nest     *world    // call to run inside mapper invocation p.nestAt
	aux      []*simrt.Task

	generated  []int
	mapped     map[int]int
	mapInv     int
	written    []int // values written by mappers (accepted or not is unknown)
	reduced    []int
	redQuit    bool // the reducer returned without having seen the pipe closed
	inMapper   int
	maxIn      int
	userActive int

	userPanics        []any
	cancelErrs        []error
	cancelNil         bool
	cancelInvokedAt   []time.Duration // virtual instants at which cancel was invoked
	cancelReturned    []int           // logical clock when a cancel call returned
	redWriteStartClk  int
	redWriteStartAt   time.Duration
	redWrites         int
	lastWriteStartClk int
	lastWriteStartAt  time.Duration
	redWriteReturned  int // writes that returned normally (a write that panicked inside the library does not)
	redReturned       bool
	redReturnClk      int // logical clock when the reducer function returned (or panicked)
	redOutput         int

	// outcome of the call
	invoked  bool
	returned bool
	val      int
	err      error
	panicVal any
	retClk   int
	retAt    time.Duration
	// the call returned at or after the deadline its context reports while that context had not ended
	pastDeadlineAtReturn bool
	pipeClosedClk        int // the reducer saw its pipe closed (all mappers had ended by then)
	firstMapperPanicClk  int
	cancelledAtReturn    bool // some cancel had been invoked when the call returned
	ctxEndedAtReturn     bool // the context had ended when the call returned
	returnedBeforeNest   bool // nested scenario: this (outer) call had returned before the inner one did
	checked              bool
}

func newWorld(r *simrt.Run, p *plan, tag string) *world {
	return &world{r: r, p: p, tag: tag, mapped: map[int]int{}}
}

func (w *world) tick() int { w.clk++; return w.clk }

func (w *world) enter() { w.userActive++ }
func (w *world) leave() { w.userActive-- }

func (w *world) doCancel(cancel func(error), err error, kind int) {
	if w.p.variant == 4 {
		// a function given to Finish "cancels" by returning the error; it is recorded when that happens
		if kind >= 0 {
			w.r.Probe("err-kind-" + errKindNames[kind])
		}
		cancel(err)
		return
	}
	w.cancelInvokedAt = append(w.cancelInvokedAt, w.r.Elapsed())
	if err == nil {
		w.cancelNil = true
		w.r.Probe("err-kind-nil")
	} else {
		w.cancelErrs = append(w.cancelErrs, err)
		if kind >= 0 {
			w.r.Probe("err-kind-" + errKindNames[kind])
		}
	}
	if len(w.cancelInvokedAt) >= 2 {
		w.r.Probe("second-canceller")
	}
	w.tick()
	cancel(err)
	w.cancelReturned = append(w.cancelReturned, w.tick())
}

// raise panics in the name of a user function with a value of the given kind.
func (w *world) raise(who string, kind int) {
	r := w.r
	tag := fmt.Sprintf("%s-%s-%d", w.tag, who, len(w.userPanics))
	var v any
	switch kind {
	case 1:
		v = errors.New("user-panic-error-" + tag)
	case 2:
		v = fmt.Errorf("user-panic-wrapped-%s: %w", tag, errBase)
	case 3:
		v = runtimeErrValue()
	case 4:
		v = http.ErrAbortHandler
	case 5:
		v = customPanic{"user-panic-struct-" + tag}
	case 6:
		v = nilPanic{}
	case 7:
		v = 424242000 + len(w.userPanics)
	case 8:
		v = &customPanic{"user-panic-pointer-" + tag}
	default:
		v = "user-panic-" + tag
	}
	w.notePanic(who, v)
	r.Probe("panic-kind-" + panicKindNames[kind])
	switch kind {
	case 3:
		nilMapWrite()
	case 6:
		var null any
		panic(null)
	}
	panic(v)
}

func (w *world) notePanic(who string, v any) {
	w.userPanics = append(w.userPanics, v)
	if who == "mapper" && w.firstMapperPanicClk == 0 {
		w.firstMapperPanicClk = w.tick()
	}
	w.r.Probe("panic-" + who)
	if len(w.userPanics) >= 2 {
		w.r.Probe("multi-panic")
	}
	if w.returned {
		w.r.Probe("panic-after-return")
	}
}

func (w *world) work(d time.Duration) {
	switch {
	case d == 0:
	case d < time.Microsecond:
		for i := 0; i < int(d); i++ {
			w.r.Yield()
		}
	default:
		w.r.Sleep(d)
	}
}

// busyUntil keeps the calling user function busy up to the instant the edge names (relative to the
// deadline of the call's context and the lag of its Done channel); no-op when that instant has passed.
func (w *world) busyUntil(who string, edge int) {
	r, cs := w.r, w.cs
	if edge == 0 || cs == nil || !cs.alignable {
		return
	}
	target := cs.deadlineAt + edgeOffset(edge, cs.lagDur)
	if d := target - r.Elapsed(); d > 0 {
		r.Sleep(d)
		r.Probe(who + "-busy-until-" + edgeNames[edge])
	}
}

// noteWrite: probes for where a write of a user function falls relative to the deadline and the end of the context.
func (w *world) noteWrite(who string) {
	r, cs := w.r, w.cs
	if cs == nil || cs.deadlineAt < 0 {
		return
	}
	now := r.Elapsed()
	if cs.pastDeadlineOpen(now) {
		if now == cs.deadlineAt {
			r.Probe(who + "-writes-at-deadline-instant-done-open")
		} else {
			r.Probe(who + "-writes-past-deadline-done-open")
		}
	}
}

func drawPlan(t *simrt.Tape, tier string, small bool) *plan {
	p := &plan{redStop: -1}
	p.variant = []int{0, 0, 0, 1, 2, 3, 4, 5}[t.Intn(8)]
	maxW := 4
	if tier == "thorough" {
		maxW = 8
	}
	if small {
		maxW = 2
	}
	p.workers = t.Range(1, maxW)
	p.eff, p.bound = p.workers, p.workers
	maxItems := 3 * p.workers
	if p.variant < 4 {
		p.optKind = []int{optWorkers, optWorkers, optWorkers, optWorkers, optDefault, optZero, optNegative, optTwice, optWorkersLast, optWorkers}[t.Intn(10)]
		switch p.optKind {
		case optDefault:
			// nothing configured: the statement gives no bound; size the workload beyond what the
			// implementation is likely to run side by side
			p.eff, p.bound = 16, 0
			maxItems = 6
			if !small && t.Chance(1, 3) {
				maxItems = 20
			}
		case optZero:
			// a mapper must run for the items to be mapped at all, more than one is more than configured
			p.workers, p.eff, p.bound = 0, 1, 1
			maxItems = 4
		case optNegative:
			p.workers, p.eff, p.bound = -t.Range(1, 3), 1, 1
			maxItems = 4
		case optTwice:
			p.other = t.Range(1, maxW)
			// options are applied in order; accept either reading of "the configured number"
			if p.other > p.bound {
				p.bound = p.other
			}
		}
	}
	p.items = t.Intn(maxItems + 1)
	if p.variant >= 4 {
		// Finish(fns...) / FinishVoid(fns...): zero functions is the simplest call
		p.workers, p.eff, p.bound = p.items, p.items, 0
	}
	big := p.eff + 1
	if big > 17 {
		big = 17
	}
	for i := 0; i < p.items; i++ {
		f := []int{1, 1, 0, 2, 3, 1, 1, -1}[t.Intn(8)]
		if f < 0 {
			// one invocation writes more than a pipe sized after the worker count can hold
			f = big + t.Intn(3)
		}
		p.fanout = append(p.fanout, f)
		var d time.Duration
		switch t.Intn(6) {
		case 0, 1, 2:
		case 3:
			d = time.Duration(t.Range(1, 3)) // yields
		case 4:
			d = time.Duration(t.Range(1, 20)) * time.Millisecond
		default:
			d = time.Duration(t.Range(1, 3)) * time.Second
		}
		p.workDur = append(p.workDur, d)
	}
	if t.Chance(1, 4) {
		p.genDur = time.Duration(t.Range(1, 500)) * time.Millisecond
	}
	p.redKind = []int{0, 0, 0, 1, 2, 2, 3}[t.Intn(7)]
	if t.Chance(1, 6) {
		p.redStop = t.Intn(p.items + 2)
	}
	if t.Chance(3, 5) {
		p.dist = 1 + t.Intn(9)
		p.distAt = t.Intn(p.items + 1)
		p.distDur = []time.Duration{0, time.Millisecond, 10 * time.Millisecond, time.Second, 5 * time.Second}[t.Intn(5)]
		p.errKind = drawErrKind(t)
		p.panicKind = drawPanicKind(t)
		p.redQuitOnCancel = t.Chance(1, 3)
	}
	p.useCtx = p.dist == dCtxCancel || p.dist == dCtxDeadline || t.Chance(1, 5)
	if p.variant >= 4 {
		p.useCtx = false // Finish / FinishVoid take no options
	}
	if p.useCtx && p.dist != dCtxDeadline && t.Chance(1, 3) {
		p.ctxDeadline = []time.Duration{time.Hour, time.Hour, 5 * time.Second, 10 * time.Millisecond}[t.Intn(4)]
	}
	if p.dist == dCtxCancel && t.Chance(1, 6) {
		p.ctxPreEnded = true
	}
	if p.dist != dNone && t.Chance(1, 3) || p.dist == dNone && t.Chance(1, 8) {
		n := []int{1, 1, 1, 2, 3}[t.Intn(5)]
		for i := 0; i < n; i++ {
			x := extra{kind: []int{xMapCancel, xRedCancel, xMapCancel, xRedCancel, xMapPanic, xRedPanic, xMapCancelDetached, xMapPanicFrom, xMapCancelDetached}[t.Intn(9)]}
			x.at = t.Intn(p.items + 1)
			x.errKind = drawErrKind(t)
			x.panicKind = drawPanicKind(t)
			if x.kind == xMapCancelDetached {
				x.delay = []time.Duration{0, time.Millisecond, time.Second, 30 * time.Second}[t.Intn(4)]
			}
			p.extras = append(p.extras, x)
		}
	}
	if p.useCtx && t.Chance(1, 3) {
		p.fwdCtx = true
	}
	if p.useCtx && (p.dist == dCtxDeadline || p.ctxDeadline > 0) {
		// the context carries a deadline: its shape (standard / lagging) and user functions busy up to it
		if t.Intn(5) >= 2 {
			p.lagShape = true
			p.lag = []time.Duration{0, 1, 50 * time.Microsecond, 2 * time.Millisecond, time.Second}[t.Intn(5)]
			p.lagParent = p.dist == dCtxDeadline && t.Chance(1, 3)
		}
		drawEdges(t, p)
	}
	return p
}

func (p *plan) summary() map[string]any {
	var xs []string
	for _, x := range p.extras {
		xs = append(xs, fmt.Sprintf("%s@%d", xNames[x.kind], x.at))
	}
	m := map[string]any{"variant": []string{"MapReduce", "MapReduceVoid", "MapReduceChan", "ForEach", "Finish", "FinishVoid"}[p.variant],
		"items": p.items, "options": optNames[p.optKind], "workers": p.workers, "fanout": fmt.Sprint(p.fanout),
		"reducer": []string{"sum-write-once", "write-nothing", "write-early", "write-twice"}[p.redKind], "reducer_stops_after": p.redStop,
		"disturbance": dNames[p.dist], "at": p.distAt, "dur": p.distDur.String(), "error": errKindNames[p.errKind], "panic": panicKindNames[p.panicKind],
		"more": strings.Join(xs, " "), "ctx": p.useCtx, "ctx_deadline": p.ctxDeadline.String()}
	if p.lagShape {
		m["ctx_shape"] = "lagging-deadline"
		m["ctx_done_lag"] = lagName(p.lag)
		m["ctx_wraps_parent"] = p.lagParent || p.ctxDeadline > 0
	}
	if p.edgesDrawn {
		var es []string
		for _, e := range p.mapEdge {
			es = append(es, edgeNames[e])
		}
		m["mappers_busy_until"] = strings.Join(es, ",")
		m["reducer_busy_until"] = edgeNames[p.redEdge]
		m["generator_busy_until"] = edgeNames[p.genEdge]
	}
	return m
}

// setupCtx builds the context of the call (at the moment the call starts) and starts its canceller.
func (w *world) setupCtx() {
	r, p := w.r, w.p
	if !p.useCtx {
		return
	}
	if w.sharedCs != nil {
		w.cs = w.sharedCs
		if w.cs.ctx.Err() != nil {
			r.Probe("ctx-shared-ended-before-second-call")
		}
		return
	}
	cs := &ctxState{deadlineAt: -1}
	w.cs = cs
	now := r.Elapsed()
	switch {
	case p.dist == dCtxDeadline && p.lagShape:
		parent, cancelParent := context.Background(), context.CancelFunc(func() {})
		if p.lagParent {
			parent, cancelParent = context.WithCancel(parent)
			r.Probe("ctx-lagging-wraps-parent")
		}
		lc, cancelLc := newLagCtx(r, parent, time.Now().Add(p.distDur), p.lag)
		cs.ctx, cs.lc, cs.lagDur = lc, lc, p.lag
		cs.cancel = func() { cancelParent(); cancelLc() }
		cs.deadlineAt = now + p.distDur
	case p.dist == dCtxDeadline:
		cs.ctx, cs.cancel = context.WithTimeout(context.Background(), p.distDur)
		cs.deadlineAt = now + p.distDur
	case p.ctxDeadline > 0:
		parent, cancelParent := context.WithCancel(context.Background())
		var cancelChild context.CancelFunc
		if p.lagShape {
			lc, cancelLc := newLagCtx(r, parent, time.Now().Add(p.ctxDeadline), p.lag)
			cs.ctx, cs.lc, cs.lagDur, cancelChild = lc, lc, p.lag, cancelLc
			r.Probe("ctx-lagging-wraps-parent")
		} else {
			cs.ctx, cancelChild = context.WithTimeout(parent, p.ctxDeadline)
		}
		cs.cancel = func() { cancelParent(); cancelChild() }
		cs.deadlineAt = now + p.ctxDeadline
		if p.dist == dCtxCancel {
			r.Probe("ctx-cancel-with-deadline")
		} else {
			r.Probe("ctx-undisturbed-with-deadline")
		}
	default:
		cs.ctx, cs.cancel = context.WithCancel(context.Background())
	}
	if cs.lc != nil {
		r.Probe("ctx-lagging")
		r.Probe("ctx-lagging-lag-" + lagName(p.lag))
	}
	// a deadline an hour away stands for "never": nobody works up to it
	cs.alignable = cs.deadlineAt >= 0 && cs.deadlineAt-now <= 5*time.Second
	if p.dist != dCtxCancel {
		return
	}
	if p.ctxPreEnded {
		r.Probe("ctx-cancelled-before-call")
		cs.fired, cs.firedAt = true, now
		cs.cancel()
		return
	}
	cs.task = r.Go("ctx-canceller-"+w.tag, func() {
		if p.distDur > 0 {
			r.Sleep(p.distDur)
		} else {
			for i := 0; i < p.distAt; i++ {
				r.Yield()
			}
		}
		cs.fired, cs.firedAt = true, r.Elapsed()
		w.tick()
		cs.cancel()
	})
}

func (w *world) options() []mr.Option {
	p := w.p
	var opts []mr.Option
	ctxOpt := func() {
		if p.useCtx {
			opts = append(opts, mr.WithContext(w.cs.ctx))
		}
	}
	if p.optKind == optWorkersLast {
		ctxOpt()
	}
	switch p.optKind {
	case optDefault:
	case optTwice:
		opts = append(opts, mr.WithWorkers(p.other), mr.WithWorkers(p.workers))
	default:
		opts = append(opts, mr.WithWorkers(p.workers))
	}
	if p.optKind != optWorkersLast {
		ctxOpt()
	}
	return opts
}

func (w *world) generate(source chan<- int) {
	r, p := w.r, w.p
	w.enter()
	defer w.leave()
	for i := 0; i < p.items; i++ {
		if p.dist == dGenPanic && i == p.distAt {
			w.raise("generator", p.panicKind)
		}
		if p.dist == dStall && i == p.distAt && p.distAt%3 == 0 {
			r.Sleep(p.distDur)
		}
		if p.genDur > 0 {
			r.Sleep(p.genDur)
		}
		if p.genEdge != 0 && i == p.genEdgeAt {
			w.busyUntil("generator", p.genEdge)
		}
		w.generated = append(w.generated, i)
		simrt.Send("gen", source, i)
	}
	if p.dist == dGenPanic && p.distAt >= p.items {
		w.raise("generator", p.panicKind)
	}
}

// mapper is the mapper of every entry point; cancel is nil where the entry point has none (ForEach, FinishVoid).
func (w *world) mapper(item int, writer mr.Writer[int], cancel func(error)) {
	r, p := w.r, w.p
	w.enter()
	defer w.leave()
	inv := w.mapInv
	w.mapInv++
	w.mapped[item]++
	w.inMapper++
	if w.inMapper > w.maxIn {
		w.maxIn = w.inMapper
	}
	if p.bound > 0 && w.inMapper > p.bound {
		r.Fail("too-many-mappers", "%d mappers running concurrently, configured workers=%d (options %s)", w.inMapper, p.workers, optNames[p.optKind])
	}
	defer func() { w.inMapper-- }()
	w.work(p.workDur[item%len(p.workDur)])
	if w.nest != nil && inv == p.nestAt {
		in := w.nest
		in.invoke()
		if w.returned {
			w.returnedBeforeNest = true
			r.Probe("nested-call-outlived-outer")
		}
		if in.panicVal != nil {
			// the inner call re-raised: this invocation dies of the same value
			r.Probe("nested-inner-panicked")
			w.notePanic("mapper", in.panicVal)
			panic(in.panicVal)
		}
		if in.err != nil && p.nestForward && cancel != nil {
			r.Probe("nested-error-forwarded")
			w.doCancel(cancel, in.err, -1)
		}
	}
	if inv == p.distAt {
		switch p.dist {
		case dMapPanic:
			w.raise("mapper", p.panicKind)
		case dMapCancel:
			if cancel != nil {
				w.doCancel(cancel, mkErr(p.errKind, fmt.Sprintf("%s-mapper-%d", w.tag, inv)), p.errKind)
			}
		case dMapCancelNil:
			if cancel != nil && p.variant < 4 {
				w.doCancel(cancel, nil, -1)
			}
		case dStall:
			if p.distAt%3 == 1 {
				r.Sleep(p.distDur)
			}
		}
	}
	for xi, x := range p.extras {
		x := x
		switch {
		case x.kind == xMapCancel && inv == x.at && cancel != nil:
			w.doCancel(cancel, mkErr(x.errKind, fmt.Sprintf("%s-mapper-x%d-%d", w.tag, xi, inv)), x.errKind)
		case x.kind == xMapPanic && inv == x.at, x.kind == xMapPanicFrom && inv >= x.at:
			w.raise("mapper", x.panicKind)
		case x.kind == xMapCancelDetached && inv == x.at && cancel != nil && p.variant < 4:
			e := mkErr(x.errKind, fmt.Sprintf("%s-detached-x%d-%d", w.tag, xi, inv))
			w.aux = append(w.aux, r.Go("detached-cancel-"+w.tag, func() {
				if x.delay > 0 {
					r.Sleep(x.delay)
				} else {
					r.Yield()
				}
				r.Probe("detached-cancel")
				if w.returned {
					r.Probe("detached-cancel-after-return")
				}
				w.doCancel(cancel, e, x.errKind)
			}))
		}
	}
	if p.fwdCtx && cancel != nil && w.cs != nil {
		if e := w.cs.ctx.Err(); e != nil {
			r.Probe("mapper-forwards-ctx-err")
			w.doCancel(cancel, e, -1)
		}
	}
	if item < len(p.mapEdge) {
		w.busyUntil("mapper", p.mapEdge[item])
	}
	for k := 0; k < p.fanout[item]; k++ {
		v := item*100 + k
		w.written = append(w.written, v)
		if p.variant <= 2 {
			w.noteWrite("mapper")
		}
		writer.Write(v)
	}
	if p.variant <= 2 && p.fanout[item] > p.eff {
		r.Probe("fanout-beyond-pipe")
	}
}

func (w *world) reducer(pipe <-chan int, writer mr.Writer[int], cancel func(error)) {
	r, p := w.r, w.p
	w.enter()
	defer w.leave()
	defer func() { w.redReturned, w.redReturnClk = true, w.tick() }()
	sum, n := 0, 0
	write := func(v int) {
		if w.redWrites == 0 {
			w.redWriteStartClk = w.tick()
			w.redWriteStartAt = r.Elapsed()
			w.redOutput = v
		}
		w.redWrites++
		w.lastWriteStartClk = w.tick()
		w.lastWriteStartAt = r.Elapsed()
		if p.variant != 1 {
			w.noteWrite("reducer")
		}
		writer.Write(v)
		w.redWriteReturned++
	}
	// check runs the disturbances due after n values; true: the reducer returns at once
	check := func() bool {
		quit := false
		if n == p.distAt {
			switch p.dist {
			case dRedPanic:
				w.raise("reducer", p.panicKind)
			case dRedCancel:
				w.doCancel(cancel, mkErr(p.errKind, fmt.Sprintf("%s-reducer-%d", w.tag, n)), p.errKind)
				quit = p.redQuitOnCancel
			case dStall:
				if p.distAt%3 == 2 {
					r.Sleep(p.distDur)
				}
			}
		}
		for xi, x := range p.extras {
			switch {
			case x.kind == xRedCancel && n == x.at:
				w.doCancel(cancel, mkErr(x.errKind, fmt.Sprintf("%s-reducer-x%d-%d", w.tag, xi, n)), x.errKind)
			case x.kind == xRedPanic && n == x.at:
				w.raise("reducer", x.panicKind)
			}
		}
		if quit {
			w.redQuit = true
			r.Probe("reducer-returns-after-cancel")
		}
		return quit
	}
	if check() {
		return
	}
	for {
		if p.redStop >= 0 && n >= p.redStop {
			// a reducer that has seen enough: it returns without waiting for the pipe to be closed
			w.redQuit = true
			r.Probe("reducer-returns-early")
			break
		}
		v, ok := simrt.Recv2("reducer", pipe)
		if !ok {
			w.pipeClosedClk = w.tick()
			break
		}
		w.reduced = append(w.reduced, v)
		sum += v
		n++
		if p.redKind == 2 && n == 1 {
			w.busyUntil("reducer", p.redEdge)
			write(1_000_000 + v)
		}
		if check() {
			return
		}
	}
	if p.redKind != 2 {
		w.busyUntil("reducer", p.redEdge)
	}
	switch p.redKind {
	case 0:
		write(sum)
	case 3:
		write(sum)
		write(sum + 1)
	}
}

type nopWriter struct{}

func (nopWriter) Write(int) {}

// invoke performs the call in the current task and records its outcome.
func (w *world) invoke() {
	r, p := w.r, w.p
	w.invoked = true
	w.setupCtx()
	r.Probe("dist-" + dNames[p.dist])
	r.Probe("opt-" + optNames[p.optKind])
	if p.optKind == optDefault && p.items > 16 {
		r.Probe("items-beyond-default-workers")
	}
	defer func() {
		w.panicVal = recover()
		w.cancelledAtReturn = len(w.cancelErrs) > 0 || w.cancelNil
		// ended = Done closed (a lagging deadline context has not ended between its deadline and that
		// instant), or the harness is in the middle of cancelling it
		w.ctxEndedAtReturn = w.cs != nil && (w.cs.fired || w.cs.ctx.Err() != nil)
		w.retAt = r.Elapsed()
		if !w.ctxEndedAtReturn && w.cs.pastDeadlineOpen(w.retAt) {
			w.pastDeadlineAtReturn = true
			r.Probe("returned-past-deadline-done-open")
		}
		w.returned = true
		w.retClk = w.tick()
	}()
	opts := w.options()
	switch p.variant {
	case 0:
		w.val, w.err = mr.MapReduce(w.generate, w.mapper, w.reducer, opts...)
	case 1:
		w.err = mr.MapReduceVoid(w.generate, w.mapper, func(pipe <-chan int, cancel func(error)) {
			w.reducer(pipe, nopWriter{}, cancel)
		}, opts...)
	case 2:
		source := make(chan int)
		w.aux = append(w.aux, r.Go("feeder-"+w.tag, func() {
			defer simrt.Close("feeder", source)
			w.enter()
			defer w.leave()
			for i := 0; i < p.items; i++ {
				if p.genDur > 0 {
					r.Sleep(p.genDur)
				}
				if p.genEdge != 0 && i == p.genEdgeAt {
					w.busyUntil("generator", p.genEdge)
				}
				w.generated = append(w.generated, i)
				simrt.Send("feeder", source, i)
			}
		}))
		w.val, w.err = mr.MapReduceChan(source, w.mapper, w.reducer, opts...)
	case 3:
		mr.ForEach(w.generate, func(item int) {
			w.mapper(item, nopWriter{}, nil)
		}, opts...)
	case 4, 5:
		var fns []func() error
		var vfns []func()
		for i := 0; i < p.items; i++ {
			i := i
			fns = append(fns, func() error {
				// the function's way to cancel is its return value: the first error it "cancels" with
				var ret error
				w.mapper(i, nopWriter{}, func(e error) {
					if ret == nil {
						ret = e
					}
				})
				if ret != nil {
					w.cancelErrs = append(w.cancelErrs, ret)
					w.cancelInvokedAt = append(w.cancelInvokedAt, r.Elapsed())
				}
				return ret
			})
			vfns = append(vfns, func() { w.mapper(i, nopWriter{}, nil) })
		}
		if p.items == 0 {
			r.Probe("finish-no-functions")
		}
		if p.variant == 4 {
			w.err = mr.Finish(fns...)
		} else {
			mr.FinishVoid(vfns...)
		}
	}
}

func body(r *simrt.Run, tier string) {
	t := r.Tape
	// scenario: 0 one call; 1 two calls one after the other; 2 two calls side by side; 3 the second
	// call runs inside a mapper invocation of the first
	mode := []int{0, 0, 0, 0, 0, 0, 0, 1, 2, 3}[t.Intn(10)]
	p1 := drawPlan(t, tier, false)
	w1 := newWorld(r, p1, "a")
	worlds := []*world{w1}
	var w2 *world
	var gap time.Duration
	shareCtx := false
	if mode != 0 {
		p2 := drawPlan(t, tier, true)
		w2 = newWorld(r, p2, "b")
		worlds = append(worlds, w2)
		switch mode {
		case 1:
			gap = []time.Duration{0, time.Millisecond, time.Second, 10 * time.Second}[t.Intn(4)]
			if p1.useCtx && p2.variant < 4 && t.Chance(1, 2) {
				// the second call is given the context of the first
				p2.useCtx, p2.ctxDeadline, p2.ctxPreEnded = true, 0, false
				if p2.dist == dCtxCancel || p2.dist == dCtxDeadline {
					p2.dist = dNone
				}
				p2.lagShape, p2.lag, p2.lagParent = false, 0, false
				if !p2.edgesDrawn && (p1.dist == dCtxDeadline || p1.ctxDeadline > 0) {
					drawEdges(t, p2)
				}
				shareCtx = true
			}
		case 3:
			p1.nestAt = t.Intn(p1.items + 1)
			p1.nestForward = !t.Chance(1, 4)
			w1.nest = w2
		}
	}
	modeName := []string{"single", "sequential", "concurrent", "nested"}[mode]
	r.Probe("mode-" + modeName)
	sample := map[string]any{"scenario": modeName, "call": w1.p.summary()}
	if w2 != nil {
		sample["second_call"] = w2.p.summary()
	}
	r.Sample(sample)
	if r.Tracing() {
		r.Logf("scenario %s: %v", modeName, sample)
	}
	defer func() {
		for _, w := range worlds {
			if w.cs != nil && w.cs.cancel != nil {
				w.cs.cancel()
			}
		}
	}()

	// every call runs in a client task of its own so that a hang becomes a verdict
	start := func(w *world) *simrt.Task { return r.Go("caller-"+w.tag, w.invoke) }
	wait := func(w *world, caller *simrt.Task) bool {
		if r.JoinTimeout(2*time.Hour, caller) {
			return true
		}
		class := "stuck"
		if w.redWrites > 0 && len(w.userPanics) > 0 {
			// scenario class: the reducer had already written its output when a user function panicked
			class = "stuck/panic-after-reducer-output"
		}
		r.Fail(class, "call %s did not return within 2h of virtual time (scenario %s, disturbance %s, options %s, reducer writes so far %d, user panics %d); alive: %v",
			w.tag, modeName, dNames[w.p.dist], optNames[w.p.optKind], w.redWrites, len(w.userPanics), r.AliveTasks())
		return false
	}
	switch mode {
	case 2:
		c1, c2 := start(w1), start(w2)
		if !wait(w1, c1) || !wait(w2, c2) {
			return
		}
	case 1:
		if !wait(w1, start(w1)) {
			return
		}
		if gap > 0 {
			r.Sleep(gap)
		}
		if shareCtx {
			w2.sharedCs = w1.cs
		}
		if !wait(w2, start(w2)) {
			return
		}
	default:
		if !wait(w1, start(w1)) {
			return
		}
	}
	r.Probe("oracle")
	for _, w := range worlds {
		if w == w2 && mode == 3 {
			continue
		}
		w.checkOutcome()
		if r.Failed() {
			return
		}
	}
	if mode == 3 {
		// the outer call may return (cancel, context end, panic elsewhere) while the mapper invocation
		// holding the inner call is still on its way - or has not even started: the inner call's
		// outcome is judged once no user function of the outer call is in flight any more (at
		// quiescence, so that an invocation already dispatched has begun)
		d := time.Millisecond
		for spent := time.Duration(0); spent < 3*time.Hour; spent += d {
			r.Quiesce()
			if w2.returned || w1.userActive == 0 {
				break
			}
			r.Sleep(d)
			if d < 5*time.Minute {
				d *= 2
			}
		}
		if w2.invoked && !w2.returned {
			r.Fail("stuck", "the nested call b did not return within 2h of virtual time after the outer call returned (disturbance %s, options %s); alive: %v", dNames[w2.p.dist], optNames[w2.p.optKind], r.AliveTasks())
			return
		}
		if w2.returned {
			if !w1.returnedBeforeNest {
				r.Probe("nested-call-completed-inside-outer")
			}
			w2.checkOutcome()
			if r.Failed() {
				return
			}
		}
	}
	for _, w := range worlds {
		if w.cs != nil && w.cs.task != nil {
			r.JoinTimeout(time.Hour, w.cs.task)
		}
	}
	// clean termination: let everything the calls started wind down (user functions may still
	// be finishing their virtual work, detached cancellers may still be due), then nothing
	// started by a call may be alive
	for _, w := range worlds {
		for _, a := range w.aux {
			r.JoinTimeout(time.Hour, a)
		}
	}
	active := func() int {
		n := 0
		for _, w := range worlds {
			n += w.userActive
		}
		return n
	}
	prev, same := "", 0
	for i := 0; i < 50 && (active() > 0 || len(callTasks(r)) > 0) && same < 3; i++ {
		r.Sleep(10 * time.Second)
		r.Quiesce()
		now := fmt.Sprint(active(), callTasks(r))
		if now == prev {
			same++
		} else {
			prev, same = now, 0
		}
	}
	if w2 != nil && w2.returned && !w2.checked {
		// nested call that was dispatched only after the outer call had wound down
		r.Probe("nested-call-started-late")
		w2.checkOutcome()
		if r.Failed() {
			return
		}
	}
	if active() > 0 {
		r.Fail("user-fn-stuck", "user functions still running long after the call returned: %d (scenario %s; alive: %v)", active(), modeName, r.AliveTasks())
		return
	}
	if left := callTasks(r); len(left) > 0 {
		class := "goroutine-leak"
		for _, w := range worlds {
			if w.writeRacedClose() {
				// scenario class: a reducer write was in flight when output got closed (cancel / context end)
				class = "goroutine-leak/reducer-write-races-close"
			}
		}
		r.Fail(class, "goroutines started by the call are still alive after all user functions returned (scenario %s, disturbance %s, variant %d): %v", modeName, dNames[w1.p.dist], w1.p.variant, left)
	}
}

func callTasks(r *simrt.Run) []string {
	var out []string
	for _, t := range r.AliveTasks() {
		if strings.Contains(t, "core/mr/") {
			out = append(out, t)
		}
	}
	return out
}

func multisetEq(a, b []int) bool {
	return len(a) == len(b) && subMultiset(a, b)
}

// subMultiset: every element of a occurs in b at least as often.
func subMultiset(a, b []int) bool {
	if len(a) > len(b) {
		return false
	}
	x, y := append([]int{}, a...), append([]int{}, b...)
	sort.Ints(x)
	sort.Ints(y)
	j := 0
	for _, v := range x {
		for j < len(y) && y[j] < v {
			j++
		}
		if j >= len(y) || y[j] != v {
			return false
		}
		j++
	}
	return true
}

// writeRacedClose: a reducer write did not return normally, and it had begun before any
// cancel call returned and before the context ended (so the close of output happened while
// the write was in flight, not before it).
func (w *world) writeRacedClose() bool {
	if w.redWrites <= w.redWriteReturned {
		return false
	}
	for _, c := range w.cancelReturned {
		if c < w.lastWriteStartClk {
			return false
		}
	}
	if w.cs.endedBefore(w.lastWriteStartAt) {
		return false
	}
	return true
}

func (w *world) isUserPanic(pv any) bool {
	for _, up := range w.userPanics {
		if samePanic(pv, up) {
			return true
		}
	}
	return false
}

// ctxNote describes the call's context at return for violation messages.
func (w *world) ctxNote() string {
	cs := w.cs
	if cs == nil || cs.deadlineAt < 0 {
		return ""
	}
	shape := "standard"
	if cs.lc != nil {
		shape = fmt.Sprintf("lagging, Done closes %v after the deadline", cs.lagDur)
	}
	return fmt.Sprintf("; context: %s, deadline at %v, call returned at %v, ended at return: %v", shape, cs.deadlineAt, w.retAt, w.ctxEndedAtReturn)
}

func (w *world) checkOutcome() {
	r, p := w.r, w.p
	w.checked = true
	val, err, panicVal := w.val, w.err, w.panicVal
	hasVal := p.variant == 0 || p.variant == 2
	// disturbed: something the statement's second sentence is about had happened by the time the
	// call returned (a cancel invoked, the context ended, a user function panicked)
	disturbed := w.cancelledAtReturn || w.ctxEndedAtReturn || len(w.userPanics) > 0
	// scenario class: the call returned at or after the deadline its context reports, while the
	// context had not ended (its Done channel was still open)
	sfx := ""
	if w.pastDeadlineAtReturn {
		sfx = "/deadline-passed-done-not-closed"
	}
	// ---- panics
	if panicVal != nil {
		if w.isUserPanic(panicVal) {
			r.Probe("panic-reraised")
			return
		}
		s := fmt.Sprint(panicVal)
		if p.redKind == 3 && s == "more than one element written in reducer" && p.variant != 1 {
			r.Probe("double-write-panic")
			return
		}
		class := "library-panic"
		if strings.Contains(s, "send on closed channel") && w.writeRacedClose() {
			class = "library-panic/reducer-write-races-close"
		}
		r.Fail(class, "call %s panicked with %q (%T) which no user function raised (disturbance %s, options %s, reducer kind %d)", w.tag, s, panicVal, dNames[p.dist], optNames[p.optKind], p.redKind)
		return
	}
	if len(w.userPanics) > 0 && p.variant != 5 && p.variant != 3 {
		// a user panic happened; the call may still have returned normally if the panic came
		// after the result was decided - in general not checkable soundly; accepted, except below
		r.Probe("panic-not-reraised")
	}
	// A mapper panicked, nothing was cancelled and the context has not ended: the only outcome the
	// statement leaves is the re-raised panic - provided the library had the panic in hand before
	// anything could release the caller.  That is certain when the caller is released by something
	// that follows the end of ALL mappers: ForEach returns once every mapper has ended; a reducer
	// that writes (or returns) only after it saw its pipe closed does so after every mapper,
	// including the panicking one, has ended.
	if w.firstMapperPanicClk > 0 && !w.cancelledAtReturn && !w.ctxEndedAtReturn && w.firstMapperPanicClk < w.retClk {
		certain := false
		switch p.variant {
		case 3:
			certain = true
		case 0, 1, 2:
			certain = w.pipeClosedClk > w.firstMapperPanicClk && (w.redWrites == 0 || w.redWriteStartClk > w.pipeClosedClk)
		}
		if certain {
			r.Fail("panic-swallowed/mapper-panic-before-the-pipe-closed", "call %s returned (%d, %v) normally although a mapper had panicked before the pipe was closed, nothing was cancelled and the context has not ended (user panics %d, reducer writes %d)",
				w.tag, val, err, len(w.userPanics), w.redWrites)
			return
		}
	}
	if p.variant == 4 && len(w.cancelErrs) >= 2 {
		r.Probe("finish-several-errors")
	}
	// ---- errors
	allowed := func(e error) bool {
		for _, ce := range w.cancelErrs {
			if errors.Is(e, ce) {
				return true
			}
		}
		if w.cancelNil && errors.Is(e, mr.ErrCancelWithNil) {
			return true
		}
		if w.ctxEndedAtReturn && (errors.Is(e, context.DeadlineExceeded) || errors.Is(e, context.Canceled)) {
			return true
		}
		return false
	}
	switch p.variant {
	case 3, 5:
		// ForEach / FinishVoid have no result
	default:
		if err != nil && !allowed(err) {
			if errors.Is(err, mr.ErrReduceNoOutput) && (p.variant == 0 || p.variant == 2) {
				if w.redWrites > 0 && !disturbed {
					r.Fail("lost-output"+sfx, "reducer wrote %d but the call returned ErrReduceNoOutput (nothing cancelled, no panic, context not ended%s)", w.redOutput, w.ctxNote())
				}
				// with a disturbance the reducer's write may have been dropped legitimately
			} else {
				class := "foreign-error"
				if w.cs != nil && !w.ctxEndedAtReturn && (errors.Is(err, context.DeadlineExceeded) || errors.Is(err, context.Canceled)) {
					// scenario class: a context error although the call's context had not ended when it returned
					class = "foreign-error/context-error-before-context-ended" + sfx
				}
				r.Fail(class, "call %s returned error %v (%T) which was neither passed to cancel nor a context error of an ended context (disturbance %s, user panics %d%s)", w.tag, err, err, dNames[p.dist], len(w.userPanics), w.ctxNote())
			}
			return
		}
	}
	if !disturbed {
		// ---- undisturbed: exactly-once and complete
		if p.variant <= 3 {
			for _, it := range w.generated {
				if w.mapped[it] != 1 {
					r.Fail("map-count"+sfx, "item %d mapped %d times (undisturbed call%s)", it, w.mapped[it], w.ctxNote())
					return
				}
			}
			if len(w.mapped) != len(w.generated) {
				r.Fail("map-count"+sfx, "mapped %d distinct items, generated %d", len(w.mapped), len(w.generated))
				return
			}
		} else {
			for i := 0; i < p.items; i++ {
				if w.mapped[i] != 1 {
					r.Fail("fn-count", "Finish: function %d ran %d times", i, w.mapped[i])
					return
				}
			}
		}
		if p.variant <= 2 {
			if w.redQuit {
				// the reducer walked away from its pipe: what it did receive must have been written, once
				if !subMultiset(w.reduced, w.written) {
					r.Fail("reduce-multiset"+sfx, "mappers wrote %v, the reducer (which stopped early) received %v (undisturbed call%s)", w.written, w.reduced, w.ctxNote())
					return
				}
			} else if !multisetEq(w.written, w.reduced) {
				r.Fail("reduce-multiset"+sfx, "mappers wrote %v, reducer received %v (undisturbed call%s)", w.written, w.reduced, w.ctxNote())
				return
			}
		}
		if hasVal {
			switch {
			case w.redWrites == 0:
				if !errors.Is(err, mr.ErrReduceNoOutput) {
					r.Fail("no-output"+sfx, "reducer wrote nothing but the call returned (%d, %v)", val, err)
				}
			case err != nil:
				r.Fail("result"+sfx, "undisturbed call returned error %v%s", err, w.ctxNote())
			case val != w.redOutput:
				r.Fail("result"+sfx, "reducer wrote %d, the call returned %d%s", w.redOutput, val, w.ctxNote())
			}
		} else if err != nil && p.variant != 3 && p.variant != 5 {
			r.Fail("result"+sfx, "undisturbed call returned error %v%s", err, w.ctxNote())
		}
		return
	}
	// ---- disturbed by cancel / context: when a cancel call had returned, or (without injected
	// stalls) had been invoked at a strictly earlier virtual instant than the reducer began its
	// write, the error must win
	if err == nil && p.variant <= 2 || (err == nil && p.variant == 4) {
		mustErr := false
		why := ""
		if p.variant <= 2 {
			// what releases the caller with a nil error is a value written by the reducer or the
			// reducer having returned: a cancel call that had returned before either of them began
			// (and before the call returned) cannot have gone unnoticed
			for _, c := range w.cancelReturned {
				if c >= w.retClk || w.redWrites > 0 && c >= w.redWriteStartClk || w.redReturned && c >= w.redReturnClk {
					continue
				}
				mustErr, why = true, "a cancel call had returned before the reducer began writing and before it returned"
			}
			if r.Cfg().StallPerMille == 0 {
				for _, at := range w.cancelInvokedAt {
					if w.redWrites > 0 && at < w.redWriteStartAt {
						mustErr, why = true, fmt.Sprintf("cancel was invoked at %v, the reducer began writing at %v", at, w.redWriteStartAt)
					}
				}
			}
		}
		if p.variant == 4 && len(w.cancelErrs) > 0 {
			mustErr, why = true, "a function passed to Finish returned an error"
		}
		if mustErr {
			class := "cancel-ignored"
			if p.variant == 1 || p.variant == 4 {
				for _, ce := range w.cancelErrs {
					if errors.Is(ce, mr.ErrReduceNoOutput) {
						// scenario class: the error handed over is (or wraps) the package's own
						// ErrReduceNoOutput and the entry point has no reducer output
						class = "cancel-ignored/void-swallows-ErrReduceNoOutput"
					}
				}
			}
			r.Fail(class, "call %s returned (%d, nil) although %s (disturbance %s, cancel errors %v)", w.tag, val, why, dNames[p.dist], w.cancelErrs)
		}
	}
}

func TestSim(t *testing.T) {
	simharness.Main(t, &simharness.Spec{ID: "C10", Body: body, StuckIsViolation: true, CrashIsViolation: true})
}
