package c10

import (
	"context"
	"errors"
	"fmt"
	"sort"
	"strings"
	"testing"
	"time"

	"github.com/zeromicro/go-zero/core/mr"

	"verifsim/simharness"
	"verifsim/simrt"
)

// C10: MapReduce exactly-once mapping, complete reduction, clean termination.

const (
	dNone = iota
	dGenPanic
	dMapPanic
	dRedPanic
	dMapCancel
	dMapCancelNil
	dRedCancel
	dCtxCancel
	dCtxDeadline
	dStall
)

var dNames = []string{"none", "generator-panic", "mapper-panic", "reducer-panic", "mapper-cancel", "mapper-cancel-nil", "reducer-cancel", "ctx-cancel", "ctx-deadline", "stall"}

type plan struct {
	variant int // 0 MapReduce 1 MapReduceVoid 2 MapReduceChan 3 ForEach 4 Finish 5 FinishVoid
	items   int
	workers int
	fanout  []int // writes per item
	redKind int   // 0 sum+write once at end, 1 write nothing, 2 write early (after first value) then keep consuming, 3 write twice
	dist    int
	distAt  int           // invocation index (item index for generator/mapper, consumed count for reducer)
	distDur time.Duration // ctx instant / stall duration
	workDur []time.Duration
	genDur  time.Duration
	useCtx  bool
	// a second, independent canceller (the statement quantifies over every choice of which
	// invocations cancel): 0 none, 1 a mapper invocation, 2 the reducer
	dist2    int
	dist2At  int
	errKind  int  // dynamic type of the error passed by the first canceller
	errKind2 int  // ... by the second canceller
	fwdCtx   bool // mappers forward ctx.Err() through cancel once they see the context ended
}

// customErr is a cancel error of a user-defined type.
type customErr struct{ tag string }

func (e customErr) Error() string { return "custom cancel error " + e.tag }

var errBase = errors.New("base error")

// mkErr builds a cancel error; the three kinds have three different dynamic types.
func mkErr(kind int, tag string) error {
	switch kind {
	case 1:
		return fmt.Errorf("cancel-err-%s: %w", tag, errBase)
	case 2:
		return customErr{tag}
	default:
		return fmt.Errorf("cancel-err-%s", tag)
	}
}

type world struct {
	r   *simrt.Run
	p   *plan
	clk int

	generated  []int
	mapped     map[int]int
	written    []int // values written by mappers (accepted or not is unknown)
	reduced    []int
	inMapper   int
	maxIn      int
	userActive int

	userPanics        map[string]bool
	cancelErrs        []error
	cancelNil         bool
	cancelInvokedAt   []time.Duration // virtual instants at which cancel was invoked
	cancelReturned    []int           // logical clock when a cancel call returned
	redWriteStartClk  int
	redWriteStartAt   time.Duration
	redWrites         int
	lastWriteStartClk int
	lastWriteStartAt  time.Duration
	redWriteReturned  int // writes that returned normally (a write that panicked inside the library does not)
	redOutput         int
	redWroteVal       bool
	ctxEndedAt        time.Duration
	ctxEnded          bool
}

func (w *world) tick() int { w.clk++; return w.clk }

func (w *world) enter() { w.userActive++ }
func (w *world) leave() { w.userActive-- }

func (w *world) doCancel(cancel func(error), err error) {
	w.cancelInvokedAt = append(w.cancelInvokedAt, w.r.Elapsed())
	if err == nil {
		w.cancelNil = true
	} else {
		w.cancelErrs = append(w.cancelErrs, err)
	}
	w.tick()
	cancel(err)
	w.cancelReturned = append(w.cancelReturned, w.tick())
}

func (w *world) userPanic(who string) {
	v := fmt.Sprintf("user-panic-%s-%d", who, len(w.userPanics))
	w.userPanics[v] = true
	w.r.Probe("panic-" + who)
	panic(v)
}

func (w *world) work(d time.Duration) {
	switch {
	case d == 0:
	case d < time.Microsecond:
		for i := 0; i < int(d); i++ {
			w.r.Yield()
		}
	default:
		w.r.Sleep(d)
	}
}

func drawPlan(t *simrt.Tape, tier string) *plan {
	p := &plan{}
	p.variant = []int{0, 0, 0, 1, 2, 3, 4, 5}[t.Intn(8)]
	maxW := 4
	if tier == "thorough" {
		maxW = 8
	}
	p.workers = t.Range(1, maxW)
	p.items = t.Intn(3*p.workers + 1)
	if p.variant >= 4 && p.items == 0 {
		p.items = 1
	}
	if p.variant >= 4 {
		p.workers = p.items
	}
	for i := 0; i < p.items; i++ {
		p.fanout = append(p.fanout, []int{1, 1, 0, 2, 3}[t.Intn(5)])
		var d time.Duration
		switch t.Intn(6) {
		case 0, 1, 2:
		case 3:
			d = time.Duration(t.Range(1, 3)) // yields
		case 4:
			d = time.Duration(t.Range(1, 20)) * time.Millisecond
		default:
			d = time.Duration(t.Range(1, 3)) * time.Second
		}
		p.workDur = append(p.workDur, d)
	}
	if t.Chance(1, 4) {
		p.genDur = time.Duration(t.Range(1, 500)) * time.Millisecond
	}
	p.redKind = []int{0, 0, 0, 1, 2, 2, 3}[t.Intn(7)]
	if t.Chance(3, 5) {
		p.dist = 1 + t.Intn(9)
		p.distAt = t.Intn(p.items + 1)
		p.distDur = []time.Duration{0, time.Millisecond, 10 * time.Millisecond, time.Second, 5 * time.Second}[t.Intn(5)]
	}
	p.useCtx = p.dist == dCtxCancel || p.dist == dCtxDeadline || t.Chance(1, 5)
	if p.dist != dNone && t.Chance(1, 3) {
		p.dist2 = 1 + t.Intn(2)
		p.dist2At = t.Intn(p.items + 1)
		p.errKind, p.errKind2 = t.Intn(3), t.Intn(3)
	}
	if p.useCtx && t.Chance(1, 3) {
		p.fwdCtx = true
	}
	return p
}

func body(r *simrt.Run, tier string) {
	p := drawPlan(r.Tape, tier)
	w := &world{r: r, p: p, mapped: map[int]int{}, userPanics: map[string]bool{}}
	if r.Tracing() {
		r.Logf("plan: variant=%d items=%d workers=%d fanout=%v red=%d dist=%s at=%d dur=%v work=%v gen=%v ctx=%v",
			p.variant, p.items, p.workers, p.fanout, p.redKind, dNames[p.dist], p.distAt, p.distDur, p.workDur, p.genDur, p.useCtx)
	}
	r.Sample(map[string]any{"variant": []string{"MapReduce", "MapReduceVoid", "MapReduceChan", "ForEach", "Finish", "FinishVoid"}[p.variant],
		"items": p.items, "workers": p.workers, "fanout": fmt.Sprint(p.fanout), "reducer": []string{"sum-write-once", "write-nothing", "write-early", "write-twice"}[p.redKind],
		"disturbance": dNames[p.dist], "at": p.distAt, "dur": p.distDur.String()})
	r.Probe("dist-" + dNames[p.dist])

	ctx := context.Background()
	var cancelCtx context.CancelFunc
	if p.useCtx {
		switch p.dist {
		case dCtxDeadline:
			ctx, cancelCtx = context.WithTimeout(ctx, p.distDur)
		default:
			ctx, cancelCtx = context.WithCancel(ctx)
		}
		defer cancelCtx()
	}
	var ctxTask *simrt.Task
	if p.dist == dCtxCancel {
		ctxTask = r.Go("ctx-canceller", func() {
			if p.distDur > 0 {
				r.Sleep(p.distDur)
			} else {
				for i := 0; i < p.distAt; i++ {
					r.Yield()
				}
			}
			w.ctxEnded, w.ctxEndedAt = true, r.Elapsed()
			w.tick()
			cancelCtx()
		})
	}

	generate := func(source chan<- int) {
		w.enter()
		defer w.leave()
		for i := 0; i < p.items; i++ {
			if p.dist == dGenPanic && i == p.distAt {
				w.userPanic("generator")
			}
			if p.dist == dStall && i == p.distAt && p.distAt%3 == 0 {
				r.Sleep(p.distDur)
			}
			if p.genDur > 0 {
				r.Sleep(p.genDur)
			}
			w.generated = append(w.generated, i)
			simrt.Send("gen", source, i)
		}
		if p.dist == dGenPanic && p.distAt >= p.items {
			w.userPanic("generator")
		}
	}
	mapInv := 0
	mapper := func(item int, writer mr.Writer[int], cancel func(error)) {
		w.enter()
		defer w.leave()
		inv := mapInv
		mapInv++
		w.mapped[item]++
		w.inMapper++
		if w.inMapper > w.maxIn {
			w.maxIn = w.inMapper
		}
		if w.inMapper > p.workers {
			r.Fail("too-many-mappers", "%d mappers running concurrently, workers=%d", w.inMapper, p.workers)
		}
		defer func() { w.inMapper-- }()
		w.work(p.workDur[item%len(p.workDur)])
		if inv == p.distAt {
			switch p.dist {
			case dMapPanic:
				w.userPanic("mapper")
			case dMapCancel:
				w.doCancel(cancel, mkErr(p.errKind, fmt.Sprintf("mapper-%d", inv)))
			case dMapCancelNil:
				w.doCancel(cancel, nil)
			case dStall:
				if p.distAt%3 == 1 {
					r.Sleep(p.distDur)
				}
			}
		}
		if p.dist2 == 1 && inv == p.dist2At {
			r.Probe("second-canceller")
			w.doCancel(cancel, mkErr(p.errKind2, fmt.Sprintf("mapper2-%d", inv)))
		}
		if p.fwdCtx {
			if e := ctx.Err(); e != nil {
				r.Probe("mapper-forwards-ctx-err")
				w.doCancel(cancel, e)
			}
		}
		for k := 0; k < p.fanout[item]; k++ {
			v := item*10 + k
			w.written = append(w.written, v)
			writer.Write(v)
		}
	}
	reducer := func(pipe <-chan int, writer mr.Writer[int], cancel func(error)) {
		w.enter()
		defer w.leave()
		sum, n := 0, 0
		write := func(v int) {
			if w.redWrites == 0 {
				w.redWriteStartClk = w.tick()
				w.redWriteStartAt = r.Elapsed()
				w.redOutput = v
			}
			w.redWrites++
			w.lastWriteStartClk = w.tick()
			w.lastWriteStartAt = r.Elapsed()
			writer.Write(v)
			w.redWriteReturned++
		}
		check := func() {
			if n == p.distAt {
				switch p.dist {
				case dRedPanic:
					w.userPanic("reducer")
				case dRedCancel:
					w.doCancel(cancel, mkErr(p.errKind, fmt.Sprintf("reducer-%d", n)))
				case dStall:
					if p.distAt%3 == 2 {
						r.Sleep(p.distDur)
					}
				}
			}
			if p.dist2 == 2 && n == p.dist2At {
				r.Probe("second-canceller")
				w.doCancel(cancel, mkErr(p.errKind2, fmt.Sprintf("reducer2-%d", n)))
			}
		}
		check()
		for {
			v, ok := simrt.Recv2("reducer", pipe)
			if !ok {
				break
			}
			w.reduced = append(w.reduced, v)
			sum += v
			n++
			if p.redKind == 2 && n == 1 {
				write(1_000_000 + v)
			}
			check()
		}
		switch p.redKind {
		case 0:
			write(sum)
		case 3:
			write(sum)
			write(sum + 1)
		}
	}

	// the call itself runs in a client task so that a hang becomes a verdict
	var (
		val      int
		err      error
		panicVal any
		returned bool // set when the caller task ended
		retClk   int
		hasVal   = p.variant == 0 || p.variant == 2
		fnRuns   = map[int]int{}
	)
	caller := r.Go("caller", func() {
		defer func() {
			panicVal = recover()
			returned = true
			_ = returned
			retClk = w.tick()
		}()
		opts := []mr.Option{mr.WithWorkers(p.workers)}
		if p.useCtx {
			opts = append(opts, mr.WithContext(ctx))
		}
		switch p.variant {
		case 0:
			val, err = mr.MapReduce(generate, mapper, reducer, opts...)
		case 1:
			err = mr.MapReduceVoid(generate, mapper, func(pipe <-chan int, cancel func(error)) {
				reducer(pipe, nopWriter{}, cancel)
			}, opts...)
		case 2:
			source := make(chan int)
			r.Go("feeder", func() {
				defer func() {
					if rec := recover(); rec != nil {
						// a panicking feeder is outside the call; just close
					}
					simrt.Close("feeder", source)
				}()
				pp := *p
				_ = pp
				w.enter()
				defer w.leave()
				for i := 0; i < p.items; i++ {
					if p.genDur > 0 {
						r.Sleep(p.genDur)
					}
					w.generated = append(w.generated, i)
					simrt.Send("feeder", source, i)
				}
			})
			val, err = mr.MapReduceChan(source, mapper, reducer, opts...)
		case 3:
			mr.ForEach(generate, func(item int) {
				mapper(item, nopWriter{}, func(error) {})
			}, opts...)
		case 4, 5:
			var fns []func() error
			var vfns []func()
			for i := 0; i < p.items; i++ {
				i := i
				fn := func() error {
					w.enter()
					defer w.leave()
					fnRuns[i]++
					w.inMapper++
					if w.inMapper > w.maxIn {
						w.maxIn = w.inMapper
					}
					defer func() { w.inMapper-- }()
					w.work(p.workDur[i])
					if i == p.distAt {
						switch p.dist {
						case dMapPanic:
							w.userPanic("mapper")
						case dMapCancel:
							e := fmt.Errorf("cancel-err-fn-%d", i)
							w.cancelErrs = append(w.cancelErrs, e)
							w.cancelInvokedAt = append(w.cancelInvokedAt, r.Elapsed())
							return e
						}
					}
					return nil
				}
				fns = append(fns, fn)
				vfns = append(vfns, func() { fn() })
			}
			if p.variant == 4 {
				err = mr.Finish(fns...)
			} else {
				mr.FinishVoid(vfns...)
			}
		}
	})

	if !r.JoinTimeout(2*time.Hour, caller) {
		class := "stuck"
		if w.redWrites > 0 && len(w.userPanics) > 0 {
			// scenario class: the reducer had already written its output when a user function panicked
			class = "stuck/panic-after-reducer-output"
		}
		r.Fail(class, "the call did not return within 2h of virtual time (disturbance %s, reducer writes so far %d, user panics %d); alive: %v", dNames[p.dist], w.redWrites, len(w.userPanics), r.AliveTasks())
		return
	}
	if ctxTask != nil {
		r.JoinTimeout(time.Hour, ctxTask)
	}
	if p.dist == dCtxDeadline && r.Elapsed() >= p.distDur {
		w.ctxEnded, w.ctxEndedAt = true, p.distDur
	}
	r.Probe("oracle")
	w.checkOutcome(val, err, panicVal, hasVal, fnRuns, retClk)
	if r.Failed() {
		return
	}
	// clean termination: let everything the call started wind down (user functions may still
	// be finishing their virtual work), then nothing started by the call may be alive
	prev, same := "", 0
	for i := 0; i < 50 && (w.userActive > 0 || len(callTasks(r)) > 0) && same < 3; i++ {
		r.Sleep(10 * time.Second)
		r.Quiesce()
		now := fmt.Sprint(w.userActive, callTasks(r))
		if now == prev {
			same++
		} else {
			prev, same = now, 0
		}
	}
	if w.userActive > 0 {
		r.Fail("user-fn-stuck", "user functions still running long after the call returned: %d (alive: %v)", w.userActive, r.AliveTasks())
		return
	}
	if left := callTasks(r); len(left) > 0 {
		class := "goroutine-leak"
		if w.writeRacedClose() {
			// scenario class: a reducer write was in flight when output got closed (cancel / context end)
			class = "goroutine-leak/reducer-write-races-close"
		}
		r.Fail(class, "goroutines started by the call are still alive after all user functions returned (disturbance %s, variant %d): %v", dNames[p.dist], p.variant, left)
	}
}

type nopWriter struct{}

func (nopWriter) Write(int) {}

func callTasks(r *simrt.Run) []string {
	var out []string
	for _, t := range r.AliveTasks() {
		if strings.Contains(t, "core/mr/") {
			out = append(out, t)
		}
	}
	return out
}

func multisetEq(a, b []int) bool {
	if len(a) != len(b) {
		return false
	}
	x, y := append([]int{}, a...), append([]int{}, b...)
	sort.Ints(x)
	sort.Ints(y)
	for i := range x {
		if x[i] != y[i] {
			return false
		}
	}
	return true
}

// writeRacedClose: a reducer write did not return normally, and it had begun before any
// cancel call returned and before the context ended (so the close of output happened while
// the write was in flight, not before it).
func (w *world) writeRacedClose() bool {
	if w.redWrites <= w.redWriteReturned {
		return false
	}
	for _, c := range w.cancelReturned {
		if c < w.lastWriteStartClk {
			return false
		}
	}
	if w.ctxEnded && w.ctxEndedAt < w.lastWriteStartAt {
		return false
	}
	if w.p.dist == dCtxDeadline && w.p.distDur < w.lastWriteStartAt {
		return false
	}
	return true
}

func (w *world) checkOutcome(val int, err error, panicVal any, hasVal bool, fnRuns map[int]int, retClk int) {
	r, p := w.r, w.p
	cancelled := len(w.cancelErrs) > 0 || w.cancelNil
	disturbed := cancelled || w.ctxEnded || len(w.userPanics) > 0 || (p.useCtx && p.dist == dCtxDeadline)
	// ---- panics
	if panicVal != nil {
		s := fmt.Sprint(panicVal)
		if w.userPanics[s] {
			return
		}
		for up := range w.userPanics {
			// the library may decorate the value; it must still be the user's
			if strings.Contains(s, up) {
				return
			}
		}
		if p.redKind == 3 && s == "more than one element written in reducer" && p.variant != 1 {
			r.Probe("double-write-panic")
			return
		}
		class := "library-panic"
		if strings.Contains(s, "send on closed channel") && w.writeRacedClose() {
			class = "library-panic/reducer-write-races-close"
		}
		r.Fail(class, "the call panicked with %q which no user function raised (disturbance %s, reducer kind %d)", s, dNames[p.dist], p.redKind)
		return
	}
	if len(w.userPanics) > 0 && p.variant != 5 && p.variant != 3 {
		// a user panic happened; the call may still have returned normally only if the
		// panic came after the result was decided - not checkable soundly; accept
		r.Probe("panic-not-reraised")
	}
	// ---- errors
	allowed := func(e error) bool {
		for _, ce := range w.cancelErrs {
			if errors.Is(e, ce) {
				return true
			}
		}
		if w.cancelNil && errors.Is(e, mr.ErrCancelWithNil) {
			return true
		}
		if (w.ctxEnded || (p.useCtx && p.dist == dCtxDeadline)) && (errors.Is(e, context.DeadlineExceeded) || errors.Is(e, context.Canceled)) {
			return true
		}
		return false
	}
	switch p.variant {
	case 3, 5:
		// ForEach / FinishVoid have no result
	default:
		if err != nil && !allowed(err) {
			if errors.Is(err, mr.ErrReduceNoOutput) && (p.variant == 0 || p.variant == 2) {
				if w.redWrites > 0 && !disturbed {
					r.Fail("lost-output", "reducer wrote %d but the call returned ErrReduceNoOutput", w.redOutput)
				}
				// with a disturbance the reducer's write may have been dropped legitimately
			} else {
				r.Fail("foreign-error", "the call returned error %v which was neither passed to cancel nor a context error (disturbance %s)", err, dNames[p.dist])
			}
			return
		}
	}
	if !disturbed {
		// ---- undisturbed: exactly-once and complete
		if p.variant <= 3 {
			for _, it := range w.generated {
				if w.mapped[it] != 1 {
					r.Fail("map-count", "item %d mapped %d times", it, w.mapped[it])
					return
				}
			}
			if len(w.mapped) != len(w.generated) {
				r.Fail("map-count", "mapped %d distinct items, generated %d", len(w.mapped), len(w.generated))
				return
			}
		} else {
			for i := 0; i < p.items; i++ {
				if fnRuns[i] != 1 {
					r.Fail("fn-count", "Finish: function %d ran %d times", i, fnRuns[i])
					return
				}
			}
		}
		if p.variant <= 2 {
			if !multisetEq(w.written, w.reduced) {
				r.Fail("reduce-multiset", "mappers wrote %v, reducer received %v", w.written, w.reduced)
				return
			}
		}
		if hasVal {
			switch {
			case w.redWrites == 0:
				if !errors.Is(err, mr.ErrReduceNoOutput) {
					r.Fail("no-output", "reducer wrote nothing but the call returned (%d, %v)", val, err)
				}
			case err != nil:
				r.Fail("result", "undisturbed call returned error %v", err)
			case val != w.redOutput:
				r.Fail("result", "reducer wrote %d, the call returned %d", w.redOutput, val)
			}
		} else if err != nil && p.variant != 3 && p.variant != 5 {
			r.Fail("result", "undisturbed call returned error %v", err)
		}
		return
	}
	// ---- disturbed by cancel / context: when a cancel call had returned, or (without injected
	// stalls) had been invoked at a strictly earlier virtual instant than the reducer began its
	// write, the error must win
	if err == nil && p.variant <= 2 || (err == nil && p.variant == 4) {
		mustErr := false
		why := ""
		for _, c := range w.cancelReturned {
			if w.redWrites == 0 || c < w.redWriteStartClk {
				if c < retClk {
					mustErr, why = true, "a cancel call had returned before the reducer began writing"
				}
			}
		}
		if r.Cfg().StallPerMille == 0 {
			for _, at := range w.cancelInvokedAt {
				if w.redWrites > 0 && at < w.redWriteStartAt {
					mustErr, why = true, fmt.Sprintf("cancel was invoked at %v, the reducer began writing at %v", at, w.redWriteStartAt)
				}
			}
		}
		if p.variant == 4 && len(w.cancelErrs) > 0 {
			mustErr, why = true, "a function passed to Finish returned an error"
		}
		if mustErr {
			r.Fail("cancel-ignored", "the call returned (%d, nil) although %s (disturbance %s)", val, why, dNames[p.dist])
		}
	}
}

func TestSim(t *testing.T) {
	simharness.Main(t, &simharness.Spec{ID: "C10", Body: body, StuckIsViolation: true, CrashIsViolation: true})
}
