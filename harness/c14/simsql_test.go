package c14

import (
	"context"
	"database/sql"
	"database/sql/driver"
	"fmt"
	"io"
	"strings"
	"sync"

	"github.com/go-sql-driver/mysql"
)

// simsql: a recording in-memory database/sql/driver with fault points at
// Connect, Begin, every Prepare/Exec/Query, Commit and Rollback.
//
// The driver never calls an engine hook: database/sql may call into it from
// goroutines that are not tasks (the context watcher of a sql.Tx).  Its log is
// therefore protected by a real mutex that is never held across a scheduling
// point.

const driverName = "verif-simsql-c14"

type simDriver struct{}

var registry = struct {
	mu sync.Mutex
	m  map[string]*simDB
	n  int
}{m: map[string]*simDB{}}

func init() { sql.Register(driverName, simDriver{}) }

// register makes db reachable through sql.Open(driverName, dsn) and returns the dsn.
func register(db *simDB) string {
	registry.mu.Lock()
	defer registry.mu.Unlock()
	registry.n++
	dsn := fmt.Sprintf("simsql-%d", registry.n) // never influences behaviour or verdicts
	registry.m[dsn] = db
	return dsn
}

func unregister(dsn string) {
	registry.mu.Lock()
	delete(registry.m, dsn)
	registry.mu.Unlock()
}

func (simDriver) Open(dsn string) (driver.Conn, error) {
	c, err := simDriver{}.OpenConnector(dsn)
	if err != nil {
		return nil, err
	}
	return c.Connect(context.Background())
}

func (simDriver) OpenConnector(dsn string) (driver.Connector, error) {
	registry.mu.Lock()
	db := registry.m[dsn]
	registry.mu.Unlock()
	if db == nil {
		return nil, fmt.Errorf("simsql: unknown dsn %q", dsn)
	}
	return &simConnector{db: db}, nil
}

type simConnector struct{ db *simDB }

func (c *simConnector) Driver() driver.Driver { return simDriver{} }

func (c *simConnector) Connect(context.Context) (driver.Conn, error) {
	db := c.db
	db.mu.Lock()
	defer db.mu.Unlock()
	db.nconn++
	id := db.nconn
	cl := db.who()
	if db.plan(cl).failConnect {
		err := db.injected(cl, "connect")
		db.recordLocked(dbEvent{op: opConnect, client: cl, conn: id, err: err})
		return nil, err
	}
	db.recordLocked(dbEvent{op: opConnect, client: cl, conn: id})
	return &simConn{db: db, id: id}, nil
}

const (
	opConnect  = "connect"
	opBegin    = "begin"
	opPrepare  = "prepare"
	opExec     = "exec"
	opQuery    = "query"
	opCommit   = "commit"
	opRollback = "rollback"
	opClose    = "close"
)

type dbEvent struct {
	seq    int // position in the log (1-based); the harness interleaves its own marks by reading len(log)
	op     string
	client int // client (task) on whose goroutine the driver was called; for commit / rollback: the client that began the transaction
	tag    int // statement tag parsed from the query text (0 when not a statement): 100*client + statement number; the fault maps are keyed by it
	conn   int
	tx     int // transaction number on this database (0 outside a transaction)
	err    error
}

func (e dbEvent) String() string {
	s := fmt.Sprintf("c%d:%s(conn=%d", e.client, e.op, e.conn)
	if e.tx != 0 {
		s += fmt.Sprintf(" tx=%d", e.tx)
	}
	if e.tag != 0 {
		s += fmt.Sprintf(" stmt=%d", e.tag%100)
		if e.tag >= 100 {
			s += fmt.Sprintf("/c%d", e.tag/100)
		}
	}
	s += ")"
	if e.err != nil {
		s += "=ERR"
	}
	return s
}

// simDB is one recording database; a fresh one per run.
type simDB struct {
	mu    sync.Mutex
	name  string
	log   []dbEvent
	nconn int
	ntx   int

	// whoFn tells which client is running (exactly one task runs at a time and
	// database/sql calls the driver on the caller's goroutine).  It only reads
	// scheduler state; it is not a scheduling point.
	whoFn func() int

	// fault plan (set before the transactions start, read-only afterwards)
	plans        map[int]*txFaults // per transaction (world id)
	failStmt     map[int]bool      // statement tag -> its exec/query call fails
	failPrepare  map[int]bool      // statement tag -> its prepare call fails
	emptyStmt    map[int]bool      // statement tag -> query returns no rows
	failRows     map[int]bool      // statement tag -> the result set breaks after its first row (rows.Err)
	faultsFired  map[string]int
	firedIdents  map[string]int // "<fault point>-<identity name>" -> times injected (coverage only)
	injectedErrs map[string]error
}

// txFaults are the fault points armed for one transaction (one Transact call), and the
// identity of the error injected at each point.
type txFaults struct {
	failConnect, failBegin, failCommit, failRollback bool
	// ident: fault point ("connect", "begin", "stmt", "prepare", "rows", "commit", "rollback")
	// -> index into identNames.  Identities 1 and 3 make database/sql retry a failed Begin on
	// other connections (its documented bad-connection handling).
	ident map[string]int
}

// identities of injected driver errors; 0 is the simplest (an opaque error of the stub's own)
var identNames = [...]string{
	"own", "driver.ErrBadConn", "mysql.ErrInvalidConn", "wrapped-ErrBadConn",
	"sql.ErrTxDone", "sql.ErrConnDone", "context.Canceled", "context.DeadlineExceeded",
	"mysql-1213-deadlock", "mysql-1062-duplicate", "wrapped-io.ErrUnexpectedEOF", "sql.ErrNoRows",
	"mysql-1205-lock-wait-timeout",
}

func isBadConnIdent(id int) bool { return id == 1 || id == 3 }

func makeIdentErr(ident int, text string) error {
	switch ident {
	case 1:
		return driver.ErrBadConn
	case 2:
		return mysql.ErrInvalidConn
	case 3:
		return fmt.Errorf("%s: %w", text, driver.ErrBadConn)
	case 4:
		return sql.ErrTxDone
	case 5:
		return sql.ErrConnDone
	case 6:
		return context.Canceled
	case 7:
		return context.DeadlineExceeded
	case 8:
		return &mysql.MySQLError{Number: 1213, SQLState: [5]byte{'4', '0', '0', '0', '1'}, Message: "Deadlock found when trying to get lock; try restarting transaction (" + text + ")"}
	case 9:
		return &mysql.MySQLError{Number: 1062, SQLState: [5]byte{'2', '3', '0', '0', '0'}, Message: "Duplicate entry '7' for key 'PRIMARY' (" + text + ")"}
	case 10:
		return fmt.Errorf("%s: %w", text, io.ErrUnexpectedEOF)
	case 11:
		return sql.ErrNoRows
	case 12:
		return &mysql.MySQLError{Number: 1205, SQLState: [5]byte{'H', 'Y', '0', '0', '0'}, Message: "Lock wait timeout exceeded; try restarting transaction (" + text + ")"}
	default:
		return fmt.Errorf("%s", text)
	}
}

var noFaults = &txFaults{}

func newSimDB(name string) *simDB {
	return &simDB{name: name, plans: map[int]*txFaults{}, failStmt: map[int]bool{}, failPrepare: map[int]bool{}, emptyStmt: map[int]bool{}, failRows: map[int]bool{},
		faultsFired: map[string]int{}, firedIdents: map[string]int{}, injectedErrs: map[string]error{}}
}

func (db *simDB) who() int {
	if db.whoFn == nil {
		return -1
	}
	return db.whoFn()
}

func (db *simDB) plan(client int) *txFaults {
	if p := db.plans[client]; p != nil {
		return p
	}
	return noFaults
}

// injected returns the (unique, stable) error of a fault point and counts it as fired.
func (db *simDB) injected(client int, what string) error {
	key := fmt.Sprintf("c%d/%s", client, what)
	db.faultsFired[key]++
	ident := db.plan(client).ident[what]
	db.firedIdents[what+"-"+identNames[ident]]++
	if e := db.injectedErrs[key]; e != nil {
		return e
	}
	e := makeIdentErr(ident, fmt.Sprintf("simsql[%s]: injected %s failure (transaction c%d)", db.name, what, client))
	db.injectedErrs[key] = e
	return e
}

func (db *simDB) recordLocked(e dbEvent) {
	e.seq = len(db.log) + 1
	db.log = append(db.log, e)
}

// snapshot returns a copy of the log.
func (db *simDB) snapshot() []dbEvent {
	db.mu.Lock()
	defer db.mu.Unlock()
	return append([]dbEvent(nil), db.log...)
}

func (db *simDB) mark() int {
	db.mu.Lock()
	defer db.mu.Unlock()
	return len(db.log)
}

func (db *simDB) fired(client int, what string) int {
	db.mu.Lock()
	defer db.mu.Unlock()
	return db.faultsFired[fmt.Sprintf("c%d/%s", client, what)]
}

func logString(log []dbEvent) string {
	var parts []string
	for _, e := range log {
		parts = append(parts, e.String())
	}
	return strings.Join(parts, " ")
}

// stmtTag parses the statement tag (100*client + statement number) out of "/*s<tag>*/ ...".
func stmtTag(q string) int {
	var k int
	if _, err := fmt.Sscanf(q, "/*s%d*/", &k); err != nil {
		return 0
	}
	return k
}

type simConn struct {
	db     *simDB
	id     int
	tx     int // open transaction number, 0 if none
	closed bool
}

var (
	_ driver.Conn           = (*simConn)(nil)
	_ driver.ConnBeginTx    = (*simConn)(nil)
	_ driver.ExecerContext  = (*simConn)(nil)
	_ driver.QueryerContext = (*simConn)(nil)
	_ driver.Pinger         = (*simConn)(nil)
)

func (c *simConn) Ping(context.Context) error { return nil }

func (c *simConn) Close() error {
	c.db.mu.Lock()
	defer c.db.mu.Unlock()
	c.closed = true
	c.db.recordLocked(dbEvent{op: opClose, client: c.db.who(), conn: c.id})
	return nil
}

func (c *simConn) Begin() (driver.Tx, error) {
	return c.BeginTx(context.Background(), driver.TxOptions{})
}

func (c *simConn) BeginTx(context.Context, driver.TxOptions) (driver.Tx, error) {
	db := c.db
	db.mu.Lock()
	defer db.mu.Unlock()
	cl := db.who()
	if db.plan(cl).failBegin {
		err := db.injected(cl, "begin")
		db.recordLocked(dbEvent{op: opBegin, client: cl, conn: c.id, err: err})
		return nil, err
	}
	db.ntx++
	c.tx = db.ntx
	db.recordLocked(dbEvent{op: opBegin, client: cl, conn: c.id, tx: c.tx})
	return &simTx{c: c, n: c.tx, owner: cl}, nil
}

type simTx struct {
	c     *simConn
	n     int
	owner int // client that began the transaction
}

// end is attributed to the owner of the transaction, not to the calling goroutine: database/sql
// may roll back from its own watcher goroutine.
func (t *simTx) end(op string) error {
	db := t.c.db
	db.mu.Lock()
	defer db.mu.Unlock()
	cl := t.owner
	var err error
	if p := db.plan(cl); (op == opCommit && p.failCommit) || (op == opRollback && p.failRollback) {
		err = db.injected(cl, op)
	}
	db.recordLocked(dbEvent{op: op, client: cl, conn: t.c.id, tx: t.n, err: err})
	t.c.tx = 0
	return err
}

func (t *simTx) Commit() error   { return t.end(opCommit) }
func (t *simTx) Rollback() error { return t.end(opRollback) }

// stmtOwner is the transaction whose fault plan decides the identity of a statement's injected
// error: the one named in the statement's tag (the calling task's current one for untagged text).
func (db *simDB) stmtOwner(tag int) int {
	if tag != 0 {
		return tag / 100
	}
	return db.who()
}

func (c *simConn) Prepare(q string) (driver.Stmt, error) {
	db := c.db
	tag := stmtTag(q)
	db.mu.Lock()
	defer db.mu.Unlock()
	cl := db.who()
	if db.failPrepare[tag] {
		err := db.injected(db.stmtOwner(tag), "prepare")
		db.recordLocked(dbEvent{op: opPrepare, client: cl, tag: tag, conn: c.id, tx: c.tx, err: err})
		return nil, err
	}
	db.recordLocked(dbEvent{op: opPrepare, client: cl, tag: tag, conn: c.id, tx: c.tx})
	return &simStmt{c: c, q: q, tag: tag}, nil
}

func (c *simConn) exec(q string) (driver.Result, error) {
	db := c.db
	tag := stmtTag(q)
	db.mu.Lock()
	defer db.mu.Unlock()
	cl := db.who()
	if db.failStmt[tag] {
		err := db.injected(db.stmtOwner(tag), "stmt")
		db.recordLocked(dbEvent{op: opExec, client: cl, tag: tag, conn: c.id, tx: c.tx, err: err})
		return nil, err
	}
	db.recordLocked(dbEvent{op: opExec, client: cl, tag: tag, conn: c.id, tx: c.tx})
	return driver.RowsAffected(1), nil
}

func (c *simConn) query(q string) (driver.Rows, error) {
	db := c.db
	tag := stmtTag(q)
	db.mu.Lock()
	defer db.mu.Unlock()
	cl := db.who()
	if db.failStmt[tag] {
		err := db.injected(db.stmtOwner(tag), "stmt")
		db.recordLocked(dbEvent{op: opQuery, client: cl, tag: tag, conn: c.id, tx: c.tx, err: err})
		return nil, err
	}
	db.recordLocked(dbEvent{op: opQuery, client: cl, tag: tag, conn: c.id, tx: c.tx})
	rows := &simRows{}
	if db.emptyStmt[tag] {
		db.faultsFired[fmt.Sprintf("c%d/empty", db.stmtOwner(tag))]++
	} else {
		rows.data = [][]driver.Value{{int64(100 + tag)}, {int64(200 + tag)}}
		if db.failRows[tag] {
			// the first row arrives, then the result set breaks (reported by rows.Err)
			rows.data = rows.data[:1]
			rows.tail = db.injected(db.stmtOwner(tag), "rows")
		}
	}
	return rows, nil
}

func (c *simConn) ExecContext(_ context.Context, q string, _ []driver.NamedValue) (driver.Result, error) {
	return c.exec(q)
}

func (c *simConn) QueryContext(_ context.Context, q string, _ []driver.NamedValue) (driver.Rows, error) {
	return c.query(q)
}

type simStmt struct {
	c   *simConn
	q   string
	tag int
}

func (s *simStmt) Close() error  { return nil }
func (s *simStmt) NumInput() int { return -1 }

func (s *simStmt) Exec([]driver.Value) (driver.Result, error) { return s.c.exec(s.q) }
func (s *simStmt) Query([]driver.Value) (driver.Rows, error)  { return s.c.query(s.q) }

type simRows struct {
	data [][]driver.Value
	i    int
	tail error // returned instead of io.EOF after the last row
}

func (r *simRows) Columns() []string { return []string{"v"} }
func (r *simRows) Close() error      { return nil }

func (r *simRows) Next(dest []driver.Value) error {
	if r.i >= len(r.data) {
		if r.tail != nil {
			return r.tail
		}
		return io.EOF
	}
	copy(dest, r.data[r.i])
	r.i++
	return nil
}
