package c14

import (
	"context"
	"database/sql"
	"fmt"
	"strings"
	"time"

	"github.com/zeromicro/go-zero/core/stores/sqlx"

	"verifsim/simrt"
)

// Pool mode: 2-3 client tasks, each running ONE Transact/TransactCtx on the same
// sqlx.SqlConn (one sql.DB pool, one breaker), every client with its own body,
// its own transaction-layer fault plan (db.plans[client]) and its own statement
// faults (keyed by the client's statement tags).  Bodies pause (yield / sleep in
// virtual time) between statements so that the transactions overlap on the pool.
// A client with the ending "asynccancel" has its context cancelled by a separate
// canceller task at a tape-drawn virtual instant, typically while its body sleeps.
//
// Oracle: world.check (the single-client oracle) is applied per client to that
// client's events of the shared driver log (world.mine): its transaction begins
// at most once and ends exactly once with the right commit / rollback, and none
// of its statements runs outside its own transaction - in particular not inside
// another client's transaction.  Nothing in this mode is enumerated: every
// choice is sampled from the tape.
//
// Soundness notes:
//   - go-zero begins with sql.DB.Begin(), i.e. on context.Background(): database/sql
//     never rolls such a transaction back by itself, so commit / rollback reach the
//     driver only from the client's own task.  They are nevertheless attributed by
//     transaction owner (simTx.owner), not by calling goroutine, and the driver never
//     calls an engine hook, so a watcher-goroutine rollback (were go-zero ever to use
//     BeginTx(ctx)) would be recorded safely and judged by the statement as written.
//   - BEGIN and connect are attributed to the running task (Sim.CurrentID): database/sql
//     opens connections and begins on the caller's goroutine as long as MaxOpenConns is
//     unlimited, which NewSqlConnFromDB leaves untouched.
//   - at most 3 transactions share the breaker, fewer than the 6 recorded failures it
//     needs before it may reject, so it stays closed.
//   - a context cancelled before Transact begins makes the breaker wrapper return the
//     context's error without beginning: accepted (nothing ran, error non-nil).

func drawPause(t *simrt.Tape, mustSleep bool) pause {
	if mustSleep {
		return pause{sleep: time.Duration(t.Range(1, 20)) * time.Millisecond}
	}
	switch t.Intn(4) {
	case 1:
		return pause{yields: 1 + t.Intn(2)}
	case 2:
		return pause{sleep: time.Duration(t.Range(1, 5)) * time.Millisecond}
	case 3:
		return pause{sleep: time.Duration(t.Range(10, 50)) * time.Millisecond}
	}
	return pause{}
}

type poolClient struct {
	w        *world
	start    pause         // before the Transact call
	cancelAt time.Duration // endAsyncCancel: virtual instant (from the start of the run) at which the canceller fires
}

func bodyPool(r *simrt.Run, tier string) {
	t := r.Tape
	nC := t.Range(2, 3)
	db := newSimDB("pool")
	taskClient := map[int]int{}
	db.whoFn = func() int {
		if c, ok := taskClient[r.CurrentID()]; ok {
			return c
		}
		return -1 // the main task (sql.Open / Close)
	}

	var cs []*poolClient
	for i := 0; i < nC; i++ {
		tp := tuple{api: t.Intn(nAPI), txf: []int{txfNone, txfNone, txfBegin, txfCommit, txfRollback, txfCommitRollback}[t.Intn(6)], n: t.Intn(4)}
		es := endingsOf(tp.n)
		if e := t.Intn(len(es) + 2); e < len(es) {
			tp.end, tp.pos = ending(es[e][0]), es[e][1]
		} else {
			tp.end, tp.pos = endAsyncCancel, -1
		}
		w := &world{r: r, tp: tp, db: db, client: i, pool: true}
		w.kinds = make([]int, tp.n+1)
		w.useCtx = make([]bool, tp.n+1)
		for k := 1; k <= tp.n; k++ {
			w.kinds[k] = t.Intn(nKinds)
			w.useCtx[k] = t.Bool() || tp.end == endCancel || tp.end == endAsyncCancel
		}
		w.errKind, w.panicKind, w.wrap = t.Intn(5), t.Intn(4), t.Bool()
		failMode := t.Intn(3)
		connectFails := t.Chance(1, 4)
		plan := &txFaults{}
		db.plans[i] = plan
		switch tp.txf {
		case txfBegin:
			if connectFails {
				plan.failConnect = true // fires only if this client's BEGIN has to open a new connection
			} else {
				plan.failBegin = true
			}
		case txfCommit:
			plan.failCommit = true
		case txfRollback:
			plan.failRollback = true
		case txfCommitRollback:
			plan.failCommit, plan.failRollback = true, true
		}
		if tp.end == endStmtFail || tp.end == endStmtIgnored {
			k := tp.pos
			tag := 100*i + k
			switch kind := w.kinds[k]; {
			case failMode == 1 && (kind == kQueryRow || kind == kPrepQueryRow):
				db.emptyStmt[tag] = true
			case failMode == 2 && (kind == kPrepExec || kind == kPrepQueryRow):
				db.failPrepare[tag] = true
			default:
				db.failStmt[tag] = true
			}
		}
		pc := &poolClient{w: w, start: drawPause(t, false)}
		async := tp.end == endAsyncCancel
		total := pc.start.sleep
		for k := 0; k <= tp.n; k++ {
			p := drawPause(t, async)
			w.pauses = append(w.pauses, p)
			total += p.sleep
		}
		if async {
			w.ignoreCancel = t.Bool()
			// anywhere from "before the call" to "after the body has finished"
			pc.cancelAt = time.Duration(t.Intn(int((total+5*time.Millisecond)/time.Millisecond)+1)) * time.Millisecond
		}
		cs = append(cs, pc)
	}

	dsn := register(db)
	defer unregister(dsn)
	sqlDB, err := sql.Open(driverName, dsn)
	if err != nil {
		r.EngineError("sql.Open: %v", err)
		return
	}
	defer sqlDB.Close()
	conn := sqlx.NewSqlConnFromDB(sqlDB)

	if r.Tracing() {
		for _, pc := range cs {
			w := pc.w
			var ks []string
			for k := 1; k <= w.tp.n; k++ {
				ks = append(ks, fmt.Sprintf("%s(ctx=%v)", kindNames[w.kinds[k]], w.useCtx[k]))
			}
			r.Logf("pool client c%d: api=%s tuple=%s statements=%v start=%+v pauses=%+v cancelAt=%v ignoreCancel=%v errKind=%d panicKind=%d wrap=%v plan=%+v",
				w.client, apiNames[w.tp.api], w.tp.name(), ks, pc.start, w.pauses, pc.cancelAt, w.ignoreCancel, w.errKind, w.panicKind, w.wrap, *db.plans[w.client])
		}
	}

	var tasks []*simrt.Task
	for _, pc := range cs {
		pc := pc
		w := pc.w
		w.bctx, w.cancel = context.WithCancel(context.Background())
		defer w.cancel()
		r.Ev("pool-client", int64(w.client), int64(w.tp.api), int64(w.tp.txf), int64(w.tp.n), int64(w.tp.end), int64(w.tp.pos))
		task := r.Go(fmt.Sprintf("client%d", w.client), func() {
			for i := 0; i < pc.start.yields; i++ {
				r.Yield()
			}
			if pc.start.sleep > 0 {
				r.Sleep(pc.start.sleep)
			}
			w.transact(conn)
		})
		taskClient[task.ID] = w.client
		tasks = append(tasks, task)
		if w.tp.end == endAsyncCancel {
			tasks = append(tasks, r.Go(fmt.Sprintf("canceller%d", w.client), func() {
				if pc.cancelAt > 0 {
					r.Sleep(pc.cancelAt)
				}
				switch {
				case w.bodyRuns == 0:
					r.Probe("pool-cancel-before-body")
				case w.outcome == "running":
					r.Probe("pool-cancel-while-body-paused")
				default:
					r.Probe("pool-cancel-after-body")
				}
				w.cancelFired = true
				w.cancel()
			}))
		}
	}
	if !r.JoinTimeout(time.Hour, tasks...) {
		r.Fail("stuck", "pool mode: transactions did not all return within an hour of virtual time: %v", r.AliveTasks())
		return
	}

	log := db.snapshot()
	for _, e := range log {
		flag := int64(0)
		if e.err != nil {
			flag = 1
		}
		r.Ev(e.op, int64(e.client), int64(e.tag), flag)
	}
	if r.Tracing() {
		r.Logf("driver log: %s", logString(log))
		for _, pc := range cs {
			w := pc.w
			r.Logf("c%d: body runs=%d outcome=%s bodyErr=%v; Transact returned %v (escaped panic: %v) cancelledAtReturn=%v", w.client, w.bodyRuns, w.outcome, w.bodyErr, w.ret, w.escaped, w.cancelledAtReturn)
		}
	}

	// ---- oracle, per client
	for _, pc := range cs {
		w := pc.w
		w.check(log, w.ret, w.didEscape, w.escaped, 0)
		if r.Failed() {
			return
		}
	}
	// ended at the database/sql level too: every connection went back to the pool
	if inUse := sqlDB.Stats().InUse; inUse != 0 {
		r.Fail("tx-left-open", "pool mode: %d connection(s) still checked out after every Transact returned. driver log: %s", inUse, logString(log))
		return
	}

	// ---- coverage bookkeeping
	r.Probe("oracle")
	r.Probe("nontrivial")
	r.Probe("pool-mode")
	open, overlapped, reused := map[int]bool{}, false, false
	connUsed := map[int]bool{}
	for _, e := range log {
		switch e.op {
		case opBegin:
			if e.err == nil {
				if len(open) > 0 {
					overlapped = true
				}
				open[e.tx] = true
				if connUsed[e.conn] {
					reused = true
				}
				connUsed[e.conn] = true
			}
		case opCommit, opRollback:
			delete(open, e.tx)
		}
	}
	if overlapped {
		r.Probe("pool-transactions-overlapped")
	}
	if reused {
		r.Probe("pool-connection-reused")
	}
	var descr []string
	for _, pc := range cs {
		w := pc.w
		r.Probe("pool-api-" + apiNames[w.tp.api])
		r.Probe("pool-ending-" + endingNames[w.tp.end])
		for _, what := range []string{"begin", "connect", "commit", "rollback", "stmt", "prepare", "empty"} {
			if db.fired(w.client, what) > 0 {
				r.Probe("pool-fault-fired-" + what)
			}
		}
		if w.unexpected > 0 {
			r.Probe("unplanned-statement-error")
		}
		retStr := "<nil>"
		if w.ret != nil {
			retStr = w.ret.Error()
		}
		descr = append(descr, fmt.Sprintf("c%d %s %s -> body %s, returned %s", w.client, apiNames[w.tp.api], w.tp.name(), w.outcome, retStr))
	}
	r.Sample(map[string]any{"mode": "pool", "clients": nC, "transactions": strings.Join(descr, " | "), "driver_log": logString(log)})
}
