package c14

import (
	"context"
	"fmt"
	"strings"
	"time"

	"verifsim/simrt"
)

// Pool mode: 2-3 client tasks, each running 1-2 Transact/TransactCtx calls one after
// another on the same sqlx.SqlConn (one sql.DB pool, one breaker), every transaction with its
// own body, its own transaction-layer fault plan (db.plans[world id]) and its own statement
// faults (keyed by the statement tags).  Bodies pause (yield / sleep in virtual time) between
// statements so that the transactions overlap on the pool.  A transaction with the ending
// "asynccancel" has its context ended at a tape-drawn virtual instant, typically while its
// body sleeps: either cancelled by a separate canceller task or by its deadline.
//
// Oracle: world.check (the single-client oracle) is applied per transaction to its events of
// the shared driver log (world.mine): it begins at most once and ends exactly once with the
// right commit / rollback, and none of its statements runs outside its own transaction - in
// particular not inside another client's transaction.  Nothing in this mode is enumerated:
// every choice is sampled from the tape.
//
// Soundness notes:
//   - go-zero begins with sql.DB.Begin(), i.e. on context.Background(): database/sql
//     never rolls such a transaction back by itself, so commit / rollback reach the
//     driver only from the client's own task.  They are nevertheless attributed by
//     transaction owner (simTx.owner), not by calling goroutine, and the driver never
//     calls an engine hook, so a watcher-goroutine rollback (were go-zero ever to use
//     BeginTx(ctx)) would be recorded safely and judged by the statement as written.
//   - BEGIN and connect are attributed to the innermost Transact call in progress on the running
//     task (Sim.CurrentID): database/sql opens connections and begins on the caller's goroutine
//     as long as fewer than MaxOpenConns connections are open (unlimited for NewSqlConnFromDB,
//     64 for the pool that sqlx.NewSqlConn manages; a run opens at most a handful).
//   - a call may be rejected by the SqlConn's breaker (after several failed transactions):
//     nothing runs and breaker.ErrServiceUnavailable is returned - within the statement.
//   - a context that has ended before Transact begins makes the breaker wrapper return the
//     context's error without beginning: accepted (nothing ran, error non-nil).

type poolClient struct {
	start  pause // before the first Transact call
	worlds []*world
}

func bodyPool(r *simrt.Run, tier string) {
	t := r.Tape
	nC := t.Range(2, 3)
	e := newEnv(r, tier, "pool", true)
	defer e.finish()
	connKind := []int{ckFromDB, ckFromDB, ckFromDBAccept, ckManaged}[t.Intn(4)]
	var accModes []int
	if connKind == ckFromDBAccept {
		accModes = []int{t.Intn(3)}
	}
	if connKind == ckManaged {
		e.maxSleep = 50 * time.Millisecond // see body: stay far below the pool's connection lifetime
	}

	var cs []*poolClient
	for i := 0; i < nC; i++ {
		pc := &poolClient{start: drawPause(t, false, 50*time.Millisecond)}
		nTx := []int{1, 1, 1, 2}[t.Intn(4)]
		elapsed := pc.start.sleep
		for j := 0; j < nTx; j++ {
			tp := tuple{api: t.Intn(nAPI), txf: []int{txfNone, txfNone, txfBegin, txfCommit, txfRollback, txfCommitRollback}[t.Intn(6)], n: t.Intn(4)}
			es := endingsOf(tp.n)
			if k := t.Intn(len(es) + 2); k < len(es) {
				tp.end, tp.pos = ending(es[k][0]), es[k][1]
			} else {
				tp.end, tp.pos = endAsyncCancel, -1
			}
			w := e.drawWorld(tp, 0, false)
			total := elapsed + w.sleepTotal()
			if tp.end == endAsyncCancel {
				// anywhere from "before the call" to "after the body has finished"
				w.cancelAt = time.Duration(t.Intn(int((total+5*time.Millisecond)/time.Millisecond)+1)) * time.Millisecond
			}
			elapsed = total
			pc.worlds = append(pc.worlds, w)
		}
		cs = append(cs, pc)
	}

	cleanup, ok := e.open(connKind, accModes)
	if !ok {
		return
	}
	defer cleanup()

	if r.Tracing() {
		logf(r, "pool mode: conn=%s acceptable-modes=%v", connNames[connKind], accModes)
		for i, pc := range cs {
			logf(r, "client %d start=%+v", i, pc.start)
			for _, w := range pc.worlds {
				logf(r, "  plan %s", w.describe())
				if w.nested != nil {
					logf(r, "  plan %s", w.nested.describe())
				}
			}
		}
	}

	var tasks []*simrt.Task
	for i, pc := range cs {
		pc := pc
		for _, w := range pc.worlds {
			w := w
			// the contexts exist from the start of the run (a canceller may fire before the call)
			w.makeCtx(context.Background())
			r.Ev("pool-client", int64(i), int64(w.id), int64(w.tp.api), int64(w.tp.txf), int64(w.tp.n), int64(w.tp.end), int64(w.tp.pos))
			if w.tp.end == endAsyncCancel && w.ctxKind != cxAsyncDeadline {
				tasks = append(tasks, r.Go(fmt.Sprintf("canceller%d", w.id), func() {
					if w.cancelAt > 0 {
						r.Sleep(w.cancelAt)
					}
					switch {
					case w.bodyRuns == 0:
						r.Probe("pool-cancel-before-body")
					case w.outcome == "running":
						r.Probe("pool-cancel-while-body-paused")
					default:
						r.Probe("pool-cancel-after-body")
					}
					w.cancel()
				}))
			}
		}
		tasks = append(tasks, r.Go(fmt.Sprintf("client%d", i), func() {
			for k := 0; k < pc.start.yields; k++ {
				r.Yield()
			}
			if pc.start.sleep > 0 {
				r.Sleep(pc.start.sleep)
			}
			for _, w := range pc.worlds {
				w.transact(context.Background())
			}
		}))
	}
	if !r.JoinTimeout(time.Hour, tasks...) {
		failf(r, "stuck", "pool mode: transactions did not all return within an hour of virtual time: %v", r.AliveTasks())
		return
	}

	log := e.db.snapshot()
	for _, ev := range log {
		flag := int64(0)
		if ev.err != nil {
			flag = 1
		}
		r.Ev(ev.op, int64(ev.client), int64(ev.tag), flag)
	}
	if r.Tracing() {
		logf(r, "driver log: %s", logString(log))
		for _, w := range e.worlds {
			if w.called {
				logf(r, "c%d: body runs=%d outcome=%s bodyErr=%v; Transact returned %v (escaped panic: %v) ctx at return: %v", w.id, w.bodyRuns, w.outcome, w.bodyErr, w.ret, w.escaped, w.ctxErrAtReturn)
			}
		}
	}

	// ---- oracle, per transaction
	for _, w := range e.worlds {
		if !w.called {
			continue
		}
		w.check(log)
		if r.Failed() {
			return
		}
	}
	// ended at the database/sql level too: every connection went back to the pool
	raw := e.sqlDB
	if raw == nil {
		raw, _ = e.conn.RawDB()
	}
	if raw != nil {
		if inUse := raw.Stats().InUse; inUse != 0 {
			failf(r, "tx-left-open", "pool mode: %d connection(s) still checked out after every Transact returned. driver log: %s", inUse, logString(log))
			return
		}
	}

	// ---- coverage bookkeeping
	r.Probe("oracle")
	r.Probe("nontrivial")
	r.Probe("pool-mode")
	r.Probe("pool-conn-" + connNames[connKind])
	open, overlapped, reused := map[int]bool{}, false, false
	connUsed := map[int]bool{}
	for _, ev := range log {
		switch ev.op {
		case opBegin:
			if ev.err == nil {
				if len(open) > 0 {
					overlapped = true
				}
				open[ev.tx] = true
				if connUsed[ev.conn] {
					reused = true
				}
				connUsed[ev.conn] = true
			}
		case opCommit, opRollback:
			delete(open, ev.tx)
		}
	}
	if overlapped {
		r.Probe("pool-transactions-overlapped")
	}
	if reused {
		r.Probe("pool-connection-reused")
	}
	var descr []string
	for _, pc := range cs {
		if len(pc.worlds) > 1 {
			r.Probe("pool-client-with-two-transactions")
		}
	}
	for _, w := range e.worlds {
		if !w.called {
			continue
		}
		r.Probe("pool-api-" + apiNames[w.tp.api])
		r.Probe("pool-ending-" + endingNames[w.tp.end])
		if w.tp.end == endAsyncCancel && w.ctxKind == cxAsyncDeadline {
			switch {
			case w.ctxDoneAtCall:
				r.Probe("pool-deadline-before-call")
			case w.ctxErrAtReturn != nil:
				r.Probe("pool-deadline-during-call")
			default:
				r.Probe("pool-deadline-after-call")
			}
		}
		if w.tp.end == endAsyncCancel && w.refusedAfterDone > 0 {
			r.Probe("pool-stmt-refused-after-async-cancel")
		}
		descr = append(descr, w.summary())
	}
	e.coverage()
	r.Sample(map[string]any{"mode": "pool", "clients": nC, "conn": connNames[connKind], "transactions": strings.Join(descr, " | "), "driver_log": logString(log)})
}
