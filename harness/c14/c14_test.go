package c14

import (
	"context"
	"database/sql"
	"errors"
	"fmt"
	"strings"
	"testing"
	"time"

	"github.com/zeromicro/go-zero/core/logx"
	"github.com/zeromicro/go-zero/core/stores/sqlc"
	"github.com/zeromicro/go-zero/core/stores/sqlx"

	"verifsim/simharness"
	"verifsim/simrt"
)

// C14: Transact/TransactCtx begins one transaction and ends it exactly once:
// commit iff the body returned nil, rollback if it returned an error or
// panicked (reported as an error); body not run if the transaction cannot
// begin; returned error nil only when the commit succeeded; commit / rollback
// failures reported.
//
// Enumerated mode (4 runs out of 5): every run executes ONE transaction on a fresh
// database; the (api, tx-layer fault, body size, body ending, position) tuple is
// decoded from one uniform draw, so a batch covers the whole space many times
// (measured by the tuple-* probes; the draw is random, not a counter).
//
// Pool mode (1 run out of 5, pool_test.go): 2-3 client tasks each run one
// transaction on the SAME sql.DB / SqlConn, with their own fault plans, pauses
// inside the bodies and optionally a canceller task; the same oracle is applied
// per client to that client's events in the shared driver log.

func init() { logx.Disable() }

// ---- the enumerated space ---------------------------------------------------

type ending int

const (
	endNil         ending = iota // body runs its n statements and returns nil
	endErr                       // body returns an error of its own after pos statements
	endPanic                     // body panics after pos statements
	endStmtFail                  // the pos-th statement fails in the driver, body returns that error
	endStmtIgnored               // the pos-th statement fails, body ignores it, finishes, returns nil
	endCancel                    // body cancels the context after pos statements and carries on
	endAsyncCancel               // pool mode only (not part of the enumerated space): a canceller task cancels the context at a tape-drawn virtual instant while the body pauses between statements
)

var endingNames = [...]string{"nil", "err", "panic", "stmtfail", "stmtignored", "cancel", "asynccancel"}

const (
	txfNone = iota
	txfBegin
	txfCommit
	txfRollback
	txfCommitRollback
	nTxf
)

var txfNames = [...]string{"nofault", "beginfails", "commitfails", "rollbackfails", "commit+rollbackfail"}

const (
	apiSqlxTransact = iota
	apiSqlxTransactCtx
	apiSqlcTransact
	apiSqlcTransactCtx
	nAPI
)

var apiNames = [...]string{"sqlx.Transact", "sqlx.TransactCtx", "sqlc.Transact", "sqlc.TransactCtx"}

const maxEnumN = 4

type tuple struct {
	api, txf, n int
	end         ending
	pos         int
}

// name identifies the (body size, ending, position, tx-layer fault) tuple; the
// api is reported separately (it is swept too, see spaceSize).
func (tp tuple) name() string {
	s := fmt.Sprintf("n%d-%s", tp.n, endingNames[tp.end])
	if tp.end != endNil && tp.end != endAsyncCancel {
		s += fmt.Sprintf("@%d", tp.pos)
	}
	return s + "-" + txfNames[tp.txf]
}

// endingsOf lists every (ending, position) for a body of n statements, simplest first.
func endingsOf(n int) [][2]int {
	out := [][2]int{{int(endNil), 0}}
	for k := 0; k <= n; k++ {
		out = append(out, [2]int{int(endErr), k})
	}
	for k := 0; k <= n; k++ {
		out = append(out, [2]int{int(endPanic), k})
	}
	for k := 1; k <= n; k++ {
		out = append(out, [2]int{int(endStmtFail), k})
	}
	for k := 1; k <= n; k++ {
		out = append(out, [2]int{int(endStmtIgnored), k})
	}
	for k := 0; k <= n; k++ {
		out = append(out, [2]int{int(endCancel), k})
	}
	return out
}

var bodySpace = func() (out []tuple) {
	for n := 0; n <= maxEnumN; n++ {
		for _, e := range endingsOf(n) {
			out = append(out, tuple{n: n, end: ending(e[0]), pos: e[1]})
		}
	}
	return
}()

// spaceSize = |bodies| x |tx faults| x |apis| (70 x 5 x 4 = 1400).
var spaceSize = len(bodySpace) * nTxf * nAPI

func decode(idx int) tuple {
	api := idx % nAPI
	idx /= nAPI
	txf := idx % nTxf
	idx /= nTxf
	tp := bodySpace[idx%len(bodySpace)]
	tp.api, tp.txf = api, txf
	return tp
}

// ---- the workload -------------------------------------------------------------

const (
	kExec = iota
	kQueryRow
	kQueryRows
	kPrepExec
	kPrepQueryRow
	nKinds
)

var kindNames = [...]string{"Exec", "QueryRow", "QueryRows", "Prepare+Exec", "Prepare+QueryRow"}

type customPanic struct{ code int }

type pause struct {
	yields int
	sleep  time.Duration
}

type world struct {
	r      *simrt.Run
	db     *simDB
	tp     tuple
	client int  // 0 in the enumerated mode
	pool   bool // pool mode: the driver log is shared with other clients
	// pool mode only
	pauses             []pause // pauses[k]: before the action "after k statements"
	ignoreCancel       bool    // endAsyncCancel: the body ignores statements refused because of the cancelled context
	cancelFired        bool    // set by the canceller task right before it cancels
	cancelledAtReturn  bool
	ret                error
	escaped            any
	didEscape          bool
	kinds              []int  // statement kinds, 1-based
	useCtx             []bool // statement uses the *Ctx method with the body's context
	wrap               bool   // body wraps a statement error before returning it
	errKind, panicKind int
	cancel             context.CancelFunc
	bctx               context.Context

	bodyRuns    int
	outcome     string // "nil" | "err" | "panic" of the last body execution
	bodyErr     error
	bodyEndMark int // number of driver events when the body finished
	stmtsIssued int
	unexpected  int
}

// query tags the statement text with 100*client + statement number (see simsql stmtTag).
func query(tag int, suffix string) string {
	return fmt.Sprintf("/*s%d*/ %s where id = ?", tag, suffix)
}

// stmt issues the k-th statement of the body on the transaction session.
func (w *world) stmt(ctx context.Context, s sqlx.Session, k int) error {
	w.stmtsIssued++
	uc := w.useCtx[k]
	tag := 100*w.client + k
	switch w.kinds[k] {
	case kExec:
		q := query(tag, "update t set v = v + 1")
		if uc {
			_, err := s.ExecCtx(ctx, q, k)
			return err
		}
		_, err := s.Exec(q, k)
		return err
	case kQueryRow:
		var v int64
		q := query(tag, "select v from t")
		if uc {
			return s.QueryRowCtx(ctx, &v, q, k)
		}
		return s.QueryRow(&v, q, k)
	case kQueryRows:
		var vs []int64
		q := query(tag, "select v from t")
		if uc {
			return s.QueryRowsCtx(ctx, &vs, q, k)
		}
		return s.QueryRows(&vs, q, k)
	default:
		q := query(tag, "update t set v = v - 1")
		if w.kinds[k] == kPrepQueryRow {
			q = query(tag, "select v from t")
		}
		var st sqlx.StmtSession
		var err error
		if uc {
			st, err = s.PrepareCtx(ctx, q)
		} else {
			st, err = s.Prepare(q)
		}
		if err != nil {
			return err
		}
		defer st.Close()
		if w.kinds[k] == kPrepQueryRow {
			var v int64
			if uc {
				return st.QueryRowCtx(ctx, &v, k)
			}
			return st.QueryRow(&v, k)
		}
		if uc {
			_, err = st.ExecCtx(ctx, k)
		} else {
			_, err = st.Exec(k)
		}
		return err
	}
}

func (w *world) ownError() error {
	switch w.errKind {
	case 1:
		return sql.ErrNoRows // "acceptable" for the breaker: must still roll back
	case 2:
		return context.Canceled
	case 3:
		return sql.ErrTxDone
	case 4:
		return fmt.Errorf("wrapped: %w", sqlx.ErrNotFound)
	default:
		return errors.New("body: business rule failed")
	}
}

func (w *world) panicValue() any {
	switch w.panicKind {
	case 1:
		return errors.New("body: panic with an error value")
	case 2:
		return customPanic{code: 42}
	case 3:
		return nil // panic(nil): a *runtime.PanicNilError since go1.21
	default:
		return "body: boom"
	}
}

func (w *world) finish(outcome string, err error) error {
	w.outcome, w.bodyErr = outcome, err
	w.bodyEndMark = w.db.mark()
	return err
}

// txBody is the function handed to Transact/TransactCtx.
func (w *world) txBody(ctx context.Context, s sqlx.Session) error {
	w.bodyRuns++
	w.outcome = "running"
	tp := w.tp
	for done := 0; ; done++ {
		if done < len(w.pauses) { // pool mode: let the other clients (and the canceller) run
			for i := 0; i < w.pauses[done].yields; i++ {
				w.r.Yield()
			}
			if d := w.pauses[done].sleep; d > 0 {
				w.r.Sleep(d)
			}
		}
		// action "after <done> statements"
		if tp.pos == done && tp.end != endAsyncCancel {
			switch tp.end {
			case endErr:
				return w.finish("err", w.ownError())
			case endPanic:
				w.finish("panic", nil)
				panic(w.panicValue())
			case endCancel:
				w.cancel()
				w.r.Probe("ctx-cancelled-in-body")
			}
		}
		if done == tp.n {
			break
		}
		if err := w.stmt(ctx, s, done+1); err != nil {
			planned := (tp.end == endStmtFail || tp.end == endStmtIgnored) && tp.pos == done+1
			if tp.end == endCancel && done >= tp.pos && errors.Is(err, context.Canceled) {
				w.r.Probe("stmt-refused-after-cancel")
				planned = true
			}
			if tp.end == endAsyncCancel && w.cancelFired && errors.Is(err, context.Canceled) {
				w.r.Probe("pool-stmt-refused-after-async-cancel")
				planned = true
				if w.ignoreCancel {
					continue
				}
			}
			if !planned {
				w.unexpected++
			}
			if tp.end == endStmtIgnored && tp.pos == done+1 {
				continue
			}
			if w.wrap {
				err = fmt.Errorf("body: statement %d: %w", done+1, err)
			}
			return w.finish("err", err)
		}
	}
	return w.finish("nil", nil)
}

func drawPlan(r *simrt.Run, tier string) (tuple, bool) {
	t := r.Tape
	idx := t.Intn(spaceSize)
	tp := decode(idx)
	r.Ev("tuple", int64(idx))
	if tier == "thorough" && t.Chance(1, 4) {
		// sampled, not enumerated: longer bodies
		tp.n = t.Range(maxEnumN+1, 9)
		es := endingsOf(tp.n)
		e := es[t.Intn(len(es))]
		tp.end, tp.pos = ending(e[0]), e[1]
		r.Ev("large", int64(tp.n), int64(tp.end), int64(tp.pos))
		return tp, true
	}
	return tp, false
}

func body(r *simrt.Run, tier string) {
	t := r.Tape
	if nextMode == modePool {
		bodyPool(r, tier)
		return
	}
	tp, sampled := drawPlan(r, tier)
	w := &world{r: r, tp: tp, db: newSimDB(tp.name())}
	w.db.errKind = []int{0, 0, 1, 2, 3}[t.Intn(5)]
	if w.db.errKind != 0 {
		r.Probe(fmt.Sprintf("injected-error-identity-%d", w.db.errKind))
	}
	db := w.db

	// secondary choices (not part of the enumerated tuple)
	w.kinds = make([]int, tp.n+1)
	w.useCtx = make([]bool, tp.n+1)
	for k := 1; k <= tp.n; k++ {
		w.kinds[k] = t.Intn(nKinds)
		w.useCtx[k] = t.Bool() || tp.end == endCancel
	}
	w.errKind, w.panicKind, w.wrap = t.Intn(5), t.Intn(4), t.Bool()
	failMode := t.Intn(3)
	connectFails := t.Chance(1, 4)

	plan := &txFaults{}
	db.plans[0] = plan
	switch tp.txf {
	case txfBegin:
		if connectFails {
			plan.failConnect = true
		} else {
			plan.failBegin = true
		}
	case txfCommit:
		plan.failCommit = true
	case txfRollback:
		plan.failRollback = true
	case txfCommitRollback:
		plan.failCommit, plan.failRollback = true, true
	}
	if tp.end == endStmtFail || tp.end == endStmtIgnored {
		k := tp.pos
		switch kind := w.kinds[k]; {
		case failMode == 1 && (kind == kQueryRow || kind == kPrepQueryRow):
			db.emptyStmt[k] = true // no driver error: go-zero turns the empty result into ErrNotFound
		case failMode == 2 && (kind == kPrepExec || kind == kPrepQueryRow):
			db.failPrepare[k] = true
		default:
			db.failStmt[k] = true
		}
	}

	dsn := register(db)
	defer unregister(dsn)
	sqlDB, err := sql.Open(driverName, dsn)
	if err != nil {
		r.EngineError("sql.Open: %v", err)
		return
	}
	defer sqlDB.Close() // ends database/sql's connectionOpener goroutine of this run
	conn := sqlx.NewSqlConnFromDB(sqlDB)
	w.bctx, w.cancel = context.WithCancel(context.Background())
	defer w.cancel()

	if r.Tracing() {
		var ks []string
		for k := 1; k <= tp.n; k++ {
			ks = append(ks, fmt.Sprintf("%s(ctx=%v)", kindNames[w.kinds[k]], w.useCtx[k]))
		}
		r.Logf("plan api=%s tuple=%s statements=%v errKind=%d panicKind=%d wrap=%v failMode=%d connectFails=%v",
			apiNames[tp.api], tp.name(), ks, w.errKind, w.panicKind, w.wrap, failMode, plan.failConnect)
	}

	// ---- the one transaction of this run
	w.transact(conn)
	ret, escaped, didEscape := w.ret, w.escaped, w.didEscape

	log := db.snapshot()
	for _, e := range log {
		flag := int64(0)
		if e.err != nil {
			flag = 1
		}
		r.Ev(e.op, int64(e.tag), flag)
	}
	if r.Tracing() {
		r.Logf("driver log: %s", logString(db.snapshot()))
		r.Logf("body runs=%d outcome=%s bodyErr=%v; Transact returned %v (escaped panic: %v)", w.bodyRuns, w.outcome, w.bodyErr, ret, escaped)
	}
	w.check(log, ret, didEscape, escaped, sqlDB.Stats().InUse)

	// ---- coverage bookkeeping
	r.Probe("oracle")
	r.Probe("nontrivial")
	r.Probe("api-" + apiNames[tp.api])
	if sampled {
		r.Probe("sampled-large-body")
	} else {
		r.Probe("tuple-" + tp.name())
	}
	for _, what := range []string{"begin", "connect", "commit", "rollback"} {
		if db.fired(0, what) > 0 {
			r.Probe("fault-fired-" + what)
		}
	}
	if tp.end == endStmtFail || tp.end == endStmtIgnored {
		switch {
		case db.fired(0, "stmt") > 0:
			r.Probe("fault-fired-statement")
		case db.fired(0, "prepare") > 0:
			r.Probe("fault-fired-prepare")
		case db.fired(0, "empty") > 0:
			r.Probe("fault-fired-empty-result")
		}
	}
	if w.outcome == "panic" {
		r.Probe("body-panicked")
	}
	if w.unexpected > 0 {
		r.Probe("unplanned-statement-error")
	}
	retStr := "<nil>"
	if ret != nil {
		retStr = ret.Error()
	}
	r.Sample(map[string]any{"api": apiNames[tp.api], "tuple": tp.name(), "statements": tp.n, "driver_log": logString(db.snapshot()),
		"body_outcome": w.outcome, "returned": retStr})
}

// transact performs the client's one Transact/TransactCtx call and keeps what the caller got.
func (w *world) transact(conn sqlx.SqlConn) {
	defer func() {
		if p := recover(); p != nil {
			w.escaped, w.didEscape = p, true
		}
		w.cancelledAtReturn = w.cancelFired
	}()
	plain := func(s sqlx.Session) error { return w.txBody(w.bctx, s) }
	switch w.tp.api {
	case apiSqlxTransact:
		w.ret = conn.Transact(plain)
	case apiSqlxTransactCtx:
		w.ret = conn.TransactCtx(w.bctx, w.txBody)
	case apiSqlcTransact:
		w.ret = sqlc.NewConnWithCache(conn, nil).Transact(plain)
	default:
		w.ret = sqlc.NewConnWithCache(conn, nil).TransactCtx(w.bctx, w.txBody)
	}
}

// mine selects the events of the shared driver log that belong to this client:
// statements by the client number in their tag, BEGIN / connect by the task on which the
// driver was called, COMMIT / ROLLBACK by the client that began the transaction.
func (w *world) mine(log []dbEvent) []dbEvent {
	if !w.pool {
		return log
	}
	var out []dbEvent
	for _, e := range log {
		if (e.tag != 0 && e.tag/100 == w.client) || (e.tag == 0 && e.client == w.client) {
			out = append(out, e)
		}
	}
	return out
}

// reports tells whether the error handed to the caller carries the given failure.
func reports(ret, cause error) bool {
	if ret == nil || cause == nil {
		return false
	}
	return errors.Is(ret, cause) || strings.Contains(ret.Error(), cause.Error())
}

// check is the oracle: it decides the property statement on the driver's
// begin/statement/commit/rollback log, what the body did, and what the caller got.
func (w *world) check(log []dbEvent, ret error, didEscape bool, escaped any, inUse int) {
	r := w.r
	log = w.mine(log)
	var begins, okBegins, connectFailures int
	var txn int
	var beginSeq int
	for _, e := range log {
		switch e.op {
		case opBegin:
			begins++
			if e.err == nil {
				okBegins++
				txn, beginSeq = e.tx, e.seq
			}
		case opConnect:
			if e.err != nil {
				connectFailures++
			}
		}
	}
	trail := func() string {
		who := ""
		if w.pool {
			who = fmt.Sprintf("client c%d of a shared pool, ", w.client)
		}
		return fmt.Sprintf("[%sapi %s, tuple %s] driver log: %s; body runs=%d outcome=%s; returned error: %v",
			who, apiNames[w.tp.api], w.tp.name(), logString(w.db.snapshot()), w.bodyRuns, w.outcome, ret)
	}

	// "begins one transaction": at most one transaction is opened; database/sql itself retries a
	// Begin that failed with a bad-connection error on other connections (up to three attempts),
	// which opens nothing
	badConn := w.db.errKind == 1 || w.db.errKind == 3
	if okBegins > 1 || (begins > 1 && !badConn) || begins > 3 {
		r.Fail("begin-count", "%d transactions begun (%d begin attempts) by one Transact call. %s", okBegins, begins, trail())
		return
	}
	// "the body is not run if the transaction cannot begin"
	if okBegins == 0 && w.bodyRuns > 0 {
		r.Fail("body-run-without-begin", "the body ran although no transaction had begun. %s", trail())
		return
	}
	// "the panic is reported as an error"
	if didEscape {
		if w.outcome == "panic" {
			r.Fail("panic-escaped", "the body's panic escaped Transact instead of being reported as an error: %v. %s", escaped, trail())
		} else {
			r.Fail("internal-panic", "Transact panicked although the body did not: %v. %s", escaped, trail())
		}
		return
	}
	if okBegins == 0 {
		if begins == 0 && connectFailures == 0 {
			if w.cancelledAtReturn && w.bodyRuns == 0 && errors.Is(ret, context.Canceled) {
				// pool mode: the canceller fired before the transaction began; refusing to begin
				// on a done context (nothing run, the context's error returned) is within the statement
				r.Probe("pool-cancelled-before-begin")
				return
			}
			r.Fail("no-begin", "Transact returned without trying to begin a transaction. %s", trail())
			return
		}
		r.Probe("begin-failed-body-skipped")
		// "the returned error is nil only when the commit succeeded"
		if ret == nil {
			r.Fail("nil-error-without-commit:begin-failed", "Transact returned nil although the transaction could not begin. %s", trail())
		}
		return
	}
	// transaction txn is open from beginSeq on
	if w.bodyRuns != 1 {
		cls := "body-not-run"
		if w.bodyRuns > 1 {
			cls = "body-run-twice"
		}
		r.Fail(cls, "a transaction began but the body ran %d times. %s", w.bodyRuns, trail())
		return
	}
	var commits, rollbacks int
	var endEv dbEvent
	for _, e := range log {
		if e.tx == txn && (e.op == opCommit || e.op == opRollback) {
			if e.op == opCommit {
				commits++
			} else {
				rollbacks++
			}
			if endEv.seq == 0 {
				endEv = e
			}
		}
		if e.tag != 0 && (e.tx != txn || e.seq < beginSeq || (endEv.seq != 0 && e.seq > endEv.seq)) {
			r.Fail("stmt-outside-tx", "statement %d of the body did not execute inside the transaction that Transact began for it (tx %d) (event %s). %s", e.tag%100, txn, e, trail())
			return
		}
	}
	// "ends it exactly once"
	switch ends := commits + rollbacks; {
	case ends == 0:
		r.Fail("never-ended:body-"+w.outcome, "the transaction was neither committed nor rolled back (body outcome %s). %s", w.outcome, trail())
		return
	case ends > 1:
		r.Fail("ended-twice", "the transaction was ended %d times (%d commits, %d rollbacks). %s", ends, commits, rollbacks, trail())
		return
	}
	if endEv.seq <= w.bodyEndMark {
		r.Fail("ended-before-body-finished", "%s reached the driver before the body had finished. %s", endEv.op, trail())
		return
	}
	// "commits iff the body returned nil, rolls back if it returned an error or panicked"
	switch {
	case w.outcome == "nil" && endEv.op != opCommit:
		r.Fail("rollback-after-success", "the body returned nil but the transaction was rolled back. %s", trail())
		return
	case w.outcome == "err" && endEv.op != opRollback:
		r.Fail("commit-after-error", "the body returned error %q but the transaction was committed. %s", w.bodyErr, trail())
		return
	case w.outcome == "panic" && endEv.op != opRollback:
		r.Fail("commit-after-panic", "the body panicked but the transaction was committed. %s", trail())
		return
	}
	committed := endEv.op == opCommit && endEv.err == nil
	// "the returned error is nil only when the commit succeeded"
	if ret == nil && !committed {
		switch {
		case w.outcome == "panic":
			r.Fail("panic-swallowed", "the body panicked and Transact returned nil. %s", trail())
		case endEv.op == opCommit:
			r.Fail("commit-error-lost", "the commit failed with %q and Transact returned nil. %s", endEv.err, trail())
		default:
			r.Fail("nil-error-without-commit:body-"+w.outcome, "Transact returned nil although nothing was committed. %s", trail())
		}
		return
	}
	if committed && ret != nil {
		r.Fail("error-after-commit", "the transaction was committed successfully but Transact returned %q. %s", ret, trail())
		return
	}
	// "commit or rollback failures are reported to the caller"
	if endEv.err != nil && !reports(ret, endEv.err) {
		r.Fail(endEv.op+"-error-lost", "the %s failed with %q, which the returned error does not report. %s", endEv.op, endEv.err, trail())
		return
	}
	if endEv.err != nil {
		r.Probe(endEv.op + "-failure-reported")
	}
	// ended at the database/sql level too: the connection went back to the pool
	if inUse != 0 {
		r.Fail("tx-left-open", "%d connection(s) still checked out after Transact returned. %s", inUse, trail())
	}
}

const (
	modeEnum = iota
	modePool
)

// nextMode is decided by config (it is called with the run's tape right before body) because
// the scheduler knobs depend on it; body of the same run consumes it.
var nextMode int

func config(t *simrt.Tape, tier string) simrt.Config {
	// enumerated mode: one client task, forced switches cannot change anything; keep rare
	// virtual-time stalls (a statement or the commit may take longer than the slow-call threshold)
	st := []int{0, 0, 0, 20}[t.Intn(4)]
	sw := 0
	nextMode = modeEnum
	if t.Intn(5) == 4 {
		nextMode = modePool
		sw = []int{50, 150, 400}[t.Intn(3)]
	}
	return simrt.Config{SwitchPerMille: sw, StallPerMille: st, StallMax: 2 * time.Second, MaxSteps: 30000, MaxVirtual: 48 * time.Hour}
}

func TestSim(t *testing.T) {
	simharness.Main(t, &simharness.Spec{ID: "C14", Body: body, Config: config})
}
