package c14

import (
	"context"
	"database/sql"
	"database/sql/driver"
	"errors"
	"fmt"
	"io"
	"net/http"
	"strings"
	"testing"
	"time"

	"github.com/go-sql-driver/mysql"
	"github.com/zeromicro/go-zero/core/breaker"
	"github.com/zeromicro/go-zero/core/logx"
	"github.com/zeromicro/go-zero/core/stores/sqlc"
	"github.com/zeromicro/go-zero/core/stores/sqlx"

	"verifsim/simharness"
	"verifsim/simrt"
)

// C14: Transact/TransactCtx begins one transaction and ends it exactly once:
// commit iff the body returned nil, rollback if it returned an error or
// panicked (reported as an error); body not run if the transaction cannot
// begin; returned error nil only when the commit succeeded; commit / rollback
// failures reported.
//
// Every Transact/TransactCtx call of a run is one "world" (its plan, what its body did,
// what the caller got); all worlds of a run share one recording database and one SqlConn.
//
// Sequence mode (4 runs out of 5): the main task runs 1..12 transactions one after another
// on the same SqlConn.  The FIRST one is the enumerated one: its (api, tx-layer fault, body
// size, body ending, position) tuple is decoded from one uniform draw, so a batch covers
// the whole space many times (measured by the tuple-* probes; the draw is random, not a
// counter).  Everything else is sampled: how the SqlConn was constructed, the shape of the
// context, the identity of every injected error / returned error / panic value, statement
// kinds and the way a statement fails, pauses of the body in virtual time, a nested
// (re-entrant) Transact call made by the body, the following transactions of the sequence
// (optionally a database outage that makes the breaker reject calls; optionally the outage goes
// on as a burst of further refused calls at <= 1 ms spacing and is followed by a RECOVERY phase:
// the database is healthy again and up to 60 fault-free transactions run one after another with
// think times between them that straddle the breaker's forced-pass interval and its window, so
// that calls are admitted by a breaker that is still throttling).
//
// Pool mode (1 run out of 5, pool_test.go): 2-3 client tasks run 1-2 transactions each on
// the SAME SqlConn with pauses inside the bodies and optionally a canceller task / a
// deadline; the same oracle is applied per transaction to its events in the shared log.

func init() { logx.Disable() }

// ---- the enumerated space ---------------------------------------------------

type ending int

const (
	endNil         ending = iota // body runs its n statements and returns nil
	endErr                       // body returns an error of its own after pos statements
	endPanic                     // body panics after pos statements
	endStmtFail                  // the pos-th statement fails, body returns that error
	endStmtIgnored               // the pos-th statement fails, body ignores it, finishes, returns nil
	endCancel                    // the context ends after pos statements (the body cancels it, or waits until its deadline has passed) and the body carries on
	endAsyncCancel               // pool mode only (not part of the enumerated space): the context ends at a tape-drawn virtual instant (canceller task or deadline) while the body pauses between statements
)

var endingNames = [...]string{"nil", "err", "panic", "stmtfail", "stmtignored", "cancel", "asynccancel"}

const (
	txfNone = iota
	txfBegin
	txfCommit
	txfRollback
	txfCommitRollback
	nTxf
)

var txfNames = [...]string{"nofault", "beginfails", "commitfails", "rollbackfails", "commit+rollbackfail"}

const (
	apiSqlxTransact = iota
	apiSqlxTransactCtx
	apiSqlcTransact
	apiSqlcTransactCtx
	nAPI
)

var apiNames = [...]string{"sqlx.Transact", "sqlx.TransactCtx", "sqlc.Transact", "sqlc.TransactCtx"}

const maxEnumN = 4

type tuple struct {
	api, txf, n int
	end         ending
	pos         int
}

// name identifies the (body size, ending, position, tx-layer fault) tuple; the
// api is reported separately (it is swept too, see spaceSize).
func (tp tuple) name() string {
	s := fmt.Sprintf("n%d-%s", tp.n, endingNames[tp.end])
	if tp.end != endNil && tp.end != endAsyncCancel {
		s += fmt.Sprintf("@%d", tp.pos)
	}
	return s + "-" + txfNames[tp.txf]
}

// endingsOf lists every (ending, position) for a body of n statements, simplest first.
func endingsOf(n int) [][2]int {
	out := [][2]int{{int(endNil), 0}}
	for k := 0; k <= n; k++ {
		out = append(out, [2]int{int(endErr), k})
	}
	for k := 0; k <= n; k++ {
		out = append(out, [2]int{int(endPanic), k})
	}
	for k := 1; k <= n; k++ {
		out = append(out, [2]int{int(endStmtFail), k})
	}
	for k := 1; k <= n; k++ {
		out = append(out, [2]int{int(endStmtIgnored), k})
	}
	for k := 0; k <= n; k++ {
		out = append(out, [2]int{int(endCancel), k})
	}
	return out
}

var bodySpace = func() (out []tuple) {
	for n := 0; n <= maxEnumN; n++ {
		for _, e := range endingsOf(n) {
			out = append(out, tuple{n: n, end: ending(e[0]), pos: e[1]})
		}
	}
	return
}()

// spaceSize = |bodies| x |tx faults| x |apis| (70 x 5 x 4 = 1400).
var spaceSize = len(bodySpace) * nTxf * nAPI

func decode(idx int) tuple {
	api := idx % nAPI
	idx /= nAPI
	txf := idx % nTxf
	idx /= nTxf
	tp := bodySpace[idx%len(bodySpace)]
	tp.api, tp.txf = api, txf
	return tp
}

// ---- sampled dimensions -----------------------------------------------------------

// statement kinds (every statement method of sqlx.Session / sqlx.StmtSession)
const (
	kExec = iota
	kQueryRow
	kQueryRows
	kPrepExec
	kPrepQueryRow
	kQueryRowPartial
	kQueryRowsPartial
	kPrepQueryRows
	kPrepQueryRowPartial
	kPrepQueryRowsPartial
	nKinds
)

var kindNames = [...]string{"Exec", "QueryRow", "QueryRows", "Prepare+Exec", "Prepare+QueryRow",
	"QueryRowPartial", "QueryRowsPartial", "Prepare+QueryRows", "Prepare+QueryRowPartial", "Prepare+QueryRowsPartial"}

func isSingleRow(k int) bool {
	return k == kQueryRow || k == kPrepQueryRow || k == kQueryRowPartial || k == kPrepQueryRowPartial
}
func isMultiRow(k int) bool {
	return k == kQueryRows || k == kQueryRowsPartial || k == kPrepQueryRows || k == kPrepQueryRowsPartial
}
func isQueryKind(k int) bool { return isSingleRow(k) || isMultiRow(k) }
func isPrepared(k int) bool {
	return k == kPrepExec || k == kPrepQueryRow || k == kPrepQueryRows || k == kPrepQueryRowPartial || k == kPrepQueryRowsPartial
}

// the way the planned statement failure comes about
const (
	fmDriver  = iota // the driver's exec / query call fails
	fmEmpty          // a single-row query finds nothing (ErrNotFound without a driver error)
	fmPrepare        // the driver's prepare call fails
	fmArgs           // placeholder / argument count mismatch: go-zero refuses the statement before it reaches the driver
	fmScan           // the driver succeeds, the result cannot be stored in the destination
	fmRows           // a multi-row result breaks after its first row (rows.Err)
	nFailModes
)

// the shape of the context handed to TransactCtx (and used by the body for its *Ctx statements)
const (
	cxPlain         = iota // cancellable, never ends by itself
	cxFarDeadline          // deadline an hour away
	cxValue                // carries a value (and is cancellable)
	cxShortDeadline        // deadline a few ms away: expires wherever the call happens to be when the body pauses (or a stall hits)
	cxPreCancelled         // already cancelled when Transact is called
	cxPreExpired           // deadline already passed when Transact is called
	cxBodyDeadline         // ending "cancel" by deadline: the body waits after pos statements until the deadline has passed
	cxAsyncDeadline        // pool mode, ending "asynccancel" by deadline: expires at a tape-drawn virtual instant of the run
)

var ctxNames = [...]string{"plain", "far-deadline", "value", "short-deadline", "pre-cancelled", "pre-expired", "body-deadline", "async-deadline"}
var ctxTable = [...]int{cxPlain, cxPlain, cxPlain, cxPlain, cxPlain, cxFarDeadline, cxValue, cxShortDeadline, cxShortDeadline, cxShortDeadline, cxPreCancelled, cxPreExpired}

// identity of an injected driver error, index into identNames (simsql_test.go); 0 = opaque error of the stub
var identTable = [...]int{0, 0, 0, 1, 2, 3, 4, 5, 6, 7, 8, 9, 10, 11, 12}

// nested (re-entrant) Transact call made by the body
const (
	nestNone        = iota
	nestIndependent // a second, independent transaction on the same SqlConn (another pooled connection)
	nestOnSession   // Transact on a SqlConn made of the transaction's own session (sqlx.NewSqlConnFromSession / sqlc.CachedConn.WithSession): transactions cannot nest, nothing may run
)

var nestTable = [...]int{nestNone, nestNone, nestNone, nestNone, nestNone, nestNone, nestIndependent, nestOnSession, nestOnSession}

// how the SqlConn of the run is constructed
const (
	ckFromDB        = iota // sqlx.NewSqlConnFromDB(db)
	ckFromDBAccept         // ... with one WithAcceptable option
	ckFromDBAccept2        // ... with two WithAcceptable options (chained)
	ckManaged              // sqlx.NewSqlConn(driver, datasource): go-zero opens, pings, sizes and caches the pool itself at first use
	ckManagedAccept        // ... with a WithAcceptable option
	ckUnknownDSN           // sqlx.NewSqlConn with a datasource the driver refuses: the pool can never be obtained
	ckClosedDB             // sqlx.NewSqlConnFromDB(db), and db is closed before the closeAt-th transaction of the sequence
)

var connNames = [...]string{"NewSqlConnFromDB", "NewSqlConnFromDB+WithAcceptable", "NewSqlConnFromDB+2xWithAcceptable", "NewSqlConn", "NewSqlConn+WithAcceptable", "NewSqlConn-unknown-datasource", "NewSqlConnFromDB-closed-db"}
var connTable = [...]int{ckFromDB, ckFromDB, ckFromDB, ckFromDB, ckFromDB, ckFromDBAccept, ckFromDBAccept2, ckManaged, ckManaged, ckManagedAccept, ckUnknownDSN, ckClosedDB}

// number of transactions run one after another on the SqlConn
var seqTable = [...]int{1, 1, 1, 1, 1, 1, 1, 1, 1, 1, 2, 2, 3, 4, 7, 12}

// outage burst and recovery phase of a sequence (only drawn when the sequence has an outage).
// burstTable: further calls refused by the database, appended to the outage at 0 / 1 ms spacing.
var burstTable = [...]int{0, 0, 8, 20, 40}

// recTable: number of transactions run after the outage has ended (healthy database).
var recTable = [...]int{0, 0, 4, 12, 30, 60}

// thinkTable: think time of the client before a transaction of the recovery phase, ascending.  A
// run draws an upper index first (0: no think time at all) and every think time below it, so runs
// with only short think times (the breaker keeps throttling) and runs with long ones both occur.
var thinkTable = [...]time.Duration{0, time.Millisecond, 250 * time.Millisecond,
	time.Second - 1, time.Second, time.Second + 1, 1500 * time.Millisecond,
	10*time.Second - 1, 10 * time.Second, 10*time.Second + 1, 12 * time.Second}

const (
	phSequence = iota // the sampled sequence (including its outage tail)
	phBurst           // further refused calls of the outage
	phRecovery        // healthy transactions after the outage
)

var phaseNames = [...]string{"sequence", "outage-burst", "recovery"}

type customPanic struct{ code int }

// bizError: an error type of the application; a nil *bizError stored in an error is a non-nil error.
type bizError struct{ msg string }

func (e *bizError) Error() string {
	if e == nil {
		return "bizError(nil)"
	}
	return e.msg
}

// aliasError claims (through Is) to be another error.
type aliasError struct{ target error }

func (e aliasError) Error() string        { return "body: alias of " + e.target.Error() }
func (e aliasError) Is(target error) bool { return target == e.target }

var bodyErrNames = [...]string{"own", "sql.ErrNoRows", "context.Canceled", "sql.ErrTxDone", "wrapped-ErrNotFound",
	"context.DeadlineExceeded", "breaker.ErrServiceUnavailable", "driver.ErrBadConn", "mysql.ErrInvalidConn",
	"joined-own+ErrNoRows", "typed-nil", "mysql-1062-duplicate", "alias-of-context.Canceled", "io.EOF", "wrapped-DeadlineExceeded", "mysql-1213-deadlock"}

var panicNames = [...]string{"string", "error", "struct", "nil", "runtime-nil-map-write", "http.ErrAbortHandler",
	"error-wrapping-ErrNoRows", "context.Canceled", "runtime-index-out-of-range", "pointer", "driver.ErrBadConn", "sql.ErrTxDone"}

type pause struct {
	yields int
	sleep  time.Duration
}

// ---- one run's shared environment -------------------------------------------------------

type env struct {
	r        *simrt.Run
	tier     string
	pool     bool
	db       *simDB
	start    time.Time
	sqlDB    *sql.DB // nil when go-zero owns the pool (sqlx.NewSqlConn)
	conn     sqlx.SqlConn
	connKind int
	maxSleep time.Duration // upper bound for one pause of a body
	// stack: task id -> ids of the worlds whose Transact call is in progress on that task,
	// innermost last.  BEGIN / connect events are attributed to the innermost one.
	stack   map[int][]int
	worlds  []*world // every world of the run, by id
	cancels []context.CancelFunc
}

func newEnv(r *simrt.Run, tier, name string, pool bool) *env {
	e := &env{r: r, tier: tier, pool: pool, db: newSimDB(name), start: time.Now(), stack: map[int][]int{}, maxSleep: time.Hour}
	e.db.whoFn = func() int {
		st := e.stack[r.CurrentID()]
		if len(st) == 0 {
			return -1 // no Transact call in progress on this task (sql.Open / Ping at the end / Close, database/sql's own goroutines)
		}
		return st[len(st)-1]
	}
	return e
}

type ctxKey struct{}

// open constructs the SqlConn of the run; returns false on an engine error.
func (e *env) open(connKind int, accModes []int) (cleanup func(), ok bool) {
	r := e.r
	e.connKind = connKind
	dsn := register(e.db)
	var opts []sqlx.SqlOption
	for _, m := range accModes {
		m := m
		opts = append(opts, sqlx.WithAcceptable(func(err error) bool {
			switch m {
			case 1:
				return true
			case 2:
				return errors.Is(err, context.DeadlineExceeded) || errors.Is(err, driver.ErrBadConn)
			}
			return false
		}))
	}
	switch connKind {
	case ckManaged, ckManagedAccept, ckUnknownDSN:
		ds := dsn
		if connKind == ckUnknownDSN {
			ds = dsn + "-unknown" // never registered: the driver refuses it
		}
		e.conn = sqlx.NewSqlConn(driverName, ds, opts...)
		return func() {
			// go-zero caches the pool for ever; close it so that database/sql's goroutines of this run end
			if raw, err := e.conn.RawDB(); err == nil {
				raw.Close()
			}
			unregister(dsn)
		}, true
	}
	sqlDB, err := sql.Open(driverName, dsn)
	if err != nil {
		unregister(dsn)
		r.EngineError("sql.Open: %v", err)
		return nil, false
	}
	e.sqlDB = sqlDB
	e.conn = sqlx.NewSqlConnFromDB(sqlDB, opts...)
	return func() {
		sqlDB.Close() // ends database/sql's connectionOpener goroutine of this run
		unregister(dsn)
	}, true
}

func (e *env) finish() {
	for _, c := range e.cancels {
		c()
	}
}

// ---- one Transact call ---------------------------------------------------------------------

type world struct {
	r    *simrt.Run
	env  *env
	db   *simDB
	tp   tuple
	id   int  // statement tags are 100*id + statement number; fault plans are keyed by id
	pool bool // pool mode: other tasks use the SqlConn at the same time

	depth         int  // 0 = called by the client, 1 = called from inside the body of another world
	phase         int           // phSequence / phBurst / phRecovery
	think         time.Duration // think time of the client before this call (burst and recovery phases)
	rejected      bool          // set by check: the SqlConn's breaker rejected the call outright
	sessionNested bool // called on a SqlConn made of the enclosing transaction's session: cannot begin
	openFails     bool // the SqlConn cannot obtain its pool (unknown datasource) or the pool was closed: cannot begin
	parentSession sqlx.Session

	// plan
	kinds       []int  // statement kinds, 1-based
	useCtx      []bool // statement uses the *Ctx method with the body's context
	argMismatch []bool
	badDest     []bool
	wrap        bool // body wraps a statement error before returning it
	errKind     int
	panicKind   int
	failMode    int
	ctxKind     int
	ctxD        time.Duration // cxShortDeadline / cxBodyDeadline: time to the deadline at creation
	pauses      []pause       // pauses[k]: before the action "after k statements"
	nested      *world
	nestAt      int
	nestProp    bool // the body returns the nested call's error as its own

	// pool mode only
	ignoreCancel bool          // endAsyncCancel: the body ignores statements refused because of the ended context
	cancelAt     time.Duration // endAsyncCancel: virtual instant (from the start of the run) at which the context ends

	// what happened
	called           bool
	bctx             context.Context
	cancel           context.CancelFunc
	deadline         time.Time
	ctxDoneAtCall    bool
	ctxErrAtReturn   error
	ret              error
	escaped          any
	didEscape        bool
	inUseAfter       int // connections checked out right after the call returned (-1: not measured)
	bodyRuns         int
	outcome          string // "nil" | "err" | "panic" of the last body execution
	bodyErr          error
	bodyEndMark      int // number of driver events when the body finished
	stmtsIssued      int
	unexpected       int
	nestedDone       bool
	argFaultSeen     bool
	scanFaultSeen    bool
	deadlineInBody   bool
	refusedAfterDone int
}

func (w *world) ctxAPI() bool { return w.tp.api == apiSqlxTransactCtx || w.tp.api == apiSqlcTransactCtx }

// query tags the statement text with 100*world + statement number (see simsql stmtTag).
func query(tag int, suffix string) string {
	return fmt.Sprintf("/*s%d*/ %s where id = ?", tag, suffix)
}

// stmt issues the k-th statement of the body on the transaction session.
func (w *world) stmt(ctx context.Context, s sqlx.Session, k int) error {
	w.stmtsIssued++
	uc, kind := w.useCtx[k], w.kinds[k]
	text := "update t set v = v + 1"
	if isQueryKind(kind) {
		text = "select v from t"
	}
	q := query(100*w.id+k, text)
	if w.argMismatch[k] {
		q += " and w = ?" // two placeholders, one argument
	}
	var one int64
	var many []int64
	var bad chan int
	var dest any = &one
	if isMultiRow(kind) {
		dest = &many
	}
	if w.badDest[k] {
		dest = &bad
	}
	switch kind {
	case kExec:
		if uc {
			_, err := s.ExecCtx(ctx, q, k)
			return err
		}
		_, err := s.Exec(q, k)
		return err
	case kQueryRow:
		if uc {
			return s.QueryRowCtx(ctx, dest, q, k)
		}
		return s.QueryRow(dest, q, k)
	case kQueryRowPartial:
		if uc {
			return s.QueryRowPartialCtx(ctx, dest, q, k)
		}
		return s.QueryRowPartial(dest, q, k)
	case kQueryRows:
		if uc {
			return s.QueryRowsCtx(ctx, dest, q, k)
		}
		return s.QueryRows(dest, q, k)
	case kQueryRowsPartial:
		if uc {
			return s.QueryRowsPartialCtx(ctx, dest, q, k)
		}
		return s.QueryRowsPartial(dest, q, k)
	}
	// prepared statement kinds
	var st sqlx.StmtSession
	var err error
	if uc {
		st, err = s.PrepareCtx(ctx, q)
	} else {
		st, err = s.Prepare(q)
	}
	if err != nil {
		return err
	}
	defer st.Close()
	switch kind {
	case kPrepQueryRow:
		if uc {
			return st.QueryRowCtx(ctx, dest, k)
		}
		return st.QueryRow(dest, k)
	case kPrepQueryRowPartial:
		if uc {
			return st.QueryRowPartialCtx(ctx, dest, k)
		}
		return st.QueryRowPartial(dest, k)
	case kPrepQueryRows:
		if uc {
			return st.QueryRowsCtx(ctx, dest, k)
		}
		return st.QueryRows(dest, k)
	case kPrepQueryRowsPartial:
		if uc {
			return st.QueryRowsPartialCtx(ctx, dest, k)
		}
		return st.QueryRowsPartial(dest, k)
	}
	if uc {
		_, err = st.ExecCtx(ctx, k)
	} else {
		_, err = st.Exec(k)
	}
	return err
}

func (w *world) ownError() error {
	switch w.errKind {
	case 1:
		return sql.ErrNoRows // "acceptable" for the breaker: must still roll back
	case 2:
		return context.Canceled
	case 3:
		return sql.ErrTxDone
	case 4:
		return fmt.Errorf("wrapped: %w", sqlx.ErrNotFound)
	case 5:
		return context.DeadlineExceeded
	case 6:
		return breaker.ErrServiceUnavailable // e.g. handed on from a call to another service
	case 7:
		return driver.ErrBadConn
	case 8:
		return mysql.ErrInvalidConn
	case 9:
		return errors.Join(errors.New("body: business rule failed"), sql.ErrNoRows)
	case 10:
		var e *bizError
		return e // a nil pointer in a non-nil error
	case 11:
		return &mysql.MySQLError{Number: 1062, Message: "Duplicate entry 'x' for key 'uk' (seen by the body)"}
	case 12:
		return aliasError{target: context.Canceled}
	case 13:
		return io.EOF
	case 14:
		return fmt.Errorf("body: remote call: %w", context.DeadlineExceeded)
	case 15:
		return &mysql.MySQLError{Number: 1213, Message: "Deadlock found when trying to get lock (seen by the body)"}
	default:
		return errors.New("body: business rule failed")
	}
}

// doPanic panics with the planned value (kinds 4 and 8 are genuine runtime errors).
func (w *world) doPanic() {
	switch w.panicKind {
	case 1:
		panic(errors.New("body: panic with an error value"))
	case 2:
		panic(customPanic{code: 42})
	case 3:
		panic(nil) // a *runtime.PanicNilError since go1.21
	case 4:
		var m map[int]int
		m[w.id] = 1 // assignment to entry in nil map
	case 5:
		panic(http.ErrAbortHandler)
	case 6:
		panic(fmt.Errorf("body: lookup: %w", sql.ErrNoRows))
	case 7:
		panic(context.Canceled)
	case 8:
		var a []int
		_ = a[w.id+1] // index out of range
	case 9:
		panic(&customPanic{code: 7})
	case 10:
		panic(driver.ErrBadConn)
	case 11:
		panic(sql.ErrTxDone)
	}
	panic("body: boom")
}

func (w *world) finish(outcome string, err error) error {
	w.outcome, w.bodyErr = outcome, err
	w.bodyEndMark = w.db.mark()
	return err
}

// txBody is the function handed to Transact/TransactCtx.
func (w *world) txBody(ctx context.Context, s sqlx.Session) error {
	w.bodyRuns++
	w.outcome = "running"
	tp := w.tp
	for done := 0; ; done++ {
		if done < len(w.pauses) { // let virtual time pass / the other clients (and the canceller) run
			for i := 0; i < w.pauses[done].yields; i++ {
				w.r.Yield()
			}
			if d := w.pauses[done].sleep; d > 0 {
				w.r.Sleep(d)
			}
		}
		// re-entrant call
		if w.nested != nil && w.nestAt == done && !w.nestedDone {
			w.nestedDone = true
			in := w.nested
			in.parentSession = s
			in.transact(ctx)
			if in.ret != nil && w.nestProp {
				w.r.Probe("nested-error-returned-by-outer-body")
				return w.finish("err", fmt.Errorf("body: inner transaction: %w", in.ret))
			}
		}
		// action "after <done> statements"
		if tp.pos == done && tp.end != endAsyncCancel {
			switch tp.end {
			case endErr:
				return w.finish("err", w.ownError())
			case endPanic:
				w.finish("panic", nil)
				w.doPanic()
			case endCancel:
				if w.ctxKind == cxBodyDeadline {
					if d := time.Until(w.deadline); d >= 0 {
						w.r.Sleep(d + time.Millisecond)
					}
					w.r.Probe("ctx-deadline-passed-in-body")
				} else {
					w.cancel()
					w.r.Probe("ctx-cancelled-in-body")
				}
			}
		}
		if done == tp.n {
			break
		}
		if err := w.stmt(ctx, s, done+1); err != nil {
			atFault := (tp.end == endStmtFail || tp.end == endStmtIgnored) && tp.pos == done+1
			planned := atFault
			if atFault && w.argMismatch[done+1] {
				w.argFaultSeen = true
			}
			if atFault && w.badDest[done+1] {
				w.scanFaultSeen = true
			}
			if cerr := w.bctx.Err(); cerr != nil && errors.Is(err, cerr) {
				// the statement was refused because the context has ended
				w.refusedAfterDone++
				planned = true
				if tp.end == endAsyncCancel && w.ignoreCancel {
					continue
				}
			}
			if !planned {
				w.unexpected++
			}
			if tp.end == endStmtIgnored && atFault {
				continue
			}
			if w.wrap {
				err = fmt.Errorf("body: statement %d: %w", done+1, err)
			}
			return w.finish("err", err)
		}
	}
	return w.finish("nil", nil)
}

// makeCtx builds the context of the call (derived from the enclosing body's context for a nested call).
func (w *world) makeCtx(parent context.Context) {
	e := w.env
	switch w.ctxKind {
	case cxFarDeadline:
		w.bctx, w.cancel = context.WithTimeout(parent, time.Hour)
	case cxValue:
		c, cancel := context.WithCancel(parent)
		w.bctx, w.cancel = context.WithValue(c, ctxKey{}, w.id), cancel
	case cxShortDeadline, cxBodyDeadline:
		w.bctx, w.cancel = context.WithTimeout(parent, w.ctxD)
	case cxPreCancelled:
		w.bctx, w.cancel = context.WithCancel(parent)
		w.cancel()
	case cxPreExpired:
		w.bctx, w.cancel = context.WithDeadline(parent, time.Now().Add(-time.Second))
	case cxAsyncDeadline:
		w.bctx, w.cancel = context.WithDeadline(parent, e.start.Add(w.cancelAt))
	default:
		w.bctx, w.cancel = context.WithCancel(parent)
	}
	w.deadline, _ = w.bctx.Deadline()
	e.cancels = append(e.cancels, w.cancel)
}

// transact performs the Transact/TransactCtx call of this world and keeps what the caller got.
func (w *world) transact(parent context.Context) {
	e := w.env
	tid := e.r.CurrentID()
	e.stack[tid] = append(e.stack[tid], w.id)
	w.called = true
	w.inUseAfter = -1
	defer func() {
		if p := recover(); p != nil {
			w.escaped, w.didEscape = p, true
		}
		e.stack[tid] = e.stack[tid][:len(e.stack[tid])-1]
		w.ctxErrAtReturn = w.bctx.Err()
		if !w.pool && e.sqlDB != nil {
			w.inUseAfter = e.sqlDB.Stats().InUse
		}
	}()
	if w.bctx == nil {
		w.makeCtx(parent)
	}
	w.ctxDoneAtCall = w.bctx.Err() != nil
	plain := func(s sqlx.Session) error { return w.txBody(w.bctx, s) }
	if w.sessionNested {
		// transactions cannot nest: a SqlConn made of the enclosing transaction's session
		switch w.tp.api {
		case apiSqlxTransact:
			w.ret = sqlx.NewSqlConnFromSession(w.parentSession).Transact(plain)
		case apiSqlxTransactCtx:
			w.ret = sqlx.NewSqlConnFromSession(w.parentSession).TransactCtx(w.bctx, w.txBody)
		case apiSqlcTransact:
			w.ret = sqlc.NewConnWithCache(e.conn, nil).WithSession(w.parentSession).Transact(plain)
		default:
			w.ret = sqlc.NewConnWithCache(e.conn, nil).WithSession(w.parentSession).TransactCtx(w.bctx, w.txBody)
		}
		return
	}
	switch w.tp.api {
	case apiSqlxTransact:
		w.ret = e.conn.Transact(plain)
	case apiSqlxTransactCtx:
		w.ret = e.conn.TransactCtx(w.bctx, w.txBody)
	case apiSqlcTransact:
		w.ret = sqlc.NewConnWithCache(e.conn, nil).Transact(plain)
	default:
		w.ret = sqlc.NewConnWithCache(e.conn, nil).TransactCtx(w.bctx, w.txBody)
	}
}

// ---- drawing a world ---------------------------------------------------------------------------------

func drawPause(t *simrt.Tape, mustSleep bool, max time.Duration) pause {
	var p pause
	if mustSleep {
		p = pause{sleep: time.Duration(t.Range(1, 20)) * time.Millisecond}
	} else {
		switch t.Intn(6) {
		case 1:
			p = pause{yields: 1 + t.Intn(2)}
		case 2:
			p = pause{sleep: time.Duration(t.Range(1, 5)) * time.Millisecond}
		case 3:
			p = pause{sleep: time.Duration(t.Range(10, 50)) * time.Millisecond}
		case 4:
			p = pause{sleep: time.Duration(t.Range(501, 800)) * time.Millisecond} // beyond the slow-statement threshold
		case 5:
			p = pause{sleep: time.Duration(t.Range(10100, 12000)) * time.Millisecond} // beyond the breaker's window
		}
	}
	if p.sleep > max {
		p.sleep = max
	}
	return p
}

// drawWorld draws everything about one Transact call except its tuple, and arms its faults.
// outage: the database refuses every BEGIN (used for the tail of a long sequence).
func (e *env) drawWorld(tp tuple, depth int, outage bool) *world {
	t := e.r.Tape
	w := &world{r: e.r, env: e, db: e.db, tp: tp, id: len(e.worlds), pool: e.pool, depth: depth}
	e.worlds = append(e.worlds, w)
	n := tp.n
	w.kinds, w.useCtx = make([]int, n+1), make([]bool, n+1)
	w.argMismatch, w.badDest = make([]bool, n+1), make([]bool, n+1)
	for k := 1; k <= n; k++ {
		w.kinds[k] = t.Intn(nKinds)
		w.useCtx[k] = t.Bool() || tp.end == endCancel || tp.end == endAsyncCancel
	}
	w.errKind, w.panicKind, w.wrap = t.Intn(len(bodyErrNames)), t.Intn(len(panicNames)), t.Bool()
	w.failMode = t.Intn(nFailModes)
	connectFails := t.Chance(1, 4) && !outage

	plan := &txFaults{ident: map[string]int{}}
	e.db.plans[w.id] = plan
	drawIdent := func(points ...string) {
		id := identTable[t.Intn(len(identTable))]
		for _, p := range points {
			plan.ident[p] = id
		}
	}
	switch tp.txf {
	case txfBegin:
		if connectFails {
			plan.failConnect = true // fires only if this BEGIN has to open a new connection
		} else {
			plan.failBegin = true
		}
		drawIdent("connect", "begin")
	case txfCommit:
		plan.failCommit = true
		drawIdent("commit")
	case txfRollback:
		plan.failRollback = true
		drawIdent("rollback")
	case txfCommitRollback:
		plan.failCommit, plan.failRollback = true, true
		drawIdent("commit")
		drawIdent("rollback")
	}
	if tp.end == endStmtFail || tp.end == endStmtIgnored {
		k := tp.pos
		tag := 100*w.id + k
		switch kind := w.kinds[k]; {
		case w.failMode == fmEmpty && isSingleRow(kind):
			e.db.emptyStmt[tag] = true // no driver error: go-zero turns the empty result into ErrNotFound
		case w.failMode == fmPrepare && isPrepared(kind):
			e.db.failPrepare[tag] = true
			drawIdent("prepare")
		case w.failMode == fmArgs:
			w.argMismatch[k] = true
		case w.failMode == fmScan && isQueryKind(kind):
			w.badDest[k] = true
		case w.failMode == fmRows && isMultiRow(kind):
			e.db.failRows[tag] = true
			drawIdent("rows")
		default:
			w.failMode = fmDriver
			e.db.failStmt[tag] = true
			drawIdent("stmt")
		}
	}

	// context shape
	switch {
	case tp.end == endCancel:
		if t.Bool() {
			w.ctxKind, w.ctxD = cxBodyDeadline, time.Duration(t.Range(5, 60))*time.Millisecond
		} else {
			w.ctxKind = ctxTable[t.Intn(len(ctxTable))]
		}
	case tp.end == endAsyncCancel:
		if t.Bool() {
			w.ctxKind = cxAsyncDeadline
		}
	default:
		w.ctxKind = ctxTable[t.Intn(len(ctxTable))]
	}
	if w.ctxKind == cxShortDeadline {
		w.ctxD = time.Duration(t.Range(1, 40)) * time.Millisecond
	}

	// pauses of the body
	async := tp.end == endAsyncCancel
	if e.pool || w.ctxKind == cxShortDeadline || t.Chance(1, 4) {
		for k := 0; k <= n; k++ {
			w.pauses = append(w.pauses, drawPause(t, async, e.maxSleep))
		}
	}
	if async {
		w.ignoreCancel = t.Bool()
	}

	// re-entrant call from the body
	if depth == 0 {
		if nk := nestTable[t.Intn(len(nestTable))]; nk != nestNone {
			w.nestAt, w.nestProp = t.Intn(n+1), t.Bool()
			w.nested = e.drawWorld(decode(t.Intn(spaceSize)), depth+1, false)
			w.nested.sessionNested = nk == nestOnSession
		}
	}
	return w
}

func (w *world) sleepTotal() (d time.Duration) {
	for _, p := range w.pauses {
		d += p.sleep
	}
	if w.nested != nil {
		d += w.nested.sleepTotal()
	}
	return
}

func (w *world) describe() string {
	var ks []string
	for k := 1; k <= w.tp.n; k++ {
		ks = append(ks, fmt.Sprintf("%s(ctx=%v)", kindNames[w.kinds[k]], w.useCtx[k]))
	}
	s := fmt.Sprintf("c%d depth=%d api=%s tuple=%s statements=%v ctx=%s(%v) bodyErr=%s panic=%s wrap=%v failMode=%d pauses=%+v plan=%+v",
		w.id, w.depth, apiNames[w.tp.api], w.tp.name(), ks, ctxNames[w.ctxKind], w.ctxD, bodyErrNames[w.errKind], panicNames[w.panicKind], w.wrap, w.failMode, w.pauses, *w.db.plans[w.id])
	if w.sessionNested {
		s += " ON-SESSION"
	}
	if w.openFails {
		s += " POOL-UNAVAILABLE"
	}
	if w.nested != nil {
		s += fmt.Sprintf(" nested=c%d@%d(propagate=%v)", w.nested.id, w.nestAt, w.nestProp)
	}
	if w.tp.end == endAsyncCancel {
		s += fmt.Sprintf(" cancelAt=%v ignoreCancel=%v", w.cancelAt, w.ignoreCancel)
	}
	return s
}

func drawPlan(r *simrt.Run, tier string) (tuple, bool) {
	t := r.Tape
	idx := t.Intn(spaceSize)
	tp := decode(idx)
	r.Ev("tuple", int64(idx))
	den := 16
	if tier == "thorough" {
		den = 4
	}
	if t.Chance(1, den) {
		// sampled, not enumerated: longer bodies
		tp.n = t.Range(maxEnumN+1, 12)
		es := endingsOf(tp.n)
		e := es[t.Intn(len(es))]
		tp.end, tp.pos = ending(e[0]), e[1]
		r.Ev("large", int64(tp.n), int64(tp.end), int64(tp.pos))
		return tp, true
	}
	return tp, false
}

// ---- sequence mode ----------------------------------------------------------------------------------------

func body(r *simrt.Run, tier string) {
	t := r.Tape
	if nextMode == modePool {
		bodyPool(r, tier)
		return
	}
	tp, sampled := drawPlan(r, tier)
	e := newEnv(r, tier, tp.name(), false)
	defer e.finish()
	connKind := connTable[t.Intn(len(connTable))]
	var accModes []int
	switch connKind {
	case ckFromDBAccept, ckManagedAccept:
		accModes = []int{t.Intn(3)}
	case ckFromDBAccept2:
		accModes = []int{t.Intn(3), t.Intn(3)}
	}
	nSeq := seqTable[t.Intn(len(seqTable))]
	managed := connKind == ckManaged || connKind == ckManagedAccept || connKind == ckUnknownDSN
	if managed {
		// go-zero gives its own pools a connection lifetime of one minute, enforced by a goroutine of
		// database/sql that is not a task: keep the run far below a minute of virtual time
		e.maxSleep = 50 * time.Millisecond
		if nSeq > 4 {
			nSeq = 4
		}
	}
	outageFrom := -1
	if nSeq >= 6 && t.Bool() {
		outageFrom = t.Range(1, 3)
	}
	// the outage may go on as a burst of further refused calls and be followed by a recovery phase
	burst, nRec, thinkMax := 0, 0, 0
	if outageFrom >= 0 {
		burst = burstTable[t.Intn(len(burstTable))]
		nRec = recTable[t.Intn(len(recTable))]
		if nRec > 0 {
			thinkMax = t.Intn(len(thinkTable))
		}
	}
	closeAt := -1
	if connKind == ckClosedDB {
		closeAt = t.Intn(nSeq)
	}
	seq := []*world{e.drawWorld(tp, 0, false)}
	for i := 1; i < nSeq; i++ {
		tpi := decode(t.Intn(spaceSize))
		outage := outageFrom >= 0 && i >= outageFrom
		if outage {
			tpi.txf = txfBegin
		}
		seq = append(seq, e.drawWorld(tpi, 0, outage))
	}
	// burst: the database goes on refusing every BEGIN, the client calls again at once or after 1 ms
	for i := 0; i < burst; i++ {
		w := e.drawWorld(tuple{api: t.Intn(nAPI), txf: txfBegin}, 0, true)
		w.phase, w.think = phBurst, time.Duration(t.Intn(2))*time.Millisecond
		seq = append(seq, w)
	}
	// recovery: the database is healthy again (no tx-layer fault, no statement fault); bodies of 0..2
	// statements that return nil (mostly), return an error of their own or panic
	for i := 0; i < nRec; i++ {
		tpi := tuple{api: t.Intn(nAPI), txf: txfNone, n: t.Intn(3)}
		switch t.Intn(5) {
		case 3:
			tpi.end, tpi.pos = endErr, t.Intn(tpi.n+1)
		case 4:
			tpi.end, tpi.pos = endPanic, t.Intn(tpi.n+1)
		}
		w := e.drawWorld(tpi, 0, false)
		w.phase, w.think = phRecovery, thinkTable[t.Intn(thinkMax+1)]
		seq = append(seq, w)
	}
	for i, w := range seq {
		if w.nested != nil {
			w.nested.phase = w.phase
		}
		if connKind == ckUnknownDSN || (closeAt >= 0 && i >= closeAt) {
			w.openFails = true
			if w.nested != nil {
				w.nested.openFails = true
			}
		}
	}
	cleanup, ok := e.open(connKind, accModes)
	if !ok {
		return
	}
	defer cleanup()

	if r.Tracing() {
		logf(r, "conn=%s acceptable-modes=%v sequence of %d (outage from %d, db closed before %d), outage burst of %d, recovery of %d (think times up to %v)", connNames[connKind], accModes, nSeq, outageFrom, closeAt, burst, nRec, thinkTable[thinkMax])
		for _, w := range e.worlds {
			logf(r, "plan %s", w.describe())
		}
	}

	// ---- the transactions of this run, one after another
	failedBefore := false
	for i, w := range seq {
		if i == closeAt {
			e.sqlDB.Close()
			if i > 0 {
				r.Probe("db-closed-mid-sequence")
			}
		}
		if i > 0 && failedBefore {
			r.Probe("seq-transaction-after-failed-one")
		}
		if w.think > 0 {
			r.Sleep(w.think)
		}
		if r.Tracing() && w.phase != phSequence {
			logf(r, "t=%v %s: call c%d after a think time of %v", time.Since(e.start), phaseNames[w.phase], w.id, w.think)
		}
		w.transact(context.Background())
		if w.ret != nil || w.didEscape {
			failedBefore = true
		}
	}

	log := e.db.snapshot()
	for _, ev := range log {
		flag := int64(0)
		if ev.err != nil {
			flag = 1
		}
		r.Ev(ev.op, int64(ev.client), int64(ev.tag), flag)
	}
	if r.Tracing() {
		logf(r, "driver log: %s", logString(log))
		for _, w := range e.worlds {
			if w.called {
				logf(r, "c%d: body runs=%d outcome=%s bodyErr=%v; Transact returned %v (escaped panic: %v) ctx at return: %v", w.id, w.bodyRuns, w.outcome, w.bodyErr, w.ret, w.escaped, w.ctxErrAtReturn)
			}
		}
	}
	// ---- oracle, per transaction
	for _, w := range e.worlds {
		if !w.called {
			continue
		}
		w.check(log)
		if r.Failed() {
			return
		}
	}
	// go-zero's own pool: every connection went back to it
	if managed {
		if raw, err := e.conn.RawDB(); err == nil {
			if inUse := raw.Stats().InUse; inUse != 0 {
				failf(r, "tx-left-open", "%d connection(s) of the pool that sqlx.NewSqlConn manages still checked out after every Transact returned. driver log: %s", inUse, logString(log))
				return
			}
		}
	}

	// ---- coverage bookkeeping
	r.Probe("oracle")
	r.Probe("nontrivial")
	w0 := seq[0]
	r.Probe("api-" + apiNames[tp.api])
	if sampled {
		r.Probe("sampled-large-body")
	} else {
		r.Probe("tuple-" + tp.name())
	}
	r.Probe("conn-" + connNames[connKind])
	r.Probe(fmt.Sprintf("seq-len-%d", nSeq))
	if outageFrom >= 0 {
		r.Probe("seq-outage")
	}
	if burst > 0 {
		r.Probe(fmt.Sprintf("seq-outage-burst-%d", burst))
	}
	if nRec > 0 {
		r.Probe(fmt.Sprintf("seq-recovery-%d", nRec))
		e.recoveryCoverage(seq)
	}
	e.coverage()
	retStr := "<nil>"
	if w0.ret != nil {
		retStr = w0.ret.Error()
	}
	var descr []string
	for _, w := range e.worlds {
		if w.called && w != w0 {
			if len(descr) == 16 {
				descr = append(descr, fmt.Sprintf("... (%d calls in all: outage burst of %d, recovery of %d)", len(e.worlds), burst, nRec))
				break
			}
			descr = append(descr, w.summary())
		}
	}
	r.Sample(map[string]any{"api": apiNames[tp.api], "tuple": tp.name(), "statements": tp.n, "conn": connNames[connKind], "context": ctxNames[w0.ctxKind],
		"driver_log": logString(log), "body_outcome": w0.outcome, "returned": retStr, "further_transactions": strings.Join(descr, " | ")})
}

func (w *world) summary() string {
	retStr := "<nil>"
	if w.ret != nil {
		retStr = w.ret.Error()
	}
	kind := ""
	if w.depth > 0 {
		kind = " nested"
		if w.sessionNested {
			kind = " nested-on-session"
		}
	}
	return fmt.Sprintf("c%d%s %s %s ctx=%s -> body %s, returned %s", w.id, kind, apiNames[w.tp.api], w.tp.name(), ctxNames[w.ctxKind], w.outcome, retStr)
}

// recoveryCoverage emits the probes of the recovery phase: which think times were used, what the
// breaker did to the healthy calls (rejected outright / admitted), and whether a call was admitted
// while the breaker was demonstrably still throttling (an earlier AND a later call of the phase
// were rejected with less than the breaker window between them).
func (e *env) recoveryCoverage(seq []*world) {
	r := e.r
	var rec []*world
	for _, w := range seq {
		if w.phase == phRecovery && w.called {
			rec = append(rec, w)
		}
	}
	lastRej := -1
	for i, w := range rec {
		r.Probe("recovery-think-" + w.think.String())
		if w.rejected {
			r.Probe("recovery-call-rejected-by-breaker")
			if w.think > time.Second {
				r.Probe("recovery-call-rejected-after-think-beyond-1s")
			}
			lastRej = i
			continue
		}
		if w.bodyRuns == 0 {
			continue // context already ended, pool closed, ...
		}
		r.Probe("recovery-transaction-" + w.outcome)
		if lastRej < 0 {
			continue
		}
		r.Probe("recovery-call-admitted-after-rejection")
		if w.think > time.Second && lastRej == i-1 {
			r.Probe("recovery-call-admitted-after-think-beyond-1s-following-rejection")
		}
		var gap time.Duration
		for j := i + 1; j < len(rec); j++ {
			gap += rec[j].think + rec[j].sleepTotal()
			if rec[j].rejected {
				if gap+w.sleepTotal() < 10*time.Second {
					r.Probe("recovery-call-admitted-between-rejections")
				}
				break
			}
		}
	}
}

// coverage emits the probes of the sampled dimensions for every transaction that was called.
func (e *env) coverage() {
	r := e.r
	pre := ""
	if e.pool {
		pre = "pool-"
	}
	for _, w := range e.worlds {
		if !w.called {
			continue
		}
		tp := w.tp
		r.Probe("ctx-" + ctxNames[w.ctxKind])
		if w.ctxDoneAtCall {
			r.Probe("ctx-done-before-call")
		}
		if w.deadline.IsZero() == false && !w.ctxDoneAtCall && errors.Is(w.ctxErrAtReturn, context.DeadlineExceeded) {
			r.Probe("ctx-deadline-expired-during-call")
		}
		if w.refusedAfterDone > 0 {
			r.Probe("stmt-refused-after-ctx-ended")
			if errors.Is(w.ctxErrAtReturn, context.DeadlineExceeded) {
				r.Probe("stmt-refused-after-deadline")
			}
		}
		if w.depth > 0 {
			if w.sessionNested {
				r.Probe("nested-on-session")
			} else {
				r.Probe("nested-independent")
			}
		}
		for _, what := range []string{"begin", "connect", "commit", "rollback"} {
			if e.db.fired(w.id, what) > 0 {
				r.Probe(pre + "fault-fired-" + what)
			}
		}
		if tp.end == endStmtFail || tp.end == endStmtIgnored {
			switch {
			case e.db.fired(w.id, "stmt") > 0:
				r.Probe(pre + "fault-fired-statement")
			case e.db.fired(w.id, "prepare") > 0:
				r.Probe(pre + "fault-fired-prepare")
			case e.db.fired(w.id, "empty") > 0:
				r.Probe(pre + "fault-fired-empty-result")
			case e.db.fired(w.id, "rows") > 0:
				r.Probe(pre + "fault-fired-rows-break")
			case w.argFaultSeen:
				r.Probe(pre + "fault-fired-argument-mismatch")
			case w.scanFaultSeen:
				r.Probe(pre + "fault-fired-scan")
			}
		}
		if w.bodyRuns > 0 {
			for k := 1; k <= tp.n && k <= w.stmtsIssued; k++ {
				r.Probe("stmt-kind-" + kindNames[w.kinds[k]])
			}
			for _, p := range w.pauses {
				if p.sleep > 10*time.Second {
					r.Probe("body-paused-beyond-breaker-window")
				} else if p.sleep > 500*time.Millisecond {
					r.Probe("body-paused-beyond-slow-threshold")
				}
			}
		}
		if w.outcome == "panic" {
			r.Probe("body-panicked")
			r.Probe("panic-value-" + panicNames[w.panicKind])
		}
		if w.outcome == "err" && tp.end == endErr {
			r.Probe("body-error-" + bodyErrNames[w.errKind])
		}
		if w.unexpected > 0 {
			r.Probe("unplanned-statement-error")
		}
	}
	calls := 0
	for _, w := range e.worlds {
		if w.called {
			calls++
		}
	}
	r.ProbeN("transact-calls-evaluated", calls)
	for k, n := range e.db.firedIdents {
		r.ProbeN("injected-"+k, n)
	}
}

// mine selects the events of the shared driver log that belong to this transaction:
// statements by the world number in their tag, BEGIN / connect by the innermost Transact call
// in progress on the task on which the driver was called, COMMIT / ROLLBACK by the world that
// began the transaction.
func (w *world) mine(log []dbEvent) []dbEvent {
	var out []dbEvent
	for _, e := range log {
		if (e.tag != 0 && e.tag/100 == w.id) || (e.tag == 0 && e.client == w.id) {
			out = append(out, e)
		}
	}
	return out
}

// sharedOpenFailure: the SqlConn opens its own pool (sqlx.NewSqlConn), other clients use it at the
// same time, and the error returned to this call is the failure of a connection attempt that the
// driver recorded for another call.
func (w *world) sharedOpenFailure(fullLog []dbEvent) bool {
	if k := w.env.connKind; !w.pool || (k != ckManaged && k != ckManagedAccept) || w.ret == nil {
		return false
	}
	for _, e := range fullLog {
		if e.op == opConnect && e.err != nil && e.client != w.id && reports(w.ret, e.err) {
			return true
		}
	}
	return false
}

// failf / logf format OUTSIDE the engine's lock: the Error methods of go-zero's own error types
// (sqlx's acceptableError) are instrumented code and must not run while the engine holds it.
func failf(r *simrt.Run, class, format string, a ...any) {
	r.Fail(class, "%s", fmt.Sprintf(format, a...))
}

func logf(r *simrt.Run, format string, a ...any) {
	if r.Tracing() {
		r.Logf("%s", fmt.Sprintf(format, a...))
	}
}

// reports tells whether the error handed to the caller carries the given failure.
func reports(ret, cause error) bool {
	if ret == nil || cause == nil {
		return false
	}
	return errors.Is(ret, cause) || strings.Contains(ret.Error(), cause.Error())
}

// check is the oracle: it decides the property statement on the driver's
// begin/statement/commit/rollback log, what the body did, and what the caller got.
func (w *world) check(fullLog []dbEvent) {
	r := w.r
	ret, didEscape, escaped := w.ret, w.didEscape, w.escaped
	log := w.mine(fullLog)
	var begins, okBegins, connectFailures int
	var txn int
	var beginSeq int
	for _, e := range log {
		switch e.op {
		case opBegin:
			begins++
			if e.err == nil {
				okBegins++
				txn, beginSeq = e.tx, e.seq
			}
		case opConnect:
			if e.err != nil {
				connectFailures++
			}
		}
	}
	trail := func() string {
		who := ""
		if len(w.env.worlds) > 1 {
			who = fmt.Sprintf("transaction c%d of %d on one SqlConn, ", w.id, len(w.env.worlds))
		}
		if w.pool {
			who += "shared by concurrent clients, "
		}
		if w.depth > 0 {
			who += "called from inside another transaction's body, "
		}
		if w.phase != phSequence {
			who += fmt.Sprintf("phase %s (think time %v before the call), ", phaseNames[w.phase], w.think)
		}
		return fmt.Sprintf("[%sconn %s, api %s, tuple %s, ctx %s] driver log: %s; body runs=%d outcome=%s; returned error: %v",
			who, connNames[w.env.connKind], apiNames[w.tp.api], w.tp.name(), ctxNames[w.ctxKind], logString(fullLog), w.bodyRuns, w.outcome, ret)
	}

	// "begins one transaction": at most one transaction is opened; database/sql itself retries a
	// Begin that failed with a bad-connection error on other connections (up to three attempts),
	// which opens nothing
	plan := w.db.plan(w.id)
	badConn := isBadConnIdent(plan.ident["begin"]) || isBadConnIdent(plan.ident["connect"])
	if okBegins > 1 || (begins > 1 && !badConn) || begins > 3 {
		failf(r, "begin-count", "%d transactions begun (%d begin attempts) by one Transact call. %s", okBegins, begins, trail())
		return
	}
	// "the body is not run if the transaction cannot begin"
	if okBegins == 0 && w.bodyRuns > 0 {
		failf(r, "body-run-without-begin", "the body ran although no transaction had begun. %s", trail())
		return
	}
	// "the panic is reported as an error"
	if didEscape {
		if w.outcome == "panic" {
			failf(r, "panic-escaped", "the body's panic escaped Transact instead of being reported as an error: %v. %s", escaped, trail())
		} else {
			failf(r, "internal-panic", "Transact panicked although the body did not: %v. %s", escaped, trail())
		}
		return
	}
	if okBegins == 0 {
		if begins == 0 && connectFailures == 0 {
			// nothing reached the database: the transaction could not begin for a reason outside the driver.
			// "the body is not run if the transaction cannot begin" holds (checked above); what remains is
			// "the returned error is nil only when the commit succeeded"
			switch {
			case ret != nil && errors.Is(ret, breaker.ErrServiceUnavailable):
				// the SqlConn's breaker rejected the call
				r.Probe("breaker-rejected")
				w.rejected = true
				return
			case w.ctxAPI() && ret != nil && w.ctxErrAtReturn != nil && errors.Is(ret, w.ctxErrAtReturn):
				// refusing to begin on a context that has ended (nothing run, the context's error returned)
				// is within the statement
				r.Probe("ctx-ended-before-begin")
				if w.pool {
					r.Probe("pool-cancelled-before-begin")
				}
				return
			case w.sessionNested:
				if ret == nil {
					failf(r, "nil-error-without-commit:nested-on-session", "Transact on a session-backed SqlConn returned nil although it began and committed nothing. %s", trail())
					return
				}
				r.Probe("nested-on-session-refused")
				return
			case w.sharedOpenFailure(fullLog):
				// sqlx.NewSqlConn opens its pool at first use, once for all concurrent callers: the call was
				// handed the failure of the attempt that another client's call was making
				r.Probe("pool-open-failure-shared-with-concurrent-caller")
				return
			case w.openFails:
				if ret == nil {
					failf(r, "nil-error-without-commit:pool-unavailable", "Transact returned nil although the SqlConn could not obtain a usable pool, so nothing began. %s", trail())
					return
				}
				r.Probe("pool-unavailable-body-skipped")
				return
			}
			failf(r, "no-begin", "Transact returned without trying to begin a transaction. %s", trail())
			return
		}
		r.Probe("begin-failed-body-skipped")
		// "the returned error is nil only when the commit succeeded"
		if ret == nil {
			failf(r, "nil-error-without-commit:begin-failed", "Transact returned nil although the transaction could not begin. %s", trail())
		}
		return
	}
	// transaction txn is open from beginSeq on
	if w.bodyRuns != 1 {
		cls := "body-not-run"
		if w.bodyRuns > 1 {
			cls = "body-run-twice"
		}
		failf(r, cls, "a transaction began but the body ran %d times. %s", w.bodyRuns, trail())
		return
	}
	var commits, rollbacks int
	var endEv dbEvent
	for _, e := range log {
		if e.tx == txn && (e.op == opCommit || e.op == opRollback) {
			if e.op == opCommit {
				commits++
			} else {
				rollbacks++
			}
			if endEv.seq == 0 {
				endEv = e
			}
		}
		if e.tag != 0 && (e.tx != txn || e.seq < beginSeq || (endEv.seq != 0 && e.seq > endEv.seq)) {
			failf(r, "stmt-outside-tx", "statement %d of the body did not execute inside the transaction that Transact began for it (tx %d) (event %s). %s", e.tag%100, txn, e, trail())
			return
		}
	}
	// "ends it exactly once"
	switch ends := commits + rollbacks; {
	case ends == 0:
		failf(r, "never-ended:body-"+w.outcome, "the transaction was neither committed nor rolled back (body outcome %s). %s", w.outcome, trail())
		return
	case ends > 1:
		failf(r, "ended-twice", "the transaction was ended %d times (%d commits, %d rollbacks). %s", ends, commits, rollbacks, trail())
		return
	}
	if endEv.seq <= w.bodyEndMark {
		failf(r, "ended-before-body-finished", "%s reached the driver before the body had finished. %s", endEv.op, trail())
		return
	}
	// "commits iff the body returned nil, rolls back if it returned an error or panicked"
	switch {
	case w.outcome == "nil" && endEv.op != opCommit:
		failf(r, "rollback-after-success", "the body returned nil but the transaction was rolled back. %s", trail())
		return
	case w.outcome == "err" && endEv.op != opRollback:
		failf(r, "commit-after-error", "the body returned error %q but the transaction was committed. %s", w.bodyErr, trail())
		return
	case w.outcome == "panic" && endEv.op != opRollback:
		failf(r, "commit-after-panic", "the body panicked but the transaction was committed. %s", trail())
		return
	}
	committed := endEv.op == opCommit && endEv.err == nil
	// "the returned error is nil only when the commit succeeded"
	if ret == nil && !committed {
		switch {
		case w.outcome == "panic":
			failf(r, "panic-swallowed", "the body panicked and Transact returned nil. %s", trail())
		case endEv.op == opCommit:
			failf(r, "commit-error-lost", "the commit failed with %q and Transact returned nil. %s", endEv.err, trail())
		default:
			failf(r, "nil-error-without-commit:body-"+w.outcome, "Transact returned nil although nothing was committed. %s", trail())
		}
		return
	}
	if committed && ret != nil {
		failf(r, "error-after-commit", "the transaction was committed successfully but Transact returned %q. %s", ret, trail())
		return
	}
	// "commit or rollback failures are reported to the caller"
	if endEv.err != nil && !reports(ret, endEv.err) {
		failf(r, endEv.op+"-error-lost", "the %s failed with %q, which the returned error does not report. %s", endEv.op, endEv.err, trail())
		return
	}
	if endEv.err != nil {
		r.Probe(endEv.op + "-failure-reported")
	}
	// ended at the database/sql level too: the connection went back to the pool (the transactions
	// of the enclosing bodies, still open, hold one connection each)
	if w.inUseAfter >= 0 && w.inUseAfter != w.depth {
		failf(r, "tx-left-open", "%d connection(s) checked out right after Transact returned, expected %d. %s", w.inUseAfter, w.depth, trail())
	}
}

const (
	modeEnum = iota
	modePool
)

// nextMode is decided by config (it is called with the run's tape right before body) because
// the scheduler knobs depend on it; body of the same run consumes it.
var nextMode int

func config(t *simrt.Tape, tier string) simrt.Config {
	// sequence mode: one client task, forced switches cannot change anything; keep rare
	// virtual-time stalls (a statement or the commit may take longer than the slow-call threshold,
	// a short deadline may pass anywhere inside the call)
	st := []int{0, 0, 0, 20}[t.Intn(4)]
	sw := 0
	nextMode = modeEnum
	if t.Intn(5) == 4 {
		nextMode = modePool
		sw = []int{50, 150, 400}[t.Intn(3)]
	}
	return simrt.Config{SwitchPerMille: sw, StallPerMille: st, StallMax: 2 * time.Second, MaxSteps: 100000, MaxVirtual: 48 * time.Hour}
}

func TestSim(t *testing.T) {
	simharness.Main(t, &simharness.Spec{ID: "C14", Body: body, Config: config})
}
