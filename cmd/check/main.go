// Command check is the driver of a property check: it instruments the current
// working tree of /repo, builds the property's harness with the overlay, runs
// batches of simulated executions in worker processes, shrinks and records the
// first violation, and writes the evidence file.
//
// Exit codes: 0 property held on everything explored (known findings printed);
// 1 VIOLATION; 2 build / engine / watchdog trouble (never a VIOLATION).
package main

import (
	"encoding/json"
	"flag"
	"fmt"
	"os"
	"os/exec"
	"os/signal"
	"path/filepath"
	"runtime"
	"sort"
	"strconv"
	"strings"
	"sync"
	"syscall"
	"time"

	"verifsim/instrument"
	"verifsim/simharness"
)

var (
	verifDir = "/verif" // VERIF_DIR overrides it (set by ./check to its own directory: a snapshot of /verif runs itself)
	repoDir  = "/repo"
	goCmd    = "go1.26.8"
)

func init() {
	if d := os.Getenv("VERIF_DIR"); d != "" {
		verifDir = d
	}
}

type meta struct {
	Level       string   `json:"level"`
	Rule        string   `json:"rule"`
	Real        []string `json:"real_components"`
	Stub        []string `json:"stub_components"`
	Assumptions []string `json:"assumptions"`
	FaultKinds  []string `json:"fault_kinds"`
	QuickMs     int      `json:"quick_budget_ms"`
	ThoroughMs  int      `json:"thorough_budget_ms"`
	Chunk       int      `json:"chunk"`
	ExtraAllow  []string `json:"extra_allow"`
	Tags        string   `json:"tags"`
	Racy        bool     `json:"racy"` // statement-level scheduling points in the instrumented packages
}

type finding struct {
	Property string `json:"property"`
	Class    string `json:"class"`
	What     string `json:"what"`
	Status   string `json:"status"` // open | fixed
	Commit   string `json:"commit,omitempty"`
}

var dieHook = func() {}

func die(code int, format string, a ...any) {
	dieHook()
	fmt.Fprintf(os.Stderr, format+"\n", a...)
	os.Exit(code)
}

func goEnv() []string {
	env := os.Environ()
	env = append(env, "GOFLAGS=-mod=mod", "GOPROXY=off", "GOSUMDB=off", "GOTOOLCHAIN=local")
	return env
}

type built struct {
	scratch string
	bin     string
	stats   *instrument.Stats
	racy    bool
	known   string
}

// repoLock serialises access to /repo's working tree between concurrent checks:
// a plain check holds it shared while it reads the tree (instrument + build), a
// check started with --patch holds it exclusively while the patch is applied.
func repoLock(exclusive bool) func() {
	f, err := os.OpenFile("/tmp/verif-repo.lock", os.O_CREATE|os.O_RDWR, 0o666)
	if err != nil {
		return func() {}
	}
	how := syscall.LOCK_SH
	if exclusive {
		how = syscall.LOCK_EX
	}
	syscall.Flock(int(f.Fd()), how)
	return func() { syscall.Flock(int(f.Fd()), syscall.LOCK_UN); f.Close() }
}

func build(id string, m *meta, patch string) *built {
	scratch, err := os.MkdirTemp("", "verif-"+id+"-")
	if err != nil {
		die(2, "mkdtemp: %v", err)
	}
	unlock := repoLock(patch != "")
	defer unlock()
	if patch != "" {
		abs, _ := filepath.Abs(patch)
		if out, err := exec.Command("git", "-C", repoDir, "apply", abs).CombinedOutput(); err != nil {
			os.RemoveAll(scratch)
			unlock()
			die(3, "patch %s does not apply: %v %s", patch, err, out)
		}
		revert := func() {
			if out, err := exec.Command("git", "-C", repoDir, "apply", "-R", abs).CombinedOutput(); err != nil {
				fmt.Fprintf(os.Stderr, "WARNING: could not revert %s: %v %s\n", patch, err, out)
			}
		}
		defer revert()
		sigc := make(chan os.Signal, 1)
		signal.Notify(sigc, syscall.SIGINT, syscall.SIGTERM, syscall.SIGHUP)
		go func() {
			if _, ok := <-sigc; ok {
				revert()
				os.RemoveAll(scratch)
				os.Exit(2)
			}
		}()
		defer func() { signal.Stop(sigc); close(sigc) }()
		dieOrig := dieHook
		dieHook = func() { revert(); unlock() }
		defer func() { dieHook = dieOrig }()
	}
	pkg := "./harness/" + strings.ToLower(id)
	ov, st, err := instrument.Run(instrument.Options{RepoDir: repoDir, VerifDir: verifDir, OutDir: scratch,
		Packages: []string{pkg}, GoCmd: goCmd, Env: goEnv(), SeamsDir: filepath.Join(verifDir, "seams"),
		Patches: instrument.DefaultPatches, ExtraAllow: m.ExtraAllow, Racy: m.Racy})
	if err != nil {
		os.RemoveAll(scratch)
		die(2, "ENGINE instrumenter failed: %v", err)
	}
	bin := filepath.Join(scratch, "h.test")
	cmd := exec.Command(goCmd, "test", "-c", "-tags", "verif", "-vet=off", "-overlay", ov, "-o", bin, pkg)
	cmd.Dir = verifDir
	cmd.Env = goEnv()
	out, err := cmd.CombinedOutput()
	if err != nil {
		os.RemoveAll(scratch)
		die(2, "ENGINE build of harness failed: %v\n%s", err, out)
	}
	return &built{scratch: scratch, bin: bin, stats: st, racy: m.Racy}
}

func (b *built) run(env []string, timeout time.Duration) (string, error) {
	cmd := exec.Command(b.bin, "-test.run", "^TestSim$", "-test.timeout", "0", "-test.count", "1")
	cmd.Dir = b.scratch
	cmd.Env = append(os.Environ(), env...)
	if b.racy {
		cmd.Env = append(cmd.Env, "VERIF_RACY=1")
	}
	hasKnown := false
	for _, e := range env {
		if strings.HasPrefix(e, "VERIF_KNOWN=") {
			hasKnown = true
		}
	}
	if !hasKnown {
		cmd.Env = append(cmd.Env, "VERIF_KNOWN="+b.known) // every mode (replay, shrink, det) sees the same known-class list as the runs
	}
	var buf strings.Builder
	cmd.Stdout = &buf
	cmd.Stderr = &buf
	if err := cmd.Start(); err != nil {
		return "", err
	}
	done := make(chan error, 1)
	go func() { done <- cmd.Wait() }()
	select {
	case err := <-done:
		return buf.String(), err
	case <-time.After(timeout):
		cmd.Process.Kill()
		<-done
		return buf.String(), fmt.Errorf("worker timed out after %v", timeout)
	}
}

func tail(s string, n int) string {
	if len(s) > n {
		return "..." + s[len(s)-n:]
	}
	return s
}

func main() {
	tier := flag.String("tier", "", "quick|thorough")
	replay := flag.String("replay", "", "replay file")
	selftest := flag.Bool("selftest", false, "determinism self-test")
	workers := flag.Int("workers", 0, "worker processes")
	budget := flag.Duration("budget", 0, "wall-clock budget for runs")
	keep := flag.Bool("keep", false, "keep scratch dir")
	noShrink := flag.Bool("noshrink", false, "do not shrink")
	warm := flag.Bool("warm", false, "only instrument and build the harness (fills the Go build cache), no runs, no evidence")
	patch := flag.String("patch", "", "apply this patch to /repo while building (reverted right after the build)")
	if len(os.Args) < 2 {
		die(2, "usage: check <ID> [--tier quick|thorough] [--replay file] [--selftest]")
	}
	id := os.Args[1]
	flag.CommandLine.Parse(os.Args[2:])
	if *tier == "" {
		*tier = os.Getenv("VERIF_TIER")
	}
	if *tier == "" {
		*tier = "quick"
	}
	if *tier != "quick" && *tier != "thorough" {
		die(2, "bad tier %q", *tier)
	}
	seed := uint64(1)
	if s := os.Getenv("VERIF_SEED"); s != "" {
		if v, err := strconv.ParseInt(s, 10, 64); err == nil {
			seed = uint64(v)
		}
	}
	m := &meta{Level: "exploration", QuickMs: 20000, ThoroughMs: 600000, Chunk: 3000}
	mb, err := os.ReadFile(filepath.Join(verifDir, "harness", strings.ToLower(id), "meta.json"))
	if err != nil {
		die(2, "no harness for %s: %v", id, err)
	}
	if err := json.Unmarshal(mb, m); err != nil {
		die(2, "meta.json: %v", err)
	}
	if *workers <= 0 {
		*workers = runtime.NumCPU()
		if *workers > 16 {
			*workers = 16
		}
	}
	t0 := time.Now()
	b := build(id, m, *patch)
	if !*keep {
		defer os.RemoveAll(b.scratch)
	}
	buildS := time.Since(t0).Seconds()

	exit := func(code int) {
		if !*keep {
			os.RemoveAll(b.scratch)
		}
		os.Exit(code)
	}

	// known findings
	var kf struct {
		Findings []finding `json:"findings"`
	}
	if kb, err := os.ReadFile(filepath.Join(verifDir, "known_findings.json")); err == nil {
		if err := json.Unmarshal(kb, &kf); err != nil {
			die(2, "known_findings.json: %v", err)
		}
	}
	var known []string
	for _, f := range kf.Findings {
		if f.Property == id && f.Status == "open" {
			known = append(known, f.Class)
		}
	}
	b.known = strings.Join(known, "\x1f")

	if *warm {
		fmt.Printf("check %s: harness built in %.1fs\n", id, buildS)
		exit(0)
	}
	if *replay != "" {
		abs, _ := filepath.Abs(*replay)
		exit(doReplay(b, id, abs))
	}
	if *selftest {
		rc, _ := doSelfTest(b, id, *tier)
		exit(rc)
	}
	selfNote := "not run in this tier (run ./check " + id + " --selftest, or the thorough tier)"
	if *tier == "thorough" && *patch == "" {
		rc, note := doSelfTest(b, id, "quick")
		if rc != 0 {
			fmt.Fprintf(os.Stderr, "ENGINE: determinism self-test failed: %s\n", note)
			exit(2)
		}
		selfNote = note
	}

	bud := time.Duration(m.QuickMs) * time.Millisecond
	if *tier == "thorough" {
		bud = time.Duration(m.ThoroughMs) * time.Millisecond
	}
	if *budget > 0 {
		bud = *budget
	}
	deadline := time.Now().Add(bud)

	var mu sync.Mutex
	total := &simharness.Summary{Probes: map[string]int{}, Known: map[string]int{}, KnownFirst: map[string]simharness.FailRec{}}
	hashes := map[string]struct{}{}
	var failures []simharness.FailRec
	var engineErrs []string
	stop := false
	procs := 0
	var wg sync.WaitGroup
	for slot := 0; slot < *workers; slot++ {
		wg.Add(1)
		go func(slot int) {
			defer wg.Done()
			next := 0
			for epoch := 0; ; epoch++ {
				mu.Lock()
				if stop || time.Now().After(deadline) {
					mu.Unlock()
					return
				}
				procs++
				mu.Unlock()
				remain := time.Until(deadline)
				out := filepath.Join(b.scratch, fmt.Sprintf("w%d-%d.json", slot, epoch))
				env := []string{"VERIF_MODE=run", "VERIF_TIER=" + *tier, fmt.Sprintf("VERIF_SEED=%d", seed),
					fmt.Sprintf("VERIF_SLOT=%d", slot), fmt.Sprintf("VERIF_EPOCH=%d", epoch), fmt.Sprintf("VERIF_START=%d", next),
					fmt.Sprintf("VERIF_MAXRUNS=%d", m.Chunk), fmt.Sprintf("VERIF_BUDGET_MS=%d", remain.Milliseconds()),
					"VERIF_OUT=" + out, "VERIF_KNOWN=" + strings.Join(known, "\x1f")}
				txt, err := b.run(env, remain+150*time.Second)
				sb, rerr := os.ReadFile(out)
				os.Remove(out)
				if rerr != nil {
					mu.Lock()
					dump := filepath.Join(verifDir, "replays", fmt.Sprintf("engine-%s-seed%d-slot%d-epoch%d.log", id, seed, slot, epoch))
					os.MkdirAll(filepath.Dir(dump), 0o755)
					os.WriteFile(dump, []byte(strings.Join(env[:len(env)-1], " ")+"\n"+txt), 0o644)
					head := txt
					if len(head) > 3000 {
						head = head[:3000] + "\n..."
					}
					engineErrs = append(engineErrs, fmt.Sprintf("worker slot %d epoch %d (start %d) produced no summary (%v); full output in %s; it begins: %s\n... and ends: %s", slot, epoch, next, err, dump, head, tail(txt, 3000)))
					stop = true
					mu.Unlock()
					return
				}
				sum := &simharness.Summary{}
				if err := json.Unmarshal(sb, sum); err != nil {
					mu.Lock()
					engineErrs = append(engineErrs, "bad summary: "+err.Error())
					stop = true
					mu.Unlock()
					return
				}
				mu.Lock()
				total.Runs += sum.Runs
				total.Steps += sum.Steps
				total.Switches += sum.Switches
				total.Stalls += sum.Stalls
				total.Idles += sum.Idles
				total.RacySwitches += sum.RacySwitches
				total.Tasks += sum.Tasks
				total.VirtualS += sum.VirtualS
				total.Nontrivial += sum.Nontrivial
				if sum.MaxSteps > total.MaxSteps {
					total.MaxSteps = sum.MaxSteps
				}
				if sum.MaxTasks > total.MaxTasks {
					total.MaxTasks = sum.MaxTasks
				}
				for k, v := range sum.Probes {
					total.Probes[k] += v
				}
				for k, v := range sum.Known {
					total.Known[k] += v
				}
				for k, v := range sum.KnownFirst {
					if _, ok := total.KnownFirst[k]; !ok {
						total.KnownFirst[k] = v
					}
				}
				for _, h := range sum.Hashes {
					hashes[h] = struct{}{}
				}
				if len(total.Samples) < 3 {
					total.Samples = append(total.Samples, sum.Samples...)
				}
				for _, f := range sum.Failures {
					if f.Engine {
						engineErrs = append(engineErrs, fmt.Sprintf("seed=%d slot=%d index=%d: %s", f.Seed, f.Slot, f.Index, f.Msg))
					} else {
						failures = append(failures, f)
					}
					stop = true
				}
				mu.Unlock()
				next = sum.NextIndex
				if sum.Done {
					return
				}
			}
		}(slot)
	}
	wg.Wait()
	wall := time.Since(t0).Seconds()

	if len(engineErrs) > 0 {
		fmt.Fprintf(os.Stderr, "ENGINE error(s) in check %s:\n%s\n", id, strings.Join(engineErrs, "\n"))
		if len(failures) == 0 {
			exit(2)
		}
		// another worker found a violation: it is confirmed in a fresh process below (exit 2 there if it does
		// not reproduce) and then stands on its own; a changed go-zero can do both, break a property and
		// make some other run spin until the wall-clock watchdog
		fmt.Fprintf(os.Stderr, "a violation was found by another worker; it is reported if it reproduces in a fresh process\n")
	}

	violations := 0
	var replayPath string
	if len(failures) > 0 {
		sort.Slice(failures, func(i, j int) bool {
			if failures[i].Slot != failures[j].Slot {
				return failures[i].Slot < failures[j].Slot
			}
			return failures[i].Index < failures[j].Index
		})
		f := failures[0]
		violations = len(failures)
		replayPath = recordViolation(b, id, *tier, seed, f, *noShrink)
	}

	runDur := wall - buildS
	ev := map[string]any{
		"property_id": id, "tier": *tier, "seed": int64(seed), "level": m.Level,
		"wall_s": wall, "violations": violations,
		"assumptions": m.Assumptions,
		"coverage": map[string]any{
			"evaluations":         total.Runs,
			"distinct_nontrivial": len(hashes),
			"rule":                m.Rule,
			"samples":             total.Samples,
			"nontrivial_runs":     total.Nontrivial,
			"runs_per_hour":       int(float64(total.Runs) / runDur * 3600),
			"seeds_explored":      total.Runs,
			"simulated_time_s":    total.VirtualS,
			"scheduling_points":   total.Steps,
			"tasks_created":       total.Tasks,
			"max_steps_per_run":   total.MaxSteps,
			"max_tasks_per_run":   total.MaxTasks,
			"faults_fired": map[string]any{
				"context_switch_forced":  total.Switches,
				"task_stall_virtual":     total.Stalls,
				"clock_jump_idle":        total.Idles,
				"statement_level_switch": total.RacySwitches,
			},
			"probes":               total.Probes,
			"fault_kinds":          m.FaultKinds,
			"real_components":      m.Real,
			"stub_components":      m.Stub,
			"worker_processes":     procs,
			"workers":              *workers,
			"build_s":              buildS,
			"instrumented":         fmt.Sprintf("packages=%d files=%d %s", b.stats.Packages, b.stats.Files, b.stats.SortedSites()),
			"seam_files_added":     b.stats.Added,
			"seam_patches_applied": b.stats.Patched,
			"known_findings_hit":   total.Known,
			"exhaustive":           false,
			"determinism_selftest": selfNote,
			"state_measure":        "distinct event-log hashes (every scheduling decision, spawn, stall and harness event) among non-trivial runs",
		},
	}
	if total.Runs == 0 {
		fmt.Fprintf(os.Stderr, "ENGINE: no runs executed\n")
		exit(2)
	}
	// a --patch run (mutant / seeded change, development aid) explores a tree that is not /repo's:
	// it must not overwrite the evidence of the registered check
	evDir := filepath.Join(verifDir, "evidence")
	if *patch != "" {
		evDir = filepath.Join(verifDir, "replays", "patched-evidence")
	}
	os.MkdirAll(evDir, 0o755)
	eb, _ := json.MarshalIndent(ev, "", " ")
	if err := os.WriteFile(filepath.Join(evDir, id+".json"), eb, 0o644); err != nil {
		die(2, "write evidence: %v", err)
	}
	for _, f := range kf.Findings {
		if f.Property == id && f.Status == "open" {
			n := total.Known[f.Class]
			ex := ""
			if r, ok := total.KnownFirst[f.Class]; ok {
				ex = fmt.Sprintf(" e.g. run seed %d: %s", r.Seed, r.Msg)
			}
			fmt.Printf("KNOWN-FINDING: property=%s %s [class %s, hit in %d runs of this check%s]\n", id, f.What, f.Class, n, ex)
		}
	}
	fmt.Printf("check %s tier=%s seed=%d: %d runs (%d non-trivial, %d distinct), %d scheduling points, %.0f s simulated, %d switches, %d stalls, wall %.1fs\n",
		id, *tier, seed, total.Runs, total.Nontrivial, len(hashes), total.Steps, total.VirtualS, total.Switches, total.Stalls, wall)
	if violations > 0 {
		fmt.Printf("VIOLATION property=%s replay=%s\n", id, replayPath)
		exit(1)
	}
	exit(0)
}

func recordViolation(b *built, id, tier string, baseSeed uint64, f simharness.FailRec, noShrink bool) string {
	os.MkdirAll(filepath.Join(verifDir, "replays"), 0o755)
	raw := &simharness.ReplayFile{Property: id, Tier: tier, Seed: f.Seed, Class: f.Class, Msg: f.Msg, Hash: f.Hash, Tape: f.Tape, OrigLen: len(f.Tape)}
	rawPath := filepath.Join(b.scratch, "raw.json")
	rb, _ := json.Marshal(raw)
	os.WriteFile(rawPath, rb, 0o644)
	// 1. must reproduce in a fresh process
	res := replayOnce(b, tier, rawPath)
	final := filepath.Join(verifDir, "replays", fmt.Sprintf("%s-%d.json", id, f.Seed))
	if res == nil || res["class"] != f.Class {
		// The run alone does not fail: does it fail after the runs its worker process had executed
		// before it?  Then the verdict depends on state the code under test keeps in process
		// globals (the unchanged tree has none that matters, a changed go-zero may add some); the
		// replay file then carries those predecessor runs and is not shrunk.
		if f.Index > f.Start {
			raw.Pred = &simharness.PredRuns{BaseSeed: baseSeed, Slot: f.Slot, Start: f.Start, Count: f.Index - f.Start}
			rb, _ = json.Marshal(raw)
			os.WriteFile(rawPath, rb, 0o644)
			if res2 := replayOnce(b, tier, rawPath); res2 != nil && res2["class"] == f.Class && res2["hash"] == f.Hash {
				os.WriteFile(final, rb, 0o644)
				fmt.Printf("violation class=%s run-seed=%d: %s\n", f.Class, f.Seed, f.Msg)
				fmt.Printf("the violation does not reproduce in a fresh process but does after the %d runs its worker process had executed before it: it depends on process-global state of the code under test; the replay file carries those runs (not minimised)\n", f.Index-f.Start)
				return final
			}
		}
		fmt.Fprintf(os.Stderr, "ENGINE: violation (class %s: %s) found at run seed %d does not reproduce in a fresh process (nor after its %d predecessor runs): %v\n", f.Class, f.Msg, f.Seed, f.Index-f.Start, res)
		os.Exit(2)
	}
	fmt.Printf("violation class=%s run-seed=%d: %s\n", f.Class, f.Seed, f.Msg)
	if !noShrink {
		shr := filepath.Join(b.scratch, "shrunk.json")
		bud := "60000"
		if tier == "thorough" {
			bud = "180000"
		}
		txt, err := b.run([]string{"VERIF_MODE=shrink", "VERIF_TIER=" + tier, "VERIF_REPLAY=" + rawPath, "VERIF_OUT=" + shr, "VERIF_BUDGET_MS=" + bud}, 10*time.Minute)
		if err == nil {
			if res2 := replayOnce(b, tier, shr); res2 != nil && res2["class"] == f.Class {
				sb, _ := os.ReadFile(shr)
				rf := &simharness.ReplayFile{}
				json.Unmarshal(sb, rf)
				if rf.Hash == res2["hash"] {
					os.WriteFile(final, sb, 0o644)
					fmt.Printf("minimised: tape %d -> %d draws (%s); trace:\n", rf.OrigLen, len(rf.Tape), rf.Note)
					for _, l := range rf.Trace {
						fmt.Println("  " + l)
					}
					return final
				}
				fmt.Fprintf(os.Stderr, "ENGINE: shrunk replay hash differs between processes (%s vs %v)\n", rf.Hash, res2["hash"])
				os.Exit(2)
			}
		}
		fmt.Fprintf(os.Stderr, "shrink failed (%v): %s; keeping the unshrunk tape\n", err, tail(txt, 2000))
	}
	raw.Hash = fmt.Sprint(res["hash"])
	if tr, ok := res["trace"].([]any); ok {
		for _, l := range tr {
			raw.Trace = append(raw.Trace, fmt.Sprint(l))
		}
	}
	rb, _ = json.MarshalIndent(raw, "", " ")
	os.WriteFile(final, rb, 0o644)
	return final
}

func replayOnce(b *built, tier, path string) map[string]any {
	out := filepath.Join(b.scratch, fmt.Sprintf("replay-%d.json", time.Now().UnixNano()))
	txt, err := b.run([]string{"VERIF_MODE=replay", "VERIF_TIER=" + tier, "VERIF_REPLAY=" + path, "VERIF_OUT=" + out}, 5*time.Minute)
	rb, rerr := os.ReadFile(out)
	if rerr != nil {
		fmt.Fprintf(os.Stderr, "replay produced no result (%v): %s\n", err, tail(txt, 3000))
		return nil
	}
	res := map[string]any{}
	json.Unmarshal(rb, &res)
	return res
}

func doReplay(b *built, id, path string) int {
	rb, err := os.ReadFile(path)
	if err != nil {
		die(2, "replay: %v", err)
	}
	rf := &simharness.ReplayFile{}
	if err := json.Unmarshal(rb, rf); err != nil {
		die(2, "replay: %v", err)
	}
	res := replayOnce(b, rf.Tier, path)
	if res == nil {
		return 2
	}
	if tr, ok := res["trace"].([]any); ok {
		for _, l := range tr {
			fmt.Println(l)
		}
	}
	if e, _ := res["engine"].(string); e != "" {
		fmt.Fprintf(os.Stderr, "ENGINE: %s\n", e)
		return 2
	}
	cls, _ := res["class"].(string)
	if cls == "" {
		fmt.Printf("replay of %s: no violation (recorded class %s)\n", path, rf.Class)
		return 0
	}
	fmt.Printf("replay: class=%s msg=%v hash=%v (recorded class=%s hash=%s)\n", cls, res["msg"], res["hash"], rf.Class, rf.Hash)
	fmt.Printf("VIOLATION property=%s replay=%s\n", id, path)
	return 1
}

// doSelfTest: same seeds in many processes, at GOMAXPROCS 1/4/16, first in the
// process and after unrelated predecessor runs; all event-log hashes must agree.
func doSelfTest(b *built, id, tier string) (int, string) {
	nSeeds := 40
	var seeds []string
	for i := 0; i < nSeeds; i++ {
		seeds = append(seeds, strconv.FormatUint(uint64(1000003*i+17), 10))
	}
	type cfg struct {
		procs, pre int
		goid       bool
	}
	var cfgs []cfg
	for _, p := range []int{1, 4, 16} {
		for _, pre := range []int{0, 25} {
			for rep := 0; rep < 5; rep++ {
				cfgs = append(cfgs, cfg{p, pre, false})
			}
		}
	}
	cfgs = append(cfgs, cfg{4, 0, true}, cfg{16, 10, true})
	results := make([]string, len(cfgs))
	var wg sync.WaitGroup
	sem := make(chan struct{}, 8)
	for i, c := range cfgs {
		wg.Add(1)
		go func(i int, c cfg) {
			defer wg.Done()
			sem <- struct{}{}
			defer func() { <-sem }()
			out := filepath.Join(b.scratch, fmt.Sprintf("det-%d.txt", i))
			env := []string{"VERIF_MODE=det", "VERIF_TIER=" + tier, "VERIF_DETSEEDS=" + strings.Join(seeds, ","),
				fmt.Sprintf("VERIF_DETPRE=%d", c.pre), fmt.Sprintf("GOMAXPROCS=%d", c.procs), "VERIF_OUT=" + out}
			if c.goid {
				env = append(env, "VERIF_GOID=1")
			}
			txt, err := b.run(env, 10*time.Minute)
			rb, rerr := os.ReadFile(out)
			if rerr != nil {
				results[i] = fmt.Sprintf("ERROR %v %s", err, tail(txt, 2000))
				return
			}
			results[i] = string(rb)
		}(i, c)
	}
	wg.Wait()
	bad := 0
	for i := range results {
		if strings.Contains(results[i], "ENGINE") || strings.HasPrefix(results[i], "ERROR") {
			fmt.Printf("selftest %s: process %d (%+v) reported: %s\n", id, i, cfgs[i], tail(results[i], 1500))
			bad++
			continue
		}
		if results[i] != results[0] {
			bad++
			a, c := strings.Split(results[0], "\n"), strings.Split(results[i], "\n")
			for j := range a {
				if j < len(c) && a[j] != c[j] {
					fmt.Printf("selftest %s: DIVERGENCE process %d (%+v): %q vs %q\n", id, i, cfgs[i], a[j], c[j])
					break
				}
			}
		}
	}
	distinct := map[string]bool{}
	for _, l := range strings.Split(results[0], "\n") {
		if f := strings.Fields(l); len(f) >= 2 {
			distinct[f[1]] = true
		}
	}
	note := fmt.Sprintf("%d processes (GOMAXPROCS 1/4/16, fresh and after 25 predecessor runs) x %d seeds, %d distinct event-log hashes, %d divergent/erroneous processes", len(cfgs), nSeeds, len(distinct), bad)
	fmt.Printf("selftest %s: %s\n", id, note)
	if bad > 0 {
		return 2, note
	}
	return 0, note
}
