// Command instr runs the instrumenter (debugging aid; the driver calls the library).
package main

import (
	"flag"
	"fmt"
	"os"

	"verifsim/instrument"
)

func main() {
	out := flag.String("out", "", "scratch output dir")
	flag.Parse()
	env := append(os.Environ(), "GOFLAGS=-mod=mod", "GOPROXY=off", "GOSUMDB=off", "GOTOOLCHAIN=local")
	ov, st, err := instrument.Run(instrument.Options{RepoDir: "/repo", VerifDir: "/verif", OutDir: *out,
		Packages: flag.Args(), GoCmd: "go1.26.8", Env: env, SeamsDir: "/verif/seams", Patches: instrument.DefaultPatches})
	if err != nil {
		fmt.Fprintln(os.Stderr, "instrument:", err)
		os.Exit(2)
	}
	fmt.Println(ov)
	fmt.Printf("packages=%d files=%d %s\nadded=%v patched=%v\n", st.Packages, st.Files, st.SortedSites(), st.Added, st.Patched)
}
