// Package simrand replaces math/rand in instrumented go-zero packages: inside a
// simulation every value is a draw from the run's choice tape, outside it the
// real generator is used.
package simrand

import (
	"math/rand"

	"verifsim/simrt"
)

type Source = rand.Source

type simSource struct{ real rand.Source }

func (s *simSource) Int63() int64 {
	if sim := simrt.Current(); sim != nil {
		return int64(sim.Draw64(1 << 63))
	}
	return s.real.Int63()
}
func (s *simSource) Seed(seed int64) { s.real.Seed(seed) }

func NewSource(seed int64) Source { return &simSource{real: rand.NewSource(seed)} }

// Rand mirrors *rand.Rand.
type Rand struct{ r *rand.Rand }

func New(src Source) *Rand { return &Rand{r: rand.New(src)} }

var global = rand.New(rand.NewSource(1))

func draw(n uint64) (uint64, bool) {
	if sim := simrt.Current(); sim != nil {
		return sim.Draw64(n), true
	}
	return 0, false
}

func (r *Rand) Float64() float64 {
	if v, ok := draw(1 << 53); ok {
		return float64(v) / (1 << 53)
	}
	return r.r.Float64()
}
func (r *Rand) Float32() float32 { return float32(r.Float64()) }
func (r *Rand) Int63() int64 {
	if v, ok := draw(1 << 63); ok {
		return int64(v)
	}
	return r.r.Int63()
}
func (r *Rand) Int() int       { return int(uint(r.Int63())) }
func (r *Rand) Int31() int32   { return int32(r.Int63() >> 32) }
func (r *Rand) Uint32() uint32 { return uint32(r.Int63() >> 31) }
func (r *Rand) Uint64() uint64 { return uint64(r.Int63())>>31 | uint64(r.Int63())<<32 }
func (r *Rand) Int63n(n int64) int64 {
	if n <= 0 {
		panic("invalid argument to Int63n")
	}
	if v, ok := draw(uint64(n)); ok {
		return int64(v)
	}
	return r.r.Int63n(n)
}
func (r *Rand) Int31n(n int32) int32 { return int32(r.Int63n(int64(n))) }
func (r *Rand) Intn(n int) int {
	if n <= 0 {
		panic("invalid argument to Intn")
	}
	return int(r.Int63n(int64(n)))
}
func (r *Rand) Perm(n int) []int {
	m := make([]int, n)
	for i := 0; i < n; i++ {
		j := r.Intn(i + 1)
		m[i] = m[j]
		m[j] = i
	}
	return m
}
func (r *Rand) Shuffle(n int, swap func(i, j int)) {
	for i := n - 1; i > 0; i-- {
		j := r.Intn(i + 1)
		swap(i, j)
	}
}
func (r *Rand) Seed(seed int64) { r.r.Seed(seed) }
func (r *Rand) Read(p []byte) (int, error) {
	for i := range p {
		p[i] = byte(r.Intn(256))
	}
	return len(p), nil
}
func (r *Rand) NormFloat64() float64 { return r.r.NormFloat64() }
func (r *Rand) ExpFloat64() float64  { return r.r.ExpFloat64() }

var g = &Rand{r: global}

func Float64() float64                   { return g.Float64() }
func Float32() float32                   { return g.Float32() }
func Int63() int64                       { return g.Int63() }
func Int() int                           { return g.Int() }
func Int31() int32                       { return g.Int31() }
func Uint32() uint32                     { return g.Uint32() }
func Uint64() uint64                     { return g.Uint64() }
func Int63n(n int64) int64               { return g.Int63n(n) }
func Int31n(n int32) int32               { return g.Int31n(n) }
func Intn(n int) int                     { return g.Intn(n) }
func Perm(n int) []int                   { return g.Perm(n) }
func Shuffle(n int, swap func(i, j int)) { g.Shuffle(n, swap) }
func Seed(seed int64)                    {}
func Read(p []byte) (int, error)         { return g.Read(p) }
