#!/bin/sh
# usage: tools/try_patch.sh <patch.diff> <ID> [check args...]
# applies a patch to /repo, runs the check, always reverts.  Exit code of the check is returned.
p="$1"; id="$2"; shift 2
git -C /repo apply "$p" || { echo "patch does not apply"; exit 3; }
/verif/check "$id" "$@"; rc=$?
git -C /repo checkout -- . 
exit $rc
