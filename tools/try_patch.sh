#!/bin/sh
# usage: tools/try_patch.sh <patch.diff> <ID> [check args...]
# Runs the check against /repo + patch.  The patch is applied under an exclusive lock only while
# the harness is built and reverted right after, so concurrent checks never see it.
p="$1"; id="$2"; shift 2
exec /verif/check "$id" --patch "$p" "$@"
