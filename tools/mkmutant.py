#!/usr/bin/env python3
"""usage: mkmutant.py <out.diff> <repo-rel-file> <old> <new> [<old2> <new2> ...]
Writes a git-style patch replacing exactly one occurrence of each old string."""
import sys, subprocess, tempfile, os, shutil
out, rel = sys.argv[1], sys.argv[2]
pairs = sys.argv[3:]
src = open('/repo/' + rel).read()
new = src
for i in range(0, len(pairs), 2):
    o, n = pairs[i].encode().decode('unicode_escape'), pairs[i+1].encode().decode('unicode_escape')
    assert new.count(o) == 1, (o, new.count(o))
    new = new.replace(o, n)
d = tempfile.mkdtemp()
os.makedirs(os.path.join(d, 'a', os.path.dirname(rel)), exist_ok=True)
os.makedirs(os.path.join(d, 'b', os.path.dirname(rel)), exist_ok=True)
open(os.path.join(d, 'a', rel), 'w').write(src)
open(os.path.join(d, 'b', rel), 'w').write(new)
r = subprocess.run(['diff', '-u', 'a/' + rel, 'b/' + rel], cwd=d, capture_output=True, text=True)
open(out, 'w').write(r.stdout)
shutil.rmtree(d)
subprocess.check_call(['git', '-C', '/repo', 'apply', '--check', os.path.abspath(out)])
print('ok', out)
