#!/usr/bin/env python3
"""usage: seed_keep.py <src-dir> <CHECK-ID> <detected: yes|no|after-strengthening> <class-or-empty> [note]
Copies a confirmed seeded change into /verif/seeded/<name>/ and records what was run."""
import sys, os, json, shutil
src, cid, det, cls = sys.argv[1:5]
note = sys.argv[5] if len(sys.argv) > 5 else ""
name = os.path.basename(src.rstrip('/'))
dst = '/verif/seeded/' + name
os.makedirs(dst, exist_ok=True)
for f in os.listdir(src):
    shutil.copy(os.path.join(src, f), os.path.join(dst, f))
m = json.load(open(os.path.join(dst, 'meta.json')))
m['confirmed_by_coordinator'] = {
  "validation": "tools/seed_validate.sh in a scratch worktree of /repo HEAD: demo passes on the unchanged tree, change builds, demo fails with the change, existing suite (go test ./..., timing-flaky packages re-run serially) passes with the change",
  "check": f"./check {cid} --patch seeded/{name}/patch.diff --budget 60s --workers 6",
  "detected": det, "violation_class": cls, "note": note}
json.dump(m, open(os.path.join(dst, 'meta.json'), 'w'), indent=1)
print('kept', dst)
