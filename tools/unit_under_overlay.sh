#!/bin/sh
# Runs go-zero's own unit tests of the instrumented packages under the overlay with no
# simulation active: the shims must then behave like package sync / math/rand.
# usage: tools/unit_under_overlay.sh [pkg ...]   (default: the packages in the allow-list that have tests)
cd /verif || exit 2
export GOFLAGS=-mod=mod GOPROXY=off GOSUMDB=off GOTOOLCHAIN=local
sc=$(mktemp -d /tmp/verif-unit-XXXX)
trap 'rm -rf "$sc"' EXIT
go1.26.8 build -o "$sc/instr" ./cmd/instr || exit 2
"$sc/instr" -out "$sc" ./harness/zzall >/dev/null || exit 2
pk="$@"
[ -z "$pk" ] && pk="core/syncx core/collection core/threading core/mr core/fx core/executors core/breaker core/load core/timex core/mathx core/rescue core/errorx core/stringx core/hash"
for p in $pk; do
  go1.26.8 test -tags verif -vet=off -count=1 -overlay "$sc/overlay.json" github.com/zeromicro/go-zero/$p 2>&1 | tail -3
done
