#!/bin/bash
# usage: tools/seed_validate.sh <seeded-dir>   (dir holds patch.diff, meta.json with demo_path + demo_cmd, and the demo file(s))
# Confirms in a scratch worktree of /repo: demo passes without the change, change builds, demo fails with it,
# the existing test suite still passes with it.  Prints a summary line; removes the worktree.
set -u
D=$(realpath "$1"); N=$(basename "$D")
export GOFLAGS=-mod=mod GOPROXY=off GOSUMDB=off
W=/tmp/seedval-$N
git -C /repo worktree remove --force "$W" >/dev/null 2>&1; rm -rf "$W"
git -C /repo worktree add -q --detach "$W" HEAD || exit 2
trap 'git -C /repo worktree remove --force "$W" >/dev/null 2>&1; rm -rf "$W"' EXIT
demo_path=$(python3 -c "import json;print(json.load(open('$D/meta.json'))['demo_path'])")
demo_cmd=$(python3 -c "import json;print(json.load(open('$D/meta.json'))['demo_cmd'])")
# copy demo files: a single .go file goes to demo_path; several keep their own names in dirname(demo_path)
mkdir -p "$W/$(dirname "$demo_path")"
ngo=$(ls "$D"/*.go 2>/dev/null | wc -l)
DEMOS=()
if [ "$ngo" -eq 1 ]; then
  cp "$D"/*.go "$W/$demo_path"; DEMOS+=("$W/$demo_path")
else
  for f in "$D"/*.go; do cp "$f" "$W/$(dirname "$demo_path")/"; DEMOS+=("$W/$(dirname "$demo_path")/$(basename "$f")"); done
fi
cd "$W" || exit 2
demo_cmd=${demo_cmd//<worktree>/$W}
# the demo file is already in place: keep only the `go test …` part of the recorded command
demo_cmd=$(echo "$demo_cmd" | grep -o 'go test.*' | sed -E 's/&&.*$//' | head -1)
demo_cmd=$(echo "$demo_cmd" | sed -E "s#/tmp/seed/C[0-9]+#$W#g")
[ -z "$demo_cmd" ] && { echo "RESULT $N no-demo-command"; exit 1; }
echo "== demo without change: $demo_cmd"
if (eval "$demo_cmd") > /tmp/seedval-$N.clean.log 2>&1; then clean=pass; else clean=FAIL; fi
echo "== apply patch"
git apply "$D/patch.diff" || { echo "RESULT $N patch-does-not-apply"; exit 1; }
if go build ./... > /tmp/seedval-$N.build.log 2>&1; then build=ok; else build=FAIL; fi
echo "== demo with change"
if (eval "$demo_cmd") > /tmp/seedval-$N.mut.log 2>&1; then mut=pass; else mut=fail; fi
echo "== existing suite with change (demo files removed)"
for f in "${DEMOS[@]}"; do rm -f "$f"; done
go test -vet=off -count=1 -timeout 25m ./... > /tmp/seedval-$N.suite.log 2>&1
# timing-sensitive tests are flaky on a loaded machine: re-run failing packages (up to 3 times, one at a time)
pk=$(grep -E "^FAIL\s+github.com" /tmp/seedval-$N.suite.log | awk '{print $2}' | grep -v "core/logx$" | sort -u)
fails=""
for p in $pk; do
  ok=0
  for i in 1 2 3; do
    if go test -vet=off -count=1 -p 1 "$p" > /tmp/seedval-$N.retry.log 2>&1; then ok=1; break; fi
  done
  [ $ok -eq 0 ] && fails="$fails$p: $(grep -E '^--- FAIL' /tmp/seedval-$N.retry.log | head -3 | tr '\n' ' ');"
done
echo "RESULT $N clean_demo=$clean build=$build mutated_demo=$mut suite_failures=[${fails}]"
