#!/bin/bash
# usage: tools/seed_try.sh <seeded-dir> <CHECK-ID> [budget]   -- validate the change, then run the check against it; prints 2 lines
D=$1; ID=$2; BUD=${3:-60s}
/verif/tools/seed_validate.sh "$D" 2>&1 | grep "^RESULT"
out=$(/verif/check $ID --patch "$D/patch.diff" --budget $BUD --workers 6 2>&1); rc=$?
echo "CHECK $(basename $D) $ID rc=$rc $(printf '%s\n' "$out" | grep -o 'violation class=[^:]*' | head -1) $(printf '%s\n' "$out" | grep -o 'replay=.*' | head -1) $(printf '%s\n' "$out" | grep '^check ' | grep -o 'wall [0-9.]*s')"
[ $rc -eq 2 ] && printf '%s\n' "$out" | grep -v "^  " | head -5 | cut -c1-400
