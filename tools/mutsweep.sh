#!/bin/sh
# usage: tools/mutsweep.sh <ID> [budget] [workers]  -- runs every mutants/<ID>/*.diff and seeded/<ID>*/patch.diff through the check
# prints one line per mutant: name, exit code (1 = detected), seconds, violation class
ID=$1; BUD=${2:-60s}; W=${3:-8}
cd /verif || exit 2
for d in mutants/$ID/*.diff seeded/$ID*/patch.diff; do
  [ -f "$d" ] || continue
  t0=$(date +%s)
  out=$(./check $ID --patch $d --budget $BUD --workers $W --noshrink 2>&1); rc=$?
  t1=$(date +%s)
  cls=$(printf '%s\n' "$out" | grep -o 'violation class=[^ ]*' | head -1)
  [ $rc -eq 2 ] && cls="ENGINE: $(printf '%s\n' "$out" | grep -v '^  ' | head -3 | cut -c1-300 | tr '\n' ' ')"
  [ $rc -eq 3 ] && cls="PATCH DOES NOT APPLY"
  echo "$d rc=$rc $((t1-t0))s $cls"
done
