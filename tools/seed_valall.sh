#!/bin/bash
# usage: tools/seed_valall.sh <name>:<CHECK-ID> ...   (names are directories under /tmp/seeded_out)
# Validates the given seeded changes three at a time (each in its own scratch worktree), then runs
# the checks against them one after the other (the --patch step needs /repo exclusively).
# Output: /tmp/seed/val.log (RESULT lines) and /tmp/seed/chk.log (CHECK lines).
mkdir -p /tmp/seed
for x in "$@"; do echo "${x%%:*}"; done | xargs -P 3 -I{} sh -c '/verif/tools/seed_validate.sh /tmp/seeded_out/{} 2>&1 | grep "^RESULT" >> /tmp/seed/val.log'
for x in "$@"; do
  n=${x%%:*}; id=${x##*:}
  out=$(/verif/check $id --patch /tmp/seeded_out/$n/patch.diff --budget 60s --workers 6 2>&1); rc=$?
  echo "CHECK $n $id rc=$rc $(printf '%s\n' "$out" | grep -o 'violation class=[^:]*' | head -1) $(printf '%s\n' "$out" | grep '^check ' | grep -o '[0-9]* runs' | head -1) $(printf '%s\n' "$out" | grep '^check ' | grep -o 'wall [0-9.]*s')" >> /tmp/seed/chk.log
  [ $rc -eq 2 ] && printf '%s\n' "$out" | grep -v "^  " | head -5 | cut -c1-400 >> /tmp/seed/chk.log
done
echo ALLDONE >> /tmp/seed/chk.log
