#!/usr/bin/env python3
"""usage: manifest_add.py <ID> <category> <text> <note> [technique]"""
import json, sys
id, cat, text, note = sys.argv[1:5]
tech = sys.argv[5] if len(sys.argv) > 5 else "deterministic simulation: seeded schedule/fault search over the real code with a history oracle; tape shrinking and replay"
m = json.load(open('/verif/MANIFEST.json'))
m['checks'] = [c for c in m['checks'] if c['property_id'] != id]
m['checks'].append({"property_id": id, "quick_cmd": f"./check {id} --tier quick", "thorough_cmd": f"./check {id} --tier thorough",
  "evidence_file": f"/verif/evidence/{id}.json", "replay_cmd_template": f"./check {id} --replay {{path}}", "engine": "simgo",
  "level_claimed": {"category": cat, "text": text, "design_ref": f"DESIGN.md 5 ({id}), 3"}, "level_note": note, "technique": tech})
m['checks'].sort(key=lambda c: c['property_id'])
m['not_applicable'] = [x for x in m['not_applicable'] if x['property_id'] != id]
for e in m['engines']:
    if id not in e['serves_properties']:
        e['serves_properties'].append(id); e['serves_properties'].sort()
json.dump(m, open('/verif/MANIFEST.json', 'w'), indent=1)
