// Package simsync is a drop-in replacement for package sync used by the
// instrumented go-zero packages.  Every primitive is built from a small real
// mutex (held only for a few instructions, never across a scheduling point) and
// per-waiter channels, so that a simulated task may be parked while it holds a
// lock and blocked tasks are durably blocked for testing/synctest.  Outside a
// simulation the primitives behave like the ones of package sync.
package simsync

import (
	"fmt"
	"sort"
	"sync"
	"sync/atomic"

	"verifsim/simrt"
)

type Locker = sync.Locker

// Pool is a simulated sync.Pool.  The real one keeps per-P caches and is emptied by the garbage
// collector, so which Get reuses which Put depends on the runtime - a run would not replay.
// Inside a simulation the pooled items live in a plain list that belongs to the current run
// (items left by an earlier run are forgotten, as after a GC) and the tape decides whether a Get
// reuses an item, which one, or finds the pool empty (sync.Pool may drop anything at any time,
// so all of these are legal); draw value 0 is "reuse the most recently put item".  Outside a
// simulation it is the real pool.
type Pool struct {
	New func() any

	real  sync.Pool
	mu    sync.Mutex
	owner *simrt.Sim
	items []any
}

func (p *Pool) Get() any {
	s := simrt.Current()
	if s == nil {
		if x := p.real.Get(); x != nil {
			return x
		}
		if p.New != nil {
			return p.New()
		}
		return nil
	}
	simrt.Pre("Pool.Get")
	p.mu.Lock()
	if p.owner != s {
		p.owner, p.items = s, nil
	}
	var x any
	if n := len(p.items); n > 0 {
		if d := s.DrawLocked(n + 1); d < n {
			i := n - 1 - d
			x = p.items[i]
			p.items = append(p.items[:i], p.items[i+1:]...)
		}
	}
	p.mu.Unlock()
	if x == nil && p.New != nil {
		x = p.New()
	}
	return x
}

func (p *Pool) Put(x any) {
	if x == nil {
		return
	}
	s := simrt.Current()
	if s == nil {
		p.real.Put(x)
		return
	}
	simrt.Pre("Pool.Put")
	p.mu.Lock()
	if p.owner != s {
		p.owner, p.items = s, nil
	}
	p.items = append(p.items, x)
	p.mu.Unlock()
}

// Mutex is a simulated sync.Mutex.
type Mutex struct {
	mu      sync.Mutex
	locked  bool
	waiters []chan struct{}
}

func (m *Mutex) Lock() {
	t := simrt.Pre("Mutex.Lock")
	for {
		m.mu.Lock()
		if !m.locked {
			m.locked = true
			m.mu.Unlock()
			return
		}
		ch := make(chan struct{})
		m.waiters = append(m.waiters, ch)
		m.mu.Unlock()
		<-ch
		simrt.Post(t)
	}
}

func (m *Mutex) TryLock() bool {
	simrt.Pre("Mutex.TryLock")
	m.mu.Lock()
	defer m.mu.Unlock()
	if m.locked {
		return false
	}
	m.locked = true
	return true
}

func (m *Mutex) Unlock() {
	m.mu.Lock()
	if !m.locked {
		m.mu.Unlock()
		panic("sync: unlock of unlocked mutex")
	}
	m.locked = false
	ws := m.waiters
	m.waiters = nil
	m.mu.Unlock()
	for _, ch := range ws {
		close(ch)
	}
}

// RWMutex is a simulated sync.RWMutex (writers are not preferred; any order the
// scheduler picks is a legal one for the real primitive).
type RWMutex struct {
	mu      sync.Mutex
	writer  bool
	readers int
	waiters []chan struct{}
}

func (m *RWMutex) wakeAll() {
	ws := m.waiters
	m.waiters = nil
	for _, ch := range ws {
		close(ch)
	}
}

func (m *RWMutex) Lock() {
	t := simrt.Pre("RWMutex.Lock")
	for {
		m.mu.Lock()
		if !m.writer && m.readers == 0 {
			m.writer = true
			m.mu.Unlock()
			return
		}
		ch := make(chan struct{})
		m.waiters = append(m.waiters, ch)
		m.mu.Unlock()
		<-ch
		simrt.Post(t)
	}
}

func (m *RWMutex) TryLock() bool {
	simrt.Pre("RWMutex.TryLock")
	m.mu.Lock()
	defer m.mu.Unlock()
	if m.writer || m.readers > 0 {
		return false
	}
	m.writer = true
	return true
}

func (m *RWMutex) Unlock() {
	m.mu.Lock()
	if !m.writer {
		m.mu.Unlock()
		panic("sync: Unlock of unlocked RWMutex")
	}
	m.writer = false
	m.wakeAll()
	m.mu.Unlock()
}

func (m *RWMutex) RLock() {
	t := simrt.Pre("RWMutex.RLock")
	for {
		m.mu.Lock()
		if !m.writer {
			m.readers++
			m.mu.Unlock()
			return
		}
		ch := make(chan struct{})
		m.waiters = append(m.waiters, ch)
		m.mu.Unlock()
		<-ch
		simrt.Post(t)
	}
}

func (m *RWMutex) TryRLock() bool {
	simrt.Pre("RWMutex.TryRLock")
	m.mu.Lock()
	defer m.mu.Unlock()
	if m.writer {
		return false
	}
	m.readers++
	return true
}

func (m *RWMutex) RUnlock() {
	m.mu.Lock()
	if m.readers <= 0 {
		m.mu.Unlock()
		panic("sync: RUnlock of unlocked RWMutex")
	}
	m.readers--
	if m.readers == 0 {
		m.wakeAll()
	}
	m.mu.Unlock()
}

type rlocker RWMutex

func (r *rlocker) Lock()   { (*RWMutex)(r).RLock() }
func (r *rlocker) Unlock() { (*RWMutex)(r).RUnlock() }

func (m *RWMutex) RLocker() Locker { return (*rlocker)(m) }

// WaitGroup is a simulated sync.WaitGroup.
type WaitGroup struct {
	mu      sync.Mutex
	n       int
	waiters []chan struct{}
}

func (wg *WaitGroup) Add(delta int) {
	if delta < 0 {
		simrt.Pre("WaitGroup.Done")
	}
	wg.mu.Lock()
	wg.n += delta
	if wg.n < 0 {
		wg.mu.Unlock()
		panic("sync: negative WaitGroup counter")
	}
	var ws []chan struct{}
	if wg.n == 0 {
		ws = wg.waiters
		wg.waiters = nil
	}
	wg.mu.Unlock()
	for _, ch := range ws {
		close(ch)
	}
}

func (wg *WaitGroup) Done() { wg.Add(-1) }

func (wg *WaitGroup) Go(f func()) {
	wg.Add(1)
	simrt.Go("WaitGroup.Go", func() {
		defer wg.Done()
		f()
	})
}

func (wg *WaitGroup) Wait() {
	t := simrt.Pre("WaitGroup.Wait")
	wg.mu.Lock()
	if wg.n == 0 {
		wg.mu.Unlock()
		return
	}
	ch := make(chan struct{})
	wg.waiters = append(wg.waiters, ch)
	wg.mu.Unlock()
	<-ch
	simrt.Post(t)
}

// Once is a simulated sync.Once.
type Once struct {
	m    Mutex
	done atomic.Bool
}

func (o *Once) Do(f func()) {
	if o.done.Load() {
		return
	}
	o.m.Lock()
	defer o.m.Unlock()
	if !o.done.Load() {
		defer o.done.Store(true)
		f()
	}
}

func OnceFunc(f func()) func() {
	var o Once
	return func() { o.Do(f) }
}

func OnceValue[T any](f func() T) func() T {
	var o Once
	var v T
	return func() T {
		o.Do(func() { v = f() })
		return v
	}
}

func OnceValues[T1, T2 any](f func() (T1, T2)) func() (T1, T2) {
	var o Once
	var v1 T1
	var v2 T2
	return func() (T1, T2) {
		o.Do(func() { v1, v2 = f() })
		return v1, v2
	}
}

// Cond is a simulated sync.Cond.
type Cond struct {
	L       Locker
	mu      sync.Mutex
	waiters []chan struct{}
}

func NewCond(l Locker) *Cond { return &Cond{L: l} }

func (c *Cond) Wait() {
	t := simrt.Pre("Cond.Wait")
	ch := make(chan struct{})
	c.mu.Lock()
	c.waiters = append(c.waiters, ch)
	c.mu.Unlock()
	c.L.Unlock()
	<-ch
	simrt.Post(t)
	c.L.Lock()
}

func (c *Cond) Signal() {
	simrt.Pre("Cond.Signal")
	c.mu.Lock()
	var ch chan struct{}
	if len(c.waiters) > 0 {
		// any waiter may be the one woken; the scheduler's tape picks
		i := 0
		if s := simrt.Current(); s != nil && len(c.waiters) > 1 {
			i = s.DrawLocked(len(c.waiters))
		}
		ch = c.waiters[i]
		c.waiters = append(c.waiters[:i], c.waiters[i+1:]...)
	}
	c.mu.Unlock()
	if ch != nil {
		close(ch)
	}
}

func (c *Cond) Broadcast() {
	simrt.Pre("Cond.Broadcast")
	c.mu.Lock()
	ws := c.waiters
	c.waiters = nil
	c.mu.Unlock()
	for _, ch := range ws {
		close(ch)
	}
}

// Map is a simulated sync.Map: a plain map behind a simulated mutex, with a
// deterministic Range order.
type Map struct {
	mu Mutex
	m  map[any]any
}

func (m *Map) Load(key any) (value any, ok bool) {
	m.mu.Lock()
	defer m.mu.Unlock()
	value, ok = m.m[key]
	return
}

func (m *Map) Store(key, value any) {
	m.mu.Lock()
	defer m.mu.Unlock()
	if m.m == nil {
		m.m = map[any]any{}
	}
	m.m[key] = value
}

func (m *Map) LoadOrStore(key, value any) (actual any, loaded bool) {
	m.mu.Lock()
	defer m.mu.Unlock()
	if v, ok := m.m[key]; ok {
		return v, true
	}
	if m.m == nil {
		m.m = map[any]any{}
	}
	m.m[key] = value
	return value, false
}

func (m *Map) LoadAndDelete(key any) (value any, loaded bool) {
	m.mu.Lock()
	defer m.mu.Unlock()
	value, loaded = m.m[key]
	delete(m.m, key)
	return
}

func (m *Map) Delete(key any) { m.LoadAndDelete(key) }

func (m *Map) Swap(key, value any) (previous any, loaded bool) {
	m.mu.Lock()
	defer m.mu.Unlock()
	previous, loaded = m.m[key]
	if m.m == nil {
		m.m = map[any]any{}
	}
	m.m[key] = value
	return
}

func (m *Map) CompareAndSwap(key, old, new any) bool {
	m.mu.Lock()
	defer m.mu.Unlock()
	if v, ok := m.m[key]; ok && v == old {
		m.m[key] = new
		return true
	}
	return false
}

func (m *Map) CompareAndDelete(key, old any) bool {
	m.mu.Lock()
	defer m.mu.Unlock()
	if v, ok := m.m[key]; ok && v == old {
		delete(m.m, key)
		return true
	}
	return false
}

func (m *Map) Clear() {
	m.mu.Lock()
	defer m.mu.Unlock()
	m.m = nil
}

func (m *Map) Range(f func(key, value any) bool) {
	m.mu.Lock()
	type kv struct {
		k, v any
		s    string
	}
	kvs := make([]kv, 0, len(m.m))
	for k, v := range m.m {
		kvs = append(kvs, kv{k, v, fmt.Sprintf("%T:%v", k, k)})
	}
	m.mu.Unlock()
	sort.Slice(kvs, func(i, j int) bool { return kvs[i].s < kvs[j].s })
	for _, e := range kvs {
		if !f(e.k, e.v) {
			return
		}
	}
}
