package simrt

import (
	"reflect"
	"sync"
	"sync/atomic"
	"time"
)

// Generic wrappers used by the instrumenter for channel operations.

// Foreign channels.  A channel made by instrumented code while no simulation runs (a package-level
// variable initialised at program start, e.g. the slot channel of a package-level TaskRunner) belongs
// to no synctest bubble: a task blocked on it is not "durably blocked", synctest.Wait would never
// return and the run would hang in real time.  The instrumenter routes every `make(chan ...)` through
// MadeChan, which remembers the channels made outside a simulation; operations that would block on
// such a channel poll it in virtual time instead (1 ms, doubling up to 1 min), so that a task stuck on
// it shows up as late / stuck in virtual time like any other blocked task.
var (
	foreignChans sync.Map // channel pointer (uintptr) -> the channel (kept alive)
	nForeign     atomic.Int64
)

// MadeChan is the identity; it registers channels made outside a simulation.
func MadeChan[C any](c C) C {
	// Only goroutines that never were tasks of a simulation count (package initialisers, the test's own
	// goroutines): a leftover task of an ended run is not "outside".  The registry keeps the channel itself,
	// so its address can never be reused by a channel made later inside a run (a first version kept the bare
	// address: after a collection a bubble channel could land on it and was polled instead of blocked on -
	// which is where a `stuck` verdict that did not reproduce came from).
	if curTask() == nil {
		v := reflect.ValueOf(c)
		if v.Kind() == reflect.Chan && !v.IsNil() {
			if _, loaded := foreignChans.LoadOrStore(v.Pointer(), any(c)); !loaded {
				nForeign.Add(1)
			}
		}
	}
	return c
}

func isForeign(c any) bool {
	if nForeign.Load() == 0 {
		return false
	}
	v := reflect.ValueOf(c)
	if v.Kind() != reflect.Chan || v.IsNil() {
		return false
	}
	_, ok := foreignChans.Load(v.Pointer())
	return ok
}

// pollPause is the virtual-time pause between two attempts on a foreign channel.
func pollPause(d *time.Duration) {
	if *d == 0 {
		*d = time.Millisecond
	}
	Sleep(*d)
	if *d < time.Minute {
		*d *= 2
	}
}

// Recv is `<-c`.
func Recv[C ~chan T | ~<-chan T, T any](site string, c C) T {
	v, _ := Recv2(site, c)
	return v
}

// Recv2 is `v, ok := <-c`.
func Recv2[C ~chan T | ~<-chan T, T any](site string, c C) (T, bool) {
	t := Pre(site)
	if t != nil && isForeign(c) {
		var d time.Duration
		for {
			select {
			case v, ok := <-c:
				Post(t)
				return v, ok
			default:
			}
			Post(t)
			pollPause(&d)
			t = Pre(site)
		}
	}
	v, ok := <-c
	Post(t)
	return v, ok
}

// Send is `c <- v`.
func Send[C ~chan T | ~chan<- T, T any](site string, c C, v T) {
	Ch(c).Send(site, v)
}

// Sender is the typed handle used for instrumented send statements: the element
// type is inferred from the channel alone, so the value keeps its assignability
// (e.g. a []any sent on a chan any).
type Sender[T any] struct{ c chan<- T }

// Ch wraps a channel for an instrumented send.
func Ch[C ~chan T | ~chan<- T, T any](c C) Sender[T] { return Sender[T]{c: (chan<- T)(c)} }

// Send is `c <- v`.
func (s Sender[T]) Send(site string, v T) {
	t := Pre(site)
	if t != nil && isForeign(s.c) {
		var d time.Duration
		for {
			sent := func() bool {
				defer Post(t)
				select {
				case s.c <- v:
					return true
				default:
					return false
				}
			}()
			if sent {
				return
			}
			pollPause(&d)
			t = Pre(site)
		}
	}
	defer Post(t) // also when the send panics (channel closed meanwhile): park before unwinding further
	s.c <- v
}

// Close is `close(c)`.
func Close[C ~chan T | ~chan<- T, T any](site string, c C) {
	Pre(site)
	close(c)
}

// Sel drives one execution of an instrumented select statement.
type Sel struct {
	t       *Task
	site    string
	tries   []func() bool
	masks   []func()
	sim     *Sim
	foreign bool // a case uses a channel made outside the simulation
	deflt   bool // the select has a default clause
}

// HasDefault tells the driver that the select statement has a default clause.
func (s *Sel) HasDefault() {
	if s != nil {
		s.deflt = true
	}
}

// NewSel starts an instrumented select.
func NewSel(site string) *Sel {
	s := active()
	if s == nil {
		return nil
	}
	return &Sel{site: site, sim: s}
}

// SelRecv registers a receive case; the returned pointer holds the channel the
// real select must use.
func SelRecv[C ~chan T | ~<-chan T, T any](s *Sel, c C) *C {
	h := new(C)
	*h = c
	if s == nil {
		return h
	}
	s.foreign = s.foreign || isForeign(c)
	s.tries = append(s.tries, func() bool {
		select {
		case v, ok := <-c:
			sub := make(chan T, 1)
			if ok {
				sub <- v
			} else {
				close(sub)
			}
			*h = C(sub)
			return true
		default:
			return false
		}
	})
	s.masks = append(s.masks, func() {
		var zero C
		*h = zero
	})
	return h
}

// SendCase is a registered send case of an instrumented select.
type SendCase[C ~chan T | ~chan<- T, T any] struct {
	C C // the channel the real select must use
	v T
}

// Val records (and returns) the value to send.
func (sc *SendCase[C, T]) Val(v T) T {
	sc.v = v
	return v
}

// SelSend registers a send case.
func SelSend[C ~chan T | ~chan<- T, T any](s *Sel, c C) *SendCase[C, T] {
	sc := &SendCase[C, T]{C: c}
	if s == nil {
		return sc
	}
	s.foreign = s.foreign || isForeign(c)
	s.tries = append(s.tries, func() (fired bool) {
		select {
		case c <- sc.v:
			sub := make(chan T, 1)
			sc.C = C(sub)
			return true
		default:
			return false
		}
	})
	s.masks = append(s.masks, func() {
		var zero C
		sc.C = zero
	})
	return sc
}

// Poll is the scheduling point of the select: it then tries the cases in a
// tape-drawn order; if one can proceed it is performed here and the real select
// that follows is left with exactly that case ready (all others masked).
func (s *Sel) Poll() {
	if s == nil {
		return
	}
	s.t = s.sim.pre(s.site)
	if s.t == nil {
		return
	}
	n := len(s.tries)
	if n == 0 {
		return
	}
	// which cases are ready cannot be known without trying them; try in tape order
	var order []int
	if n == 1 {
		order = []int{0}
	} else {
		s.sim.mu.Lock()
		order = s.sim.Tape.Perm(n)
		s.sim.mu.Unlock()
	}
	var d time.Duration
	for {
		for _, i := range order {
			if s.tries[i]() {
				for j := range s.masks {
					if j != i {
						s.masks[j]()
					}
				}
				return
			}
		}
		if !s.foreign || s.deflt {
			return // the real select blocks (all its channels belong to the bubble) or takes its default
		}
		// a case waits on a foreign channel: the real select must not block on it
		Post(s.t)
		pollPause(&d)
		s.t = s.sim.pre(s.site)
		if s.t == nil {
			return
		}
	}
}

// Post is placed at the start of every communication clause body.
func (s *Sel) Post() {
	if s == nil {
		return
	}
	Post(s.t)
}
