package simrt

import (
	"context"
	"fmt"
	"os"
	"runtime"
	"sort"
	"strconv"
	"strings"
	"sync"
	"sync/atomic"
	"testing/synctest"
	"time"
	"unsafe"
)

//go:linkname runtime_getProfLabel runtime/pprof.runtime_getProfLabel
func runtime_getProfLabel() unsafe.Pointer

//go:linkname runtime_setProfLabel runtime/pprof.runtime_setProfLabel
func runtime_setProfLabel(labels unsafe.Pointer)

type tstate int32

const (
	stRunnable  tstate = iota // parked on resume, may be picked by the scheduler
	stRunning                 // the one task allowed to run
	stBlocked                 // observed durably blocked inside a real primitive
	stDone                    // function returned (or panicked)
	stWaitQuiet               // parked until no other task is runnable
	stTimer                   // AfterFunc task whose timer has not fired yet
)

func (s tstate) String() string {
	return [...]string{"runnable", "running", "blocked", "done", "waitquiet", "timer"}[s]
}

const taskMagic uint64 = 0x73696d676f74736b

// Task is one simulated goroutine.
type Task struct {
	magic    uint64 // first field: lets curTask recognise its own pointers
	sim      *Sim
	ID       int
	Name     string
	state    tstate
	resume   chan struct{}
	doneCh   chan struct{}
	site     string // last scheduling point reached
	Panicked bool
	PanicVal any
	PanicStk string
	goid     int64
	bg       bool // declared background: not reported as a leak
}

func (t *Task) Done() bool {
	t.sim.mu.Lock()
	defer t.sim.mu.Unlock()
	return t.state == stDone
}

// Config are the per-run knobs of the scheduler (normally drawn by the harness
// from the tape, swarm style).
type Config struct {
	SwitchPerMille int           // probability of a context switch at a scheduling point
	StallPerMille  int           // probability of a virtual-time stall at a scheduling point
	StallMax       time.Duration // upper bound for a stall
	MaxSteps       int           // scheduling points per run
	MaxVirtual     time.Duration // virtual time budget
	Trace          bool          // keep a textual trace (replay mode)
	// RacyMean > 0 enables statement-level scheduling points (simrt.Y, inserted by the
	// instrumenter when the harness asks for racy mode): a forced switch about every
	// RacyMean statements of instrumented code, so that check-then-act sequences that are
	// not protected by a lock can be split.
	RacyMean int
}

// Sim is one simulated execution.
type Sim struct {
	mu        sync.Mutex
	Tape      *Tape
	cfg       Config
	tasks     []*Task
	current   *Task
	last      *Task
	wake      chan struct{}
	ended     bool
	endedFlag atomic.Bool
	steps     int
	start     time.Time

	hash                              uint64
	trace                             []string
	nSwitch, nStall, nIdle, nMultiSel int
	nRacy, racyLeft                   int

	// outcome
	StepsExceeded bool
	Stuck         bool // nothing runnable, no timer left (or virtual budget exhausted) before main finished
	engineErr     string

	fail      *Failure
	Probes    map[string]int
	Samples   []any
	debugGoid bool
}

// Failure is a property violation found during a run.
type Failure struct {
	Class string
	Msg   string
}

var cur atomic.Pointer[Sim]

// inBubble reports whether the calling goroutine runs inside a synctest bubble:
// there the clock starts at 2000-01-01 and a run covers at most days.  Hooks
// reached by goroutines outside the bubble (package init goroutines on the real
// clock, the test binary's own machinery) must be pass-through.
func inBubble() bool { return time.Now().Year() < 2015 }

// curTask returns the task the calling goroutine is (nil for goroutines that
// are not simulated tasks: package init goroutines, helper goroutines of the
// standard library and third-party code, the test binary's own machinery).
// The identity is kept in the goroutine's profiler-label slot.
func curTask() *Task {
	p := runtime_getProfLabel()
	if p == nil {
		return nil
	}
	t := (*Task)(p)
	if t.magic != taskMagic {
		return nil
	}
	return t
}

func active() *Sim {
	t := curTask()
	if t == nil {
		return nil
	}
	s := t.sim
	if s.isEnded() || !inBubble() {
		return nil
	}
	return s
}

func (s *Sim) isEnded() bool { return s.endedFlag.Load() }

// Active reports whether the caller runs inside a simulation.
func Active() bool { return active() != nil }

// Current returns the simulation the caller runs in, or nil.
func Current() *Sim { return active() }

var debugGoidEnv = os.Getenv("VERIF_GOID") != ""

func goid() int64 {
	var buf [64]byte
	n := runtime.Stack(buf[:], false)
	// "goroutine 123 ["
	f := strings.Fields(string(buf[:n]))
	if len(f) < 2 {
		return -1
	}
	id, _ := strconv.ParseInt(f[1], 10, 64)
	return id
}

func (s *Sim) curID() int {
	if s.current == nil {
		return -1
	}
	return s.current.ID
}

func (s *Sim) ev(kind uint64, a, b uint64) {
	h := s.hash
	for _, x := range [3]uint64{kind, a, b} {
		h ^= x
		h *= 0x100000001b3
		h ^= h >> 29
	}
	s.hash = h
}

func hashStr(x string) uint64 {
	h := uint64(0xcbf29ce484222325)
	for i := 0; i < len(x); i++ {
		h ^= uint64(x[i])
		h *= 0x100000001b3
	}
	return h
}

func (s *Sim) tracef(format string, a ...any) {
	if s.cfg.Trace {
		s.trace = append(s.trace, fmt.Sprintf("[%6d %12s] ", s.steps, time.Since(s.start))+fmt.Sprintf(format, a...))
	}
}

// EngineError records a failure of the machinery itself (never a VIOLATION).
func (s *Sim) EngineError(format string, a ...any) {
	s.mu.Lock()
	if s.engineErr == "" {
		s.engineErr = fmt.Sprintf(format, a...)
	}
	s.mu.Unlock()
}

func (s *Sim) newTask(name string) *Task {
	t := &Task{magic: taskMagic, sim: s, ID: len(s.tasks), Name: name, state: stRunnable,
		resume: make(chan struct{}, 1), doneCh: make(chan struct{})}
	s.tasks = append(s.tasks, t)
	return t
}

func (s *Sim) spawn(name string, fn func()) *Task {
	s.mu.Lock()
	t := s.newTask(name)
	s.ev(1, uint64(t.ID), hashStr(name))
	s.tracef("spawn T%d %s", t.ID, name)
	s.mu.Unlock()
	go s.taskMain(t, fn)
	return t
}

func (s *Sim) taskMain(t *Task, fn func()) {
	runtime_setProfLabel(unsafe.Pointer(t))
	<-t.resume
	if s.debugGoid {
		t.goid = goid()
	}
	defer func() {
		r := recover()
		s.mu.Lock()
		if t.state == stBlocked && !s.ended {
			// the task panicked out of a blocking operation and reaches its end
			// without having passed a hook: wait for its turn before touching anything
			s.mu.Unlock()
			s.post(t)
			s.mu.Lock()
		}
		if r != nil {
			t.Panicked = true
			t.PanicVal = r
			buf := make([]byte, 8192)
			t.PanicStk = string(buf[:runtime.Stack(buf, false)])
			s.tracef("T%d uncaught panic: %v", t.ID, r)
		}
		t.state = stDone
		s.mu.Unlock()
		close(t.doneCh)
	}()
	fn()
}

func (s *Sim) checkCaller(t *Task, where string) {
	if s.debugGoid && t != nil && t.goid != 0 {
		if g := goid(); g != t.goid {
			s.engineErr = fmt.Sprintf("hook %s reached by goroutine %d while task T%d (goroutine %d) is current", where, g, t.ID, t.goid)
		}
	}
}

// Pre is a scheduling point placed before an operation that may block or whose
// order relative to other tasks matters.  It returns the calling task, which
// must be handed to Post after the operation.
func Pre(site string) *Task {
	s := active()
	if s == nil {
		return nil
	}
	return s.pre(site)
}

func (s *Sim) pre(site string) *Task {
	t := curTask()
	if t == nil || t.sim != s {
		return nil
	}
	s.mu.Lock()
	if s.ended {
		s.mu.Unlock()
		return nil
	}
	if t.state == stBlocked {
		// woken from a blocking operation without passing Post (it panicked out of
		// it, e.g. send on a channel closed meanwhile): take the missed parking now
		s.mu.Unlock()
		s.post(t)
		s.mu.Lock()
	}
	if t.state != stRunning || s.current != t {
		if s.engineErr == "" {
			s.engineErr = fmt.Sprintf("hook %s reached by task T%d in state %v while T%v is current", site, t.ID, t.state, s.curID())
		}
		s.mu.Unlock()
		return nil
	}
	s.checkCaller(t, site)
	s.steps++
	t.site = site
	if s.steps > s.cfg.MaxSteps {
		// park forever; the scheduler ends the run
		s.StepsExceeded = true
		t.state = stRunnable
		s.mu.Unlock()
		<-t.resume
		return t
	}
	v := int(s.Tape.Draw(1000))
	switch {
	case v == 0 || v >= s.cfg.SwitchPerMille+s.cfg.StallPerMille+1:
		// continue (0 is always "continue" so that an exhausted tape runs straight on)
		s.mu.Unlock()
		return t
	case v <= s.cfg.SwitchPerMille:
		s.nSwitch++
		t.state = stRunnable
		s.mu.Unlock()
		<-t.resume
		return t
	default:
		s.nStall++
		max := int64(s.cfg.StallMax)
		if max <= 0 {
			max = int64(time.Millisecond)
		}
		d := time.Duration(1 + int64(s.Tape.Draw(uint64(max))))
		s.ev(4, uint64(t.ID), uint64(d))
		s.tracef("T%d stalls %v at %s", t.ID, d, site)
		s.mu.Unlock()
		time.Sleep(d)
		s.post(t)
		return t
	}
}

// Post is called right after an operation that may have blocked.  A task that
// was observed blocked by the scheduler and has just been woken parks here
// until the scheduler picks it.
func Post(t *Task) {
	if t == nil {
		return
	}
	t.sim.post(t)
}

func (s *Sim) post(t *Task) {
	s.mu.Lock()
	if t.state == stRunning || s.ended {
		s.mu.Unlock()
		return
	}
	if t.state != stBlocked && t.state != stTimer {
		s.engineErr = fmt.Sprintf("post: task T%d in state %v at %s", t.ID, t.state, t.site)
		s.mu.Unlock()
		return
	}
	t.state = stRunnable
	s.mu.Unlock()
	select {
	case s.wake <- struct{}{}:
	default:
	}
	<-t.resume
}

// Yield is a plain scheduling point.
func Yield(site string) { Pre(site) }

var racyOn atomic.Bool

// Y is a statement-level scheduling point (racy mode).  It is a no-op unless the
// current run enabled racy mode; then about every RacyMean-th call forces a switch
// to another runnable task.
func Y(site string) {
	if !racyOn.Load() {
		return
	}
	t := curTask()
	if t == nil {
		return
	}
	s := t.sim
	if s.isEnded() || !inBubble() {
		return
	}
	s.mu.Lock()
	if s.ended || t.state != stRunning || s.current != t {
		s.mu.Unlock()
		return
	}
	s.racyLeft--
	if s.racyLeft > 0 {
		s.mu.Unlock()
		return
	}
	s.racyLeft = 1 + int(s.Tape.Draw(uint64(2*s.cfg.RacyMean)))
	s.steps++
	t.site = site
	if s.steps > s.cfg.MaxSteps {
		s.StepsExceeded = true
	}
	s.nSwitch++
	s.nRacy++
	s.ev(5, uint64(t.ID), hashStr(site))
	t.state = stRunnable
	s.mu.Unlock()
	<-t.resume
}

// Go starts fn as a new task (instrumented `go` statement).
func Go(site string, fn func()) {
	s := active()
	if s == nil {
		go fn()
		return
	}
	s.spawn(site, fn)
	s.pre(site)
}

// GoBg starts fn as a background task (one that may legitimately outlive the run); outside a
// simulation it is a plain go statement.
func GoBg(site string, fn func()) {
	s := active()
	if s == nil {
		go fn()
		return
	}
	t := s.spawn(site, fn)
	s.mu.Lock()
	t.bg = true
	s.mu.Unlock()
	s.pre(site)
}

// AfterFunc is the instrumented time.AfterFunc: f runs as a task.
func AfterFunc(d time.Duration, f func()) *time.Timer {
	s := active()
	if s == nil {
		return time.AfterFunc(d, f)
	}
	s.mu.Lock()
	t := s.newTask("AfterFunc")
	t.state = stTimer
	t.bg = true
	s.mu.Unlock()
	return time.AfterFunc(d, func() {
		runtime_setProfLabel(unsafe.Pointer(t))
		s.post(t) // becomes runnable, parks until scheduled
		s.mu.Lock()
		ended := s.ended
		s.mu.Unlock()
		if ended {
			return
		}
		if s.debugGoid {
			t.goid = goid()
		}
		defer func() {
			r := recover()
			s.mu.Lock()
			if r != nil {
				t.Panicked, t.PanicVal = true, r
			}
			t.state = stDone
			s.mu.Unlock()
			close(t.doneCh)
		}()
		f()
	})
}

// CtxAfterFunc is the instrumented context.AfterFunc: f runs as a (background) task once
// ctx is done, unless stop was called first.
func CtxAfterFunc(ctx context.Context, f func()) (stop func() bool) {
	s := active()
	if s == nil {
		return context.AfterFunc(ctx, f)
	}
	s.mu.Lock()
	t := s.newTask("CtxAfterFunc")
	t.state = stTimer
	t.bg = true
	s.mu.Unlock()
	return context.AfterFunc(ctx, func() {
		runtime_setProfLabel(unsafe.Pointer(t))
		s.post(t) // becomes runnable, parks until scheduled
		s.mu.Lock()
		ended := s.ended
		s.mu.Unlock()
		if ended {
			return
		}
		if s.debugGoid {
			t.goid = goid()
		}
		defer func() {
			r := recover()
			s.mu.Lock()
			if r != nil {
				t.Panicked, t.PanicVal = true, r
			}
			t.state = stDone
			s.mu.Unlock()
			close(t.doneCh)
		}()
		f()
	})
}

// Sleep is the instrumented time.Sleep.
func Sleep(d time.Duration) {
	t := Pre("time.Sleep")
	time.Sleep(d)
	Post(t)
}

// Gosched is the instrumented runtime.Gosched: a forced switch.
func Gosched() {
	s := active()
	if s == nil {
		runtime.Gosched()
		return
	}
	t := curTask()
	s.mu.Lock()
	if t == nil || s.ended || t.state != stRunning {
		s.mu.Unlock()
		runtime.Gosched()
		return
	}
	s.steps++
	t.site = "Gosched"
	if s.steps > s.cfg.MaxSteps {
		s.StepsExceeded = true
	}
	t.state = stRunnable
	s.mu.Unlock()
	<-t.resume
}

// runnableLocked returns the runnable tasks, last-run first, then by id.
func (s *Sim) runnableLocked() []*Task {
	var r []*Task
	for _, t := range s.tasks {
		if t.state == stRunnable {
			r = append(r, t)
		}
	}
	return r
}

// loop is the scheduler; it runs on the root goroutine of the bubble.
func (s *Sim) loop(main *Task) {
	drainSteps := 0
	for {
		synctest.Wait()
		s.mu.Lock()
		if c := s.current; c != nil && c.state == stRunning {
			c.state = stBlocked
			s.tracef("T%d blocked at %s", c.ID, c.site)
		}
		s.current = nil
		if s.engineErr != "" || s.StepsExceeded {
			s.mu.Unlock()
			return
		}
		mainDone := main.state == stDone
		run := s.runnableLocked()
		if mainDone {
			drainSteps++
			if len(run) == 0 || drainSteps > 2000 {
				s.mu.Unlock()
				return
			}
		}
		var pick *Task
		switch {
		case len(run) == 1:
			pick = run[0]
		case len(run) > 1:
			// a task that yielded voluntarily is not offered again unless it is alone
			cand := run
			if s.last != nil && s.last.state == stRunnable {
				cand = cand[:0:0]
				for _, t := range run {
					if t != s.last {
						cand = append(cand, t)
					}
				}
			}
			if len(cand) == 1 {
				pick = cand[0]
			} else {
				pick = cand[s.Tape.Draw(uint64(len(cand)))]
			}
		default:
			for _, t := range s.tasks {
				if t.state == stWaitQuiet {
					pick = t
					break
				}
			}
		}
		if pick == nil {
			// nothing can run: let virtual time advance
			select {
			case <-s.wake:
			default:
			}
			remain := s.cfg.MaxVirtual - time.Since(s.start)
			s.mu.Unlock()
			if remain <= 0 {
				s.Stuck = true
				return
			}
			s.nIdle++
			tm := time.NewTimer(remain)
			select {
			case <-s.wake:
				tm.Stop()
			case <-tm.C:
				s.Stuck = true
				return
			}
			continue
		}
		pick.state = stRunning
		s.current = pick
		s.last = pick
		s.ev(2, uint64(pick.ID), hashStr(pick.site))
		s.tracef("run T%d (%s) at %s", pick.ID, pick.Name, pick.site)
		s.mu.Unlock()
		pick.resume <- struct{}{}
	}
}

// Result is what a run leaves behind.
type Result struct {
	Failure       *Failure
	EngineErr     string
	Hash          uint64
	Steps         int
	Tasks         int
	Switches      int
	Stalls        int
	Idles         int
	RacySwitches  int
	Virtual       time.Duration
	Stuck         bool
	StepsExceeded bool
	Leftover      []string // tasks alive at the end (not declared background)
	Crashed       []string // tasks that ended by an uncaught panic
	Trace         []string
	Probes        map[string]int
	Tape          []uint64
	Samples       []any
	DeadlockPanic bool
}

// Execute runs body as the main task of a fresh simulation inside a synctest
// bubble.  It must be called from a test function.
func Execute(tt TestingT, cfg Config, tape *Tape, body func(r *Run)) *Result {
	if cfg.MaxSteps == 0 {
		cfg.MaxSteps = 20000
	}
	if cfg.MaxVirtual == 0 {
		cfg.MaxVirtual = 24 * time.Hour
	}
	res := &Result{}
	s := &Sim{Tape: tape, cfg: cfg, Probes: map[string]int{}, debugGoid: debugGoidEnv, hash: 0xcbf29ce484222325}
	func() {
		defer func() {
			if r := recover(); r != nil {
				msg := fmt.Sprint(r)
				if strings.Contains(msg, "deadlock: main bubble goroutine has exited") {
					res.DeadlockPanic = true
					return
				}
				panic(r)
			}
		}()
		runBubble(tt, func() {
			s.wake = make(chan struct{}, 1)
			s.start = time.Now()
			racyOn.Store(cfg.RacyMean > 0)
			if cfg.RacyMean > 0 {
				s.racyLeft = 1 + int(tape.Draw(uint64(2*cfg.RacyMean)))
			}
			run := &Run{Sim: s}
			s.mu.Lock()
			main := s.newTask("main")
			s.mu.Unlock()
			cur.Store(s)
			go s.taskMain(main, func() { body(run) })
			s.loop(main)
			s.mu.Lock()
			s.ended = true
			s.endedFlag.Store(true)
			s.mu.Unlock()
			cur.Store(nil)
			racyOn.Store(false)
			res.Virtual = time.Since(s.start)
		})
	}()
	cur.Store(nil)
	s.mu.Lock()
	defer s.mu.Unlock()
	res.Failure = s.fail
	res.EngineErr = s.engineErr
	res.Hash = s.hash
	res.Steps = s.steps
	res.Tasks = len(s.tasks)
	res.Switches, res.Stalls, res.Idles = s.nSwitch, s.nStall, s.nIdle
	res.RacySwitches = s.nRacy
	res.Stuck = s.Stuck
	res.StepsExceeded = s.StepsExceeded
	res.Trace = s.trace
	res.Probes = s.Probes
	res.Samples = s.Samples
	res.Tape = tape.Recorded()
	for _, t := range s.tasks {
		if t.Panicked {
			res.Crashed = append(res.Crashed, fmt.Sprintf("T%d %s: %v", t.ID, t.Name, t.PanicVal))
		}
		if t.state != stDone && t.state != stTimer && !t.bg {
			res.Leftover = append(res.Leftover, fmt.Sprintf("T%d %s %v at %s", t.ID, t.Name, t.state, t.site))
		}
	}
	sort.Strings(res.Leftover)
	return res
}
