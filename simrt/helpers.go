package simrt

import (
	"fmt"
	"sort"
)

// AV is wrapped around a value-returning sync/atomic call: the operation is
// performed, then the task reaches a scheduling point.
func AV[T any](site string, v T) T {
	Pre(site)
	return v
}

// AVoid runs a result-less sync/atomic call after a scheduling point.
func AVoid(site string, f func()) {
	Pre(site)
	f()
}

// KV is one map entry of a MapRange snapshot.
type KV[K comparable, V any] struct {
	K K
	V V
}

// MapHas reports whether k is (still) in m.
func MapHas[M ~map[K]V, K comparable, V any](m M, k K) bool {
	_, ok := m[k]
	return ok
}

// MapRange returns the entries of m in a deterministic order: sorted by key,
// then (inside a simulation) rotated/permuted by tape draws.  Any order is a
// legal iteration order for a Go map.
func MapRange[M ~map[K]V, K comparable, V any](m M) []KV[K, V] {
	n := len(m)
	if n == 0 {
		return nil
	}
	out := make([]KV[K, V], 0, n)
	for k, v := range m {
		out = append(out, KV[K, V]{k, v})
	}
	if n == 1 {
		return out
	}
	var zk K
	switch any(zk).(type) {
	case string:
		sort.Slice(out, func(i, j int) bool { return any(out[i].K).(string) < any(out[j].K).(string) })
	case int:
		sort.Slice(out, func(i, j int) bool { return any(out[i].K).(int) < any(out[j].K).(int) })
	case int64:
		sort.Slice(out, func(i, j int) bool { return any(out[i].K).(int64) < any(out[j].K).(int64) })
	case uint64:
		sort.Slice(out, func(i, j int) bool { return any(out[i].K).(uint64) < any(out[j].K).(uint64) })
	default:
		keys := make([]string, n)
		idx := make([]int, n)
		for i := range out {
			keys[i] = fmt.Sprintf("%T:%v", out[i].K, out[i].K)
			idx[i] = i
		}
		sort.Slice(idx, func(i, j int) bool { return keys[idx[i]] < keys[idx[j]] })
		s := make([]KV[K, V], n)
		for i, j := range idx {
			s[i] = out[j]
		}
		out = s
	}
	s := active()
	if s == nil {
		return out
	}
	s.mu.Lock()
	active := s.current != nil && !s.ended
	var perm []int
	rot := 0
	if active {
		if n <= 8 {
			perm = s.Tape.Perm(n)
		} else {
			rot = s.Tape.Intn(n)
		}
	}
	s.mu.Unlock()
	if !active {
		return out
	}
	res := make([]KV[K, V], n)
	if perm != nil {
		for i, j := range perm {
			res[i] = out[j]
		}
	} else {
		for i := range out {
			res[i] = out[(i+rot)%n]
		}
	}
	return res
}
