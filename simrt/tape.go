// Package simrt is the run-time of the deterministic simulator: choice tape,
// one-task-at-a-time scheduler on top of testing/synctest, hooks called by
// instrumented go-zero code, and the event log.
package simrt

// Tape is the single source of every choice of a run: workload, schedule and
// faults.  In generate mode values come from a PRNG seeded once and are
// recorded; in replay mode they are read back from a recording (a draw beyond
// the end of the recording yields 0, the "simplest" choice everywhere).
type Tape struct {
	s0, s1, s2, s3 uint64 // xoshiro256**
	rec            []uint64
	replay         []uint64
	replaying      bool
	pos            int
}

func splitmix(x *uint64) uint64 {
	*x += 0x9e3779b97f4a7c15
	z := *x
	z = (z ^ (z >> 30)) * 0xbf58476d1ce4e5b9
	z = (z ^ (z >> 27)) * 0x94d049bb133111eb
	return z ^ (z >> 31)
}

// NewTape returns a generating tape.
func NewTape(seed uint64) *Tape {
	t := &Tape{}
	x := seed
	t.s0, t.s1, t.s2, t.s3 = splitmix(&x), splitmix(&x), splitmix(&x), splitmix(&x)
	return t
}

// ReplayTape returns a tape that feeds back recorded values.
func ReplayTape(vals []uint64) *Tape {
	return &Tape{replay: vals, replaying: true}
}

func rotl(x uint64, k uint) uint64 { return (x << k) | (x >> (64 - k)) }

func (t *Tape) next() uint64 {
	r := rotl(t.s1*5, 7) * 9
	x := t.s1 << 17
	t.s2 ^= t.s0
	t.s3 ^= t.s1
	t.s1 ^= t.s2
	t.s0 ^= t.s3
	t.s2 ^= x
	t.s3 = rotl(t.s3, 45)
	return r
}

// Draw returns a value in [0,n).  n==0 is treated as 1.
func (t *Tape) Draw(n uint64) uint64 {
	if n <= 1 {
		// still consumes a slot so that the structure of the tape does not
		// depend on bounds that happen to be 1
		n = 1
	}
	var v uint64
	if t.replaying {
		if t.pos < len(t.replay) {
			v = t.replay[t.pos] % n
		}
		t.pos++
	} else {
		v = t.next() % n
		t.pos++
	}
	t.rec = append(t.rec, v)
	return v
}

// Recorded returns the values drawn so far (after reduction modulo the bound).
func (t *Tape) Recorded() []uint64 { return t.rec }

// Pos is the number of draws made.
func (t *Tape) Pos() int { return t.pos }

func (t *Tape) Intn(n int) int {
	if n <= 0 {
		n = 1
	}
	return int(t.Draw(uint64(n)))
}

// Range returns a value in [lo,hi] inclusive.
func (t *Tape) Range(lo, hi int) int {
	if hi < lo {
		hi = lo
	}
	return lo + t.Intn(hi-lo+1)
}

// Chance is true with probability num/den; the zero draw is false.
func (t *Tape) Chance(num, den int) bool {
	if den <= 0 {
		return false
	}
	return int(t.Draw(uint64(den))) >= den-num
}

func (t *Tape) Bool() bool { return t.Draw(2) == 1 }

// Perm returns a permutation of 0..n-1; an all-zero tape gives the identity.
func (t *Tape) Perm(n int) []int {
	p := make([]int, n)
	for i := range p {
		p[i] = i
	}
	for i := 0; i < n-1; i++ {
		j := i + t.Intn(n-i)
		p[i], p[j] = p[j], p[i]
	}
	return p
}
