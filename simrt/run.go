package simrt

import (
	"fmt"
	"testing"
	"testing/synctest"
	"time"
)

// TestingT is the test handle needed to open a synctest bubble.
type TestingT = *testing.T

func runBubble(t *testing.T, f func()) {
	synctest.Test(t, func(*testing.T) { f() })
}

// Run is the harness-facing handle of a simulation.
type Run struct {
	*Sim
}

// Fail records a property violation (first one wins).
func (s *Sim) Fail(class, format string, a ...any) {
	// format before taking the lock: an argument's Error()/String() method may be instrumented
	// go-zero code that reaches a scheduling point, which needs s.mu itself
	msg := fmt.Sprintf(format, a...)
	s.mu.Lock()
	if s.fail == nil {
		s.fail = &Failure{Class: class, Msg: msg}
		s.tracef("VIOLATION %s: %s", class, msg)
	}
	s.mu.Unlock()
}

// Failed reports whether a violation has been recorded.
func (s *Sim) Failed() bool {
	s.mu.Lock()
	defer s.mu.Unlock()
	return s.fail != nil
}

// Probe counts that a rare condition was reached.
func (s *Sim) Probe(name string) {
	s.mu.Lock()
	s.Probes[name]++
	s.mu.Unlock()
}

// ProbeN adds n to a probe counter.
func (s *Sim) ProbeN(name string, n int) {
	s.mu.Lock()
	s.Probes[name] += n
	s.mu.Unlock()
}

// Ev adds a harness event to the event-log hash (and the trace when tracing).
func (s *Sim) Ev(tag string, vals ...int64) {
	s.mu.Lock()
	h := hashStr(tag)
	for _, v := range vals {
		s.ev(3, h, uint64(v))
	}
	if len(vals) == 0 {
		s.ev(3, h, 0)
	}
	if s.cfg.Trace {
		s.tracef("%s %v", tag, vals)
	}
	s.mu.Unlock()
}

// Logf adds a line to the trace (only formatted when tracing).
func (s *Sim) Logf(format string, a ...any) {
	if !s.cfg.Trace {
		return
	}
	msg := fmt.Sprintf(format, a...) // before the lock, see Fail
	s.mu.Lock()
	s.tracef("%s", msg)
	s.mu.Unlock()
}

// Tracing reports whether a textual trace is kept.
func (s *Sim) Tracing() bool { return s.cfg.Trace }

// Seq returns the global event sequence number (number of scheduling points so far).
func (s *Sim) Seq() int {
	s.mu.Lock()
	defer s.mu.Unlock()
	return s.steps
}

// Elapsed is the virtual time since the start of the run.
func (s *Sim) Elapsed() time.Duration { return time.Since(s.start) }

// Go starts a client task.
func (r *Run) Go(name string, fn func()) *Task {
	return r.spawn(name, fn)
}

// GoBackground starts a task that is allowed to outlive the run.
func (r *Run) GoBackground(name string, fn func()) *Task {
	t := r.spawn(name, fn)
	t.bg = true
	return t
}

// Join waits until all given tasks have finished.
func (r *Run) Join(ts ...*Task) {
	for _, t := range ts {
		tk := Pre("join")
		<-t.doneCh
		Post(tk)
	}
}

// JoinTimeout waits for the tasks for at most d of virtual time.
func (r *Run) JoinTimeout(d time.Duration, ts ...*Task) bool {
	tm := time.NewTimer(d)
	defer tm.Stop()
	for _, t := range ts {
		tk := Pre("join")
		select {
		case <-t.doneCh:
			Post(tk)
		case <-tm.C:
			Post(tk)
			return false
		}
	}
	return true
}

// Sleep advances the calling task by d of virtual time.
func (r *Run) Sleep(d time.Duration) { Sleep(d) }

// Yield is a scheduling point in harness code.
func (r *Run) Yield() { Pre("harness.yield") }

// Quiesce parks the caller until no other task is runnable: every other task is
// blocked (on a primitive or on time) or done.  No virtual time passes.
func (r *Run) Quiesce() {
	s := r.Sim
	t := curTask()
	s.mu.Lock()
	if t == nil || s.ended || t.state != stRunning {
		s.mu.Unlock()
		return
	}
	s.steps++
	t.site = "quiesce"
	t.state = stWaitQuiet
	s.mu.Unlock()
	<-t.resume
}

// MarkBackground declares every task alive now (other than the caller) whose
// name matches one of the given spawn sites as background.
func (r *Run) MarkBackground(match func(name string) bool) {
	s := r.Sim
	s.mu.Lock()
	for _, t := range s.tasks {
		if t.state != stDone && match(t.Name) {
			t.bg = true
		}
	}
	s.mu.Unlock()
}

// AliveTasks lists the tasks that are not finished (excluding the caller and
// background tasks).
func (r *Run) AliveTasks() []string {
	s := r.Sim
	s.mu.Lock()
	defer s.mu.Unlock()
	var out []string
	for _, t := range s.tasks {
		if t == s.current || t.bg || t.state == stDone || t.state == stTimer {
			continue
		}
		out = append(out, fmt.Sprintf("T%d %s %v at %s", t.ID, t.Name, t.state, t.site))
	}
	return out
}

// TaskCount is the number of tasks created so far.
func (r *Run) TaskCount() int {
	r.mu.Lock()
	defer r.mu.Unlock()
	return len(r.tasks)
}

// CurrentID returns the id of the running task (-1 if none).
func (s *Sim) CurrentID() int {
	s.mu.Lock()
	defer s.mu.Unlock()
	if s.current == nil {
		return -1
	}
	return s.current.ID
}

// Draw64 draws from the tape on behalf of shims (rand, Cond.Signal, map order).
func (s *Sim) Draw64(n uint64) uint64 {
	s.mu.Lock()
	defer s.mu.Unlock()
	return s.Tape.Draw(n)
}

// DrawLocked draws an index in [0,n).
func (s *Sim) DrawLocked(n int) int { return int(s.Draw64(uint64(n))) }

// Sample records an actual case of this run for the evidence file (first few kept).
func (s *Sim) Sample(v any) {
	s.mu.Lock()
	if len(s.Samples) < 4 {
		s.Samples = append(s.Samples, v)
	}
	s.mu.Unlock()
}

// Cfg returns the scheduler configuration of this run.
func (s *Sim) Cfg() Config { return s.cfg }
