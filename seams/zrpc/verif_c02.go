//go:build verif

package zrpc

import "github.com/zeromicro/go-zero/zrpc/internal/serverinterceptors"

// Re-exports for the C02 harness (internal packages cannot be imported by the
// harness module).  No behaviour of their own.
var (
	VerifC02UnarySheddingInterceptor = serverinterceptors.UnarySheddingInterceptor
	VerifC02ResetRpcSheddingStat     = serverinterceptors.VerifC02ResetSheddingStat
)
