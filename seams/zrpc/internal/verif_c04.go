//go:build verif

package internal

import (
	"time"

	"google.golang.org/grpc"
)

// VerifBuildClientUnaryInterceptors is the chain NewClient hands to grpc.WithChainUnaryInterceptor
// for the given middleware switches and client-wide timeout.  No behaviour of its own.
func VerifBuildClientUnaryInterceptors(m ClientMiddlewaresConf, timeout time.Duration) []grpc.UnaryClientInterceptor {
	return (&client{middlewares: m}).buildUnaryInterceptors(timeout)
}
