//go:build verif

package serverinterceptors

// VerifC02ResetSheddingStat forgets the lazily created package-level shedding
// statistics so that every simulated run creates (and owns) its own.
func VerifC02ResetSheddingStat() { sheddingStat = nil }
