//go:build verif

package zrpc

import (
	"github.com/zeromicro/go-zero/zrpc/internal"
	"github.com/zeromicro/go-zero/zrpc/internal/clientinterceptors"
	"github.com/zeromicro/go-zero/zrpc/internal/serverinterceptors"
)

// Re-exports of the timeout interceptors (internal packages cannot be imported
// by the harness module).  No behaviour of their own.
var (
	VerifUnaryTimeoutInterceptor  = serverinterceptors.UnaryTimeoutInterceptor
	VerifClientTimeoutInterceptor = clientinterceptors.TimeoutInterceptor
	VerifWithCallTimeout          = clientinterceptors.WithCallTimeout
)

// VerifMethodTimeoutConf is serverinterceptors.MethodTimeoutConf.
type VerifMethodTimeoutConf = serverinterceptors.MethodTimeoutConf

// client wiring (which interceptors a client gets for its configuration)
var VerifBuildClientUnaryInterceptors = internal.VerifBuildClientUnaryInterceptors

// VerifClientMiddlewaresConf is internal.ClientMiddlewaresConf.
type VerifClientMiddlewaresConf = internal.ClientMiddlewaresConf
