//go:build verif

package zrpc

import (
	"github.com/zeromicro/go-zero/zrpc/internal/clientinterceptors"
	"github.com/zeromicro/go-zero/zrpc/internal/serverinterceptors"
)

// Re-exports of the breaker interceptors for the C01 harness (internal packages
// cannot be imported by the harness module).  No behaviour of their own.
var (
	VerifC01UnaryBreakerInterceptor  = serverinterceptors.UnaryBreakerInterceptor
	VerifC01StreamBreakerInterceptor = serverinterceptors.StreamBreakerInterceptor
	VerifC01ClientBreakerInterceptor = clientinterceptors.BreakerInterceptor
)
