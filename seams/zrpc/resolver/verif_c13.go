//go:build verif

package resolver

import "github.com/zeromicro/go-zero/zrpc/resolver/internal/kube"

// Re-export for the C13 harness (zrpc/resolver/internal/kube cannot be imported
// by the harness module).  No behaviour of its own.

// VerifKubeEventHandler is kube.EventHandler.
type VerifKubeEventHandler = kube.EventHandler

// VerifNewKubeEventHandler is kube.NewEventHandler.
var VerifNewKubeEventHandler = kube.NewEventHandler
