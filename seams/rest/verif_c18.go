//go:build verif

package rest

import (
	"net/http"

	"github.com/zeromicro/go-zero/rest/router"
)

// VerifServerStep is one call made on a Server between NewServer and Start:
// either (*Server).Use(Use) or (*Server).AddRoutes(Group.Routes, Group.Opts...).
type VerifServerStep struct {
	Use   Middleware
	Group *VerifRouteGroup
}

// VerifNewServerHandler is VerifNewRouterHandler plus the server-level
// settings: the RunOptions are applied the way NewServer applies them (on the
// engine built by newEngine(conf) and a fresh pat router), then the steps are
// made in the given order, then engine.bindRoutes binds everything onto the
// server's router, which is returned as the handler of the whole server.
// No RestConf.SetUp, no listener.  No behaviour of its own.
func VerifNewServerHandler(conf RestConf, opts []RunOption, steps []VerifServerStep) (http.Handler, error) {
	srv := &Server{
		ngin:   newEngine(conf),
		router: router.NewRouter(),
	}
	for _, opt := range opts {
		opt(srv)
	}
	for _, st := range steps {
		if st.Use != nil {
			srv.Use(st.Use)
		}
		if st.Group != nil {
			srv.AddRoutes(st.Group.Routes, st.Group.Opts...)
		}
	}
	if err := srv.ngin.bindRoutes(srv.router); err != nil {
		return nil, err
	}

	return srv.router, nil
}
