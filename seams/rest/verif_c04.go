//go:build verif

package rest

import (
	"net/http"

	"github.com/zeromicro/go-zero/rest/router"
)

// VerifRouteGroup is one (*Server).AddRoutes call: routes plus their options.
type VerifRouteGroup struct {
	Routes []Route
	Opts   []RouteOption
}

// VerifNewRouterHandler builds the middleware chains of the given route groups
// exactly the way a Server does between NewServer and Start, minus
// RestConf.SetUp (logging, prometheus, tracing, ...) and minus the listener:
// newEngine(conf), (*Server).AddRoutes per group in the given order,
// engine.bindRoutes onto a fresh pat router.  The router is returned as the
// handler of the whole server.  No behaviour of its own.
func VerifNewRouterHandler(conf RestConf, groups []VerifRouteGroup) (http.Handler, error) {
	srv := &Server{
		ngin:   newEngine(conf),
		router: router.NewRouter(),
	}
	for _, g := range groups {
		srv.AddRoutes(g.Routes, g.Opts...)
	}
	if err := srv.ngin.bindRoutes(srv.router); err != nil {
		return nil, err
	}

	return srv.router, nil
}
