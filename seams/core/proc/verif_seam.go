//go:build verif

package proc

// verifNoListeners makes addListener a no-op (seam patch in shutdown.go): the
// listener managers are process globals built around a sync.WaitGroup that is
// never released; the runtime refuses a WaitGroup that is used both outside and
// inside a synctest bubble (fatal error), and registrations would accumulate
// from one simulated run to the next.  Shutdown/wrap-up notification is driven
// by process signals and is outside every simulated property.
const verifNoListeners = true
