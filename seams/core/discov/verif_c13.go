//go:build verif

package discov

import "github.com/zeromicro/go-zero/core/discov/internal"

// Re-exports for the C13 harness (core/discov/internal cannot be imported by
// the harness module).  No behaviour of their own.

// VerifEtcdClient is internal.EtcdClient.
type VerifEtcdClient = internal.EtcdClient

// VerifSetEtcdFactory replaces internal.NewClient (the existing test seam of the
// package) and returns the function that restores it.
func VerifSetEtcdFactory(f func(endpoints []string) (internal.EtcdClient, error)) (restore func()) {
	old := internal.NewClient
	internal.NewClient = f
	return func() { internal.NewClient = old }
}

// VerifTriggerReload does what the connection-state watcher does when the
// connection is re-established: cluster.reload with the cluster's client.
// Synchronous; the caller provides the goroutine.
func VerifTriggerReload(endpoints []string) bool {
	return any(internal.GetRegistry()).(verifRegistry).VerifReload(endpoints)
}

// VerifResetRegistry gives the process a fresh registry / connection manager.
func VerifResetRegistry() { any(internal.GetRegistry()).(verifRegistry).VerifResetRegistry() }

// verifRegistry: the accessors added to *internal.Registry by internal/verif_c13.go.
type verifRegistry interface {
	VerifReload(endpoints []string) bool
	VerifResetRegistry()
}

// VerifPublisherKeepAlive is Publisher.KeepAlive (register, then keep the lease
// alive asynchronously) without its proc.AddWrapUpListener call: core/proc's
// process-wide listener manager holds a real sync.WaitGroup, which the runtime
// refuses to share between synctest bubbles (fatal error in the second run of a
// process).  The shutdown hook is outside the property.
func VerifPublisherKeepAlive(p *Publisher) error {
	cli, err := p.doRegister()
	if err != nil {
		return err
	}

	return p.keepAliveAsync(cli)
}
