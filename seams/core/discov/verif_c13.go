//go:build verif

package discov

import "github.com/zeromicro/go-zero/core/discov/internal"

// Re-exports for the C13 harness (core/discov/internal cannot be imported by
// the harness module).  No behaviour of their own.

// VerifEtcdClient is internal.EtcdClient.
type VerifEtcdClient = internal.EtcdClient

// VerifSetEtcdFactory replaces internal.NewClient (the existing test seam of the
// package) and returns the function that restores it.
func VerifSetEtcdFactory(f func(endpoints []string) (internal.EtcdClient, error)) (restore func()) {
	old := internal.NewClient
	internal.NewClient = f
	return func() { internal.NewClient = old }
}

// VerifTriggerReload does what the connection-state watcher does when the
// connection is re-established: cluster.reload with the cluster's client.
// Synchronous; the caller provides the goroutine.
func VerifTriggerReload(endpoints []string) bool { return internal.VerifReload(endpoints) }

// VerifResetRegistry gives the process a fresh registry / connection manager.
func VerifResetRegistry() { internal.VerifResetRegistry() }
