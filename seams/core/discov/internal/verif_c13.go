//go:build verif

package internal

import "github.com/zeromicro/go-zero/core/syncx"

// Accessors for the C13 harness (package internal cannot be imported by the
// harness module; see core/discov/verif_c13.go).  No behaviour of their own.
// They are methods of *Registry so that the re-export file in core/discov can reach
// them through an interface assertion (the instrumenter type-checks that package
// against export data built without the added files).

// VerifReload runs cluster.reload for the cluster of the given endpoints with its
// client: exactly what the connection-state listener installed by
// cluster.watchConnState starts (`go c.reload(cli)`) when the connection comes
// back.  It runs synchronously; the caller provides the goroutine.
func (r *Registry) VerifReload(endpoints []string) bool {
	c, ok := r.getCluster(endpoints)
	if !ok {
		return false
	}
	cli, err := c.getClient()
	if err != nil {
		return false
	}
	c.reload(cli)
	return true
}

// VerifResetRegistry gives the process a fresh registry and connection manager
// (both are package globals keyed by the endpoints).
func (r *Registry) VerifResetRegistry() {
	r.lock.Lock()
	r.clusters = make(map[string]*cluster)
	r.lock.Unlock()
	connManager = syncx.NewResourceManager()
}
