//go:build verif

package internal

import "github.com/zeromicro/go-zero/core/syncx"

// Accessors for the C13 harness (package internal cannot be imported by the
// harness module; see core/discov/verif_c13.go).  No behaviour of their own.

// VerifReload runs cluster.reload for the cluster of the given endpoints with its
// client: exactly what the connection-state listener installed by
// cluster.watchConnState starts (`go c.reload(cli)`) when the connection comes
// back.  It runs synchronously; the caller provides the goroutine.
func VerifReload(endpoints []string) bool {
	c, ok := GetRegistry().getCluster(endpoints)
	if !ok {
		return false
	}
	cli, err := c.getClient()
	if err != nil {
		return false
	}
	c.reload(cli)
	return true
}

// VerifResetRegistry gives the process a fresh registry and connection manager
// (both are package globals keyed by the endpoints).
func VerifResetRegistry() {
	registry.lock.Lock()
	registry.clusters = make(map[string]*cluster)
	registry.lock.Unlock()
	connManager = syncx.NewResourceManager()
}
