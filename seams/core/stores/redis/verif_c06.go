//go:build verif

package redis

import "github.com/zeromicro/go-zero/core/syncx"

// VerifC06ResetClients forgets the go-redis clients that go-zero shares by address, so that a
// simulated run may use addresses that an earlier run of the same process has used (the C06
// cluster mode needs addresses that depend on the tape only: the node address is what the
// consistent hash places on the ring).
func VerifC06ResetClients() {
	clientManager = syncx.NewResourceManager()
}
