//go:build verif

package redis

import "github.com/zeromicro/go-zero/core/breaker"

// VerifC01Breaker returns the breaker that guards the commands of r (accessor for
// the C01 harness; its window is read through breaker.VerifWindow).
func VerifC01Breaker(r *Redis) breaker.Breaker { return r.brk }
