//go:build verif

package cache

import (
	"time"

	"github.com/zeromicro/go-zero/core/collection"
	"github.com/zeromicro/go-zero/core/logx"
	"github.com/zeromicro/go-zero/core/threading"
)

// verifSkipInit makes init() skip building the cleaner's timing wheel on the
// real clock (seam patch in cleaner.go); VerifResetCleaner builds it, and the
// task runner, on the clock of the calling goroutine.
const verifSkipInit = true

func VerifResetCleaner() *collection.TimingWheel {
	tw, err := collection.NewTimingWheel(time.Second, timingWheelSlots, clean)
	logx.Must(err)
	timingWheel.Store(tw)
	taskRunner = threading.NewTaskRunner(cleanWorkers)
	return tw
}
