//go:build verif

package cache

import "github.com/zeromicro/go-zero/core/collection"

// VerifC12DrainCleaner does what the cleaner's shutdown listener does (init, which registers
// that listener, is skipped under the verif tag: see verif_seam.go).
func VerifC12DrainCleaner() error {
	tw := timingWheel.Load().(*collection.TimingWheel)
	return tw.Drain(clean)
}
