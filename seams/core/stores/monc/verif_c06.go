//go:build verif

package monc

import (
	"github.com/zeromicro/go-zero/core/stores/cache"
	"github.com/zeromicro/go-zero/core/stores/mon"
	"github.com/zeromicro/go-zero/core/stores/redis"
	"go.mongodb.org/mongo-driver/mongo"
)

// The constructors of the package minus mon.NewModel (which connects to a server): the mon.Model
// is handed in.

// VerifNewModel is NewModelWithCache.
func VerifNewModel(m *mon.Model, c cache.Cache) *Model {
	return &Model{Model: m, cache: c}
}

// VerifNewNodeModel is NewNodeModel.
func VerifNewNodeModel(m *mon.Model, rds *redis.Redis, opts ...cache.Option) *Model {
	return VerifNewModel(m, cache.NewNode(rds, singleFlight, stats, mongo.ErrNoDocuments, opts...))
}

// VerifNewConfModel is NewModel.
func VerifNewConfModel(m *mon.Model, conf cache.CacheConf, opts ...cache.Option) *Model {
	return VerifNewModel(m, cache.New(conf, singleFlight, stats, mongo.ErrNoDocuments, opts...))
}
