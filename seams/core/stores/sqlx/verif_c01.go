//go:build verif

package sqlx

import "github.com/zeromicro/go-zero/core/breaker"

// VerifC01Breaker returns the breaker that guards the statements of conn (accessor
// for the C01 harness; its window is read through breaker.VerifWindow).
func VerifC01Breaker(conn SqlConn) breaker.Breaker {
	if c, ok := conn.(*commonSqlConn); ok {
		return c.brk
	}
	return nil
}
