//go:build verif

package sqlx

import (
	"errors"
	"io"

	"github.com/zeromicro/go-zero/core/syncx"
)

var errVerifC01NotCached = errors.New("verif: no pooled connection cached for this data source")

// VerifC01ForgetConns closes the *sql.DB objects that the process-wide connection manager
// cached for the given data sources (NewSqlConn connects lazily through it) and starts over
// with an empty manager: the runs of the C01 harness must not leave pools, their goroutines
// or map entries behind.
func VerifC01ForgetConns(datasources ...string) {
	for _, ds := range datasources {
		res, err := connManager.GetResource(ds, func() (io.Closer, error) {
			return nil, errVerifC01NotCached
		})
		if err == nil {
			_ = res.Close()
		}
	}
	connManager = syncx.NewResourceManager()
}
