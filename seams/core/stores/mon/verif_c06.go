//go:build verif

package mon

import "github.com/zeromicro/go-zero/core/breaker"

// VerifNewModel builds a Model over the given Collection without a mongo client (NewModel connects
// to a server; there is no network inside a simulation).  The breaker is the model's own: NewModel
// takes the process-wide one registered under the uri, whose state would outlive the run.
func VerifNewModel(name string, coll Collection) *Model {
	return newModel(name, nil, coll, breaker.NewBreaker())
}
