//go:build verif

package collection

import "github.com/zeromicro/go-zero/core/syncx"

// VerifWrapCacheBarrier lets a harness observe the cache's SingleFlight barrier:
// wrap receives the barrier the cache was built with and returns the one Take
// will call (a recording pass-through; behaviour must not change).
func VerifWrapCacheBarrier(c *Cache, wrap func(syncx.SingleFlight) syncx.SingleFlight) {
	c.barrier = wrap(c.barrier)
}
