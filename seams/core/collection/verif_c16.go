//go:build verif

package collection

// VerifCacheLen returns the number of entries the cache currently holds (the
// unexported size() accessor the cache itself uses for its statistics line).
func VerifCacheLen(c *Cache) int { return c.size() }
