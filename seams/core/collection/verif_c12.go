//go:build verif

package collection

// VerifC12Pending is the number of keys the wheel holds a timer for.  The C12 harness uses it
// for one thing only: to recognise that two clean tasks of the cache cleaner were given the same
// random key (stringx.Randn draws from the choice tape; a shrunk / exhausted tape yields equal
// keys), in which case the run is discarded without a verdict.
func (tw *TimingWheel) VerifC12Pending() int { return tw.timers.Size() }
