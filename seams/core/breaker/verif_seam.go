//go:build verif

package breaker

// VerifWindow returns the breaker's own view of its rolling window:
// accepted calls and total recorded calls (successes+failures+drops).
func VerifWindow(b Breaker) (accepts, total int64, ok bool) {
	cb, isCb := b.(*circuitBreaker)
	if !isCb {
		return 0, 0, false
	}
	lt, isLt := cb.throttle.(loggedThrottle)
	if !isLt {
		return 0, 0, false
	}
	gb, isGb := lt.internalThrottle.(*googleBreaker)
	if !isGb {
		return 0, 0, false
	}
	h := gb.history()
	return h.accepts, h.total, true
}
