//go:build verif

package stat

import (
	"os"

	"github.com/zeromicro/go-zero/core/executors"
)

// VerifC02NewMetrics is NewMetrics on top of an executor that is not registered
// with proc's shutdown listeners (see executors.VerifC02NewPeriodicalExecutor).
func VerifC02NewMetrics(name string) *Metrics {
	container := &metricsContainer{name: name, pid: os.Getpid()}
	return &Metrics{
		executor:  executors.VerifC02NewPeriodicalExecutor(logInterval, container),
		container: container,
	}
}
