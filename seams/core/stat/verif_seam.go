//go:build verif

package stat

import "sync/atomic"

// verifNoRefresher disables the init-time CPU sampler (seam patch in usage.go).
const verifNoRefresher = true

// VerifSetCpuUsage sets the value returned by CpuUsage.
func VerifSetCpuUsage(v int64) { atomic.StoreInt64(&cpuUsage, v) }
