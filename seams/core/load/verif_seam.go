//go:build verif

package load

// VerifSetOverloadChecker replaces the CPU overload predicate (the unit tests of
// the package assign the same variable).
func VerifSetOverloadChecker(f func(cpuThreshold int64) bool) { systemOverloadChecker = f }
