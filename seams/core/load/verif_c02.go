//go:build verif

package load

// VerifC02SetEnabled sets the package-wide "shedding enabled" switch (Disable()
// has no public inverse; the C02 harness restores the default after a run that
// exercised a disabled shedder).
func VerifC02SetEnabled(on bool) { enabled.Set(on) }

// VerifC02SetLogEnabled sets the package-wide "shedding statistics are logged"
// switch (DisableLog() has no public inverse).
func VerifC02SetLogEnabled(on bool) { logEnabled.Set(on) }

// verifC02DefaultChecker is go-zero's own CPU predicate (whatever the source says),
// kept so that a run can put it back after VerifSetOverloadChecker replaced it.
var verifC02DefaultChecker = systemOverloadChecker

// VerifC02RestoreOverloadChecker puts go-zero's own CPU predicate back in place.
func VerifC02RestoreOverloadChecker() { systemOverloadChecker = verifC02DefaultChecker }
