//go:build verif

package load

// VerifC02SetEnabled sets the package-wide "shedding enabled" switch (Disable()
// has no public inverse; the C02 harness restores the default after a run that
// exercised a disabled shedder).
func VerifC02SetEnabled(on bool) { enabled.Set(on) }
