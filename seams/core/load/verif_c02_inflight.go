//go:build verif

package load

// VerifC02InFlight reads the in-flight counter of an adaptive shedder and the moving
// average of it (plain reads: the simulation runs one task at a time).  A member of a
// ShedderGroup (handed out wrapped in a nopCloser) is unwrapped first.  ok is false
// for every other Shedder (nopShedder, foreign implementations).  Accessor only.
func VerifC02InFlight(s Shedder) (flying int64, avgFlying float64, ok bool) {
	if nc, wrapped := s.(nopCloser); wrapped {
		s = nc.Shedder
	}
	as, isAdaptive := s.(*adaptiveShedder)
	if !isAdaptive || as == nil {
		return 0, 0, false
	}
	return as.flying, as.avgFlying, true
}
