//go:build verif

package timex

import "time"

// VerifResetClock re-bases the relative clock on the clock of the calling
// goroutine (the synctest bubble's virtual clock).  initTime is taken at
// package init, i.e. outside any bubble, which would make Now() negative
// inside one.
func VerifResetClock() {
	initTime = time.Now().AddDate(-1, -1, -1)
}
