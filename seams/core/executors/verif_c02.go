//go:build verif

package executors

import (
	"time"

	"github.com/zeromicro/go-zero/core/lang"
	"github.com/zeromicro/go-zero/core/timex"
)

// VerifC02NewPeriodicalExecutor is NewPeriodicalExecutor without the
// proc.AddShutdownListener registration: proc keeps its listeners behind a
// package-level sync.WaitGroup that is already in use when the test binary
// starts, and the runtime refuses a WaitGroup shared between the outside and a
// synctest bubble (fatal error).  Everything else is the constructor's own code.
func VerifC02NewPeriodicalExecutor(interval time.Duration, container TaskContainer) *PeriodicalExecutor {
	return &PeriodicalExecutor{
		commander:   make(chan any, 1),
		interval:    interval,
		container:   container,
		confirmChan: make(chan lang.PlaceholderType),
		newTicker: func(d time.Duration) timex.Ticker {
			return timex.NewTicker(d)
		},
	}
}
