// Package simredis is the simulated Redis transport of the simgo engine.
//
// go-zero's redis wrapper is real, go-redis is real, the command execution
// (including Lua scripts and TTLs) is a real miniredis; what is simulated is the
// network between go-redis and the server: the dial hook installed with
// redis.WithHook returns an in-memory net.Conn.  A complete RESP command written
// to it reaches the server at a scheduling point (so the order of arrival of
// concurrent clients is a tape decision), is executed synchronously by
// miniredis' dispatcher on the caller's goroutine, and its reply is queued for
// the following Read.  Faults are decided per command by a harness-owned policy
// (normally drawn from the choice tape): latency, request lost, reply lost,
// connection reset before / after execution, error reply, truncated reply; plus
// dial refused and whole-server outages.
//
// miniredis needs a listening socket to build its command table, and no socket
// may be created inside a synctest bubble, so a small pool of instances is
// started at package init (outside any bubble) and recycled: New flushes all
// data and the script cache and re-bases the server clock on the virtual clock.
package simredis

import (
	"bufio"
	"bytes"
	"context"
	"fmt"
	"io"
	"net"
	"strconv"
	"strings"
	"syscall"
	"time"

	"github.com/alicebob/miniredis/v2"
	"github.com/alicebob/miniredis/v2/server"
	red "github.com/redis/go-redis/v9"

	"verifsim/simrt"
)

const poolSize = 3

var pool []*miniredis.Miniredis

func init() {
	for i := 0; i < poolSize; i++ {
		m := miniredis.NewMiniRedis()
		if err := m.Start(); err != nil {
			panic("simredis: cannot start miniredis outside the bubble: " + err.Error())
		}
		pool = append(pool, m)
	}
}

var (
	lastSim *simrt.Sim
	used    int
	serial  int
)

// Kind is a fault kind.
type Kind int

const (
	None        Kind = iota
	Latency          // request and/or reply delayed by virtual time
	DropRequest      // the server never sees the command; no reply
	DropReply        // the server executes the command; the reply is lost
	ResetBefore      // connection reset while sending: not executed, Write fails
	ResetAfter       // executed, then the connection is reset: Read fails with EOF
	ErrReply         // not executed; the server answers with an error line
	Truncate         // executed; only the first half of the reply arrives, then EOF
	Deferred         // the request stays in the network for ReqDelay and reaches the server then, even if the client has given up meanwhile (timed out, retried on another connection, closed this one)
	DialRefused      // (dial time) connection refused
	Outage           // (counter only) operation hit a server that is down
	ScriptsLost      // (server event, FlushScripts) the script cache is emptied; data, TTLs and connections stay: SCRIPT FLUSH, failover to a replica, restart seen through a proxy
	Restart          // (server event, Restart) restart with persisted data: every established connection is reset, the script cache is empty; data and TTLs stay
	nKinds
)

var kindNames = [...]string{"none", "latency", "drop-request", "drop-reply", "reset-before", "reset-after", "error-reply", "truncated-reply", "deferred-request", "dial-refused", "outage", "script-cache-lost", "server-restart"}

func (k Kind) String() string { return kindNames[k] }

// Fault is the decision of the policy for one command.
type Fault struct {
	Kind     Kind
	ReqDelay time.Duration // Latency / Deferred: before the server sees the command
	RepDelay time.Duration // Latency: before the client can read the reply
	Msg      string        // ErrReply: the error line (without the leading '-')
}

// Cmd describes a command about to be sent.
type Cmd struct {
	Args []string
	Conn int // connection number within this server
	Task int // id of the task whose goroutine writes the command
}

// Name is the upper-cased command name.
func (c *Cmd) Name() string { return strings.ToUpper(c.Args[0]) }

// Handshake reports whether the command belongs to go-redis' connection set-up.
func (c *Cmd) Handshake() bool {
	switch c.Name() {
	case "HELLO", "CLIENT", "AUTH", "SELECT", "READONLY":
		return true
	}
	return false
}

// Exec is the record of a command that the server executed.
type Exec struct {
	Seq   int // server-side execution order (1-based)
	Cmd   Cmd
	Reply []byte        // raw RESP reply
	At    time.Duration // virtual time since the start of the run
	Fault Kind          // the fault that accompanies it (None, Latency, DropReply, ResetAfter, Truncate)
}

// Server is one simulated Redis server for the current run.
type Server struct {
	r     *simrt.Run
	mr    *miniredis.Miniredis
	last  time.Time
	down  bool
	conns []*conn
	nExec int

	// Fault decides the fault of a command (nil: none).  It runs on the task that
	// sends the command, at the scheduling point where the command leaves the client.
	Fault func(c *Cmd) Fault
	// DialFault decides whether a dial is refused (nil: never).
	DialFault func(task int) bool
	// OnExec observes every command the server executed, in execution order.
	OnExec func(e *Exec)
	// Fired counts the faults that actually happened, by kind.
	Fired [nKinds]int
	Addr  string // run-unique address to hand to redis.New / RedisConf.Host
}

// New takes a server from the pool for the run r: empty, with the virtual clock.
func New(r *simrt.Run) *Server {
	if r.Sim != lastSim {
		lastSim, used = r.Sim, 0
	}
	if used >= len(pool) {
		r.EngineError("simredis: more than %d servers in one run", len(pool))
		used = 0
	}
	m := pool[used]
	used++
	serial++
	m.FlushAll()
	s := &Server{r: r, mr: m, last: time.Now(), Addr: fmt.Sprintf("simredis-%d.verif:6379", serial)}
	m.SetTime(s.last)
	// empty the script cache (it lives outside the databases)
	var sink bytes.Buffer
	w := bufio.NewWriter(&sink)
	p := server.NewPeer(w)
	m.Server().Dispatch(p, []string{"SCRIPT", "FLUSH"})
	return s
}

// MR gives direct access to the store (call Sync first when TTLs matter).
func (s *Server) MR() *miniredis.Miniredis { return s.mr }

// Sync brings the server clock (and with it every TTL) up to the virtual clock.
func (s *Server) Sync() {
	now := time.Now()
	if d := now.Sub(s.last); d > 0 {
		s.mr.FastForward(d)
		s.last = now
	}
	s.mr.SetTime(now)
}

// SetDown starts or ends an outage: while down, dials are refused and every
// established connection fails at its next use.
func (s *Server) SetDown(down bool) {
	s.down = down
	if down {
		for _, c := range s.conns {
			c.broken = true
		}
	}
}

// FlushScripts makes the server lose its script cache (SCRIPT FLUSH executed on the server
// directly, no connection involved): every EVALSHA is answered NOSCRIPT until the script has
// been sent again with EVAL / SCRIPT LOAD.  Data, TTLs and connections are untouched and the
// server stays reachable, so this is no outage: a client that handles NOSCRIPT (go-redis'
// Script.Run falls back to EVAL) notices nothing.  Counted as fault kind ScriptsLost.
func (s *Server) FlushScripts() {
	s.flushScripts()
	s.fire(ScriptsLost)
}

func (s *Server) flushScripts() {
	var sink bytes.Buffer
	w := bufio.NewWriter(&sink)
	s.mr.Server().Dispatch(server.NewPeer(w), []string{"SCRIPT", "FLUSH"})
	w.Flush()
	if got := sink.String(); got != "+OK\r\n" {
		s.r.EngineError("simredis: SCRIPT FLUSH answered %q", got)
	}
}

// Restart is an instantaneous server restart with persisted data: every established
// connection is reset (a command in flight on it fails: a request that has not reached the
// server is lost, a reply that has not been read is lost although the command was executed),
// requests still in the network (Deferred) never arrive, the script cache is empty; data and
// TTLs are kept and new connections are accepted at once.  For a restart that takes time use
// SetDown(true) ... Restart() ... SetDown(false).  Counted as fault kind Restart.
func (s *Server) Restart() {
	for _, c := range s.conns {
		c.broken = true
		for i := range c.queue {
			c.queue[i].lost = true
		}
	}
	s.flushScripts()
	s.fire(Restart)
}

// Down reports whether the server is in an outage.
func (s *Server) Down() bool { return s.down }

// Executed is the number of commands executed so far.
func (s *Server) Executed() int { return s.nExec }

// FiredMap returns the non-zero fault counters by name.
func (s *Server) FiredMap() map[string]int {
	out := map[string]int{}
	for k, n := range s.Fired {
		if n > 0 {
			out[Kind(k).String()] = n
		}
	}
	return out
}

func (s *Server) fire(k Kind) {
	s.Fired[k]++
	s.r.Probe("redis-fault-" + k.String())
}

// Hook returns the go-redis hook that routes every connection of a client to
// this server (use it with go-zero's redis.WithHook).
func (s *Server) Hook() red.Hook { return hook{s} }

type hook struct{ s *Server }

func (h hook) DialHook(next red.DialHook) red.DialHook {
	return func(ctx context.Context, network, addr string) (net.Conn, error) {
		return h.s.dial(ctx)
	}
}

func (h hook) ProcessHook(next red.ProcessHook) red.ProcessHook { return next }

func (h hook) ProcessPipelineHook(next red.ProcessPipelineHook) red.ProcessPipelineHook {
	return next
}

func curTaskID() int {
	if sim := simrt.Current(); sim != nil {
		return sim.CurrentID()
	}
	return -1
}

func (s *Server) dial(ctx context.Context) (net.Conn, error) {
	simrt.Yield("simredis.dial")
	if err := ctx.Err(); err != nil {
		return nil, err
	}
	if s.down {
		s.fire(Outage)
		return nil, &net.OpError{Op: "dial", Net: "tcp", Err: syscall.ECONNREFUSED}
	}
	if s.DialFault != nil && s.DialFault(curTaskID()) {
		s.fire(DialRefused)
		return nil, &net.OpError{Op: "dial", Net: "tcp", Err: syscall.ECONNREFUSED}
	}
	c := &conn{s: s, id: len(s.conns)}
	c.pw = bufio.NewWriter(&c.pbuf)
	c.peer = server.NewPeer(c.pw)
	s.conns = append(s.conns, c)
	return c, nil
}

type reply struct {
	data []byte
	at   time.Time
	eof  bool // connection ends after this reply
}

type conn struct {
	s        *Server
	id       int
	in       []byte
	replies  []reply
	awaiting int // commands sent whose reply will never arrive
	rdl, wdl time.Time
	closed   bool
	broken   bool
	pbuf     bytes.Buffer
	pw       *bufio.Writer
	peer     *server.Peer
	queue    []pending // requests still in the network (Deferred), FIFO
	worker   bool      // a delivery task for queue is running
}

type pending struct {
	cmd  Cmd
	f    Fault
	due  time.Time
	lost bool // the server was restarted while the request was in the network (Restart)
}

type timeoutErr struct{}

func (timeoutErr) Error() string   { return "i/o timeout (simredis)" }
func (timeoutErr) Timeout() bool   { return true }
func (timeoutErr) Temporary() bool { return true }

func resetErr(op string) error {
	return &net.OpError{Op: op, Net: "tcp", Err: syscall.ECONNRESET}
}

type addr struct{}

func (addr) Network() string { return "simredis" }
func (addr) String() string  { return "simredis" }

func (c *conn) LocalAddr() net.Addr  { return addr{} }
func (c *conn) RemoteAddr() net.Addr { return addr{} }

func (c *conn) SetDeadline(t time.Time) error {
	c.rdl, c.wdl = t, t
	return nil
}
func (c *conn) SetReadDeadline(t time.Time) error  { c.rdl = t; return nil }
func (c *conn) SetWriteDeadline(t time.Time) error { c.wdl = t; return nil }

func (c *conn) Close() error {
	c.closed = true
	return nil
}

// parse extracts one complete RESP array of bulk strings from c.in.
func (c *conn) parse() ([]string, bool, error) {
	b := c.in
	if len(b) == 0 {
		return nil, false, nil
	}
	if b[0] != '*' {
		return nil, false, fmt.Errorf("simredis: unexpected request byte %q", b[0])
	}
	pos := 0
	line := func() (string, bool) {
		i := bytes.Index(b[pos:], []byte("\r\n"))
		if i < 0 {
			return "", false
		}
		l := string(b[pos : pos+i])
		pos += i + 2
		return l, true
	}
	l, ok := line()
	if !ok {
		return nil, false, nil
	}
	n, err := strconv.Atoi(l[1:])
	if err != nil {
		return nil, false, err
	}
	args := make([]string, 0, n)
	for i := 0; i < n; i++ {
		l, ok := line()
		if !ok {
			return nil, false, nil
		}
		if len(l) == 0 || l[0] != '$' {
			return nil, false, fmt.Errorf("simredis: unexpected bulk header %q", l)
		}
		sz, err := strconv.Atoi(l[1:])
		if err != nil {
			return nil, false, err
		}
		if len(b) < pos+sz+2 {
			return nil, false, nil
		}
		args = append(args, string(b[pos:pos+sz]))
		pos += sz + 2
	}
	c.in = append([]byte(nil), b[pos:]...)
	return args, true, nil
}

func (c *conn) Write(p []byte) (int, error) {
	if c.closed {
		return 0, net.ErrClosed
	}
	if c.broken {
		c.s.fire(Outage)
		return 0, resetErr("write")
	}
	c.in = append(c.in, p...)
	for {
		args, ok, err := c.parse()
		if err != nil {
			c.s.r.EngineError("%v", err)
			return 0, err
		}
		if !ok {
			return len(p), nil
		}
		if err := c.handle(args); err != nil {
			return 0, err
		}
	}
}

// handle sends one command towards the server.
func (c *conn) handle(args []string) error {
	s := c.s
	// the instant the command leaves the client; which client's command reaches the
	// server first is decided here
	simrt.Yield("simredis.request")
	if c.broken || s.down {
		c.broken = true
		s.fire(Outage)
		return resetErr("write")
	}
	cmd := Cmd{Args: args, Conn: c.id, Task: curTaskID()}
	var f Fault
	if s.Fault != nil {
		f = s.Fault(&cmd)
	}
	switch f.Kind {
	case ResetBefore:
		s.fire(ResetBefore)
		c.broken = true
		return resetErr("write")
	case DropRequest:
		s.fire(DropRequest)
		c.awaiting++
		return nil
	case ErrReply:
		s.fire(ErrReply)
		msg := f.Msg
		if msg == "" {
			msg = "ERR injected server error"
		}
		c.replies = append(c.replies, reply{data: []byte("-" + msg + "\r\n"), at: time.Now()})
		return nil
	case Latency:
		if f.ReqDelay > 0 {
			s.fire(Latency)
			if !c.wdl.IsZero() && time.Now().Add(f.ReqDelay).After(c.wdl) {
				// the write deadline passes before the command is on its way
				if d := time.Until(c.wdl); d > 0 {
					simrt.Sleep(d)
				}
				c.broken = true
				return timeoutErr{}
			}
			simrt.Sleep(f.ReqDelay)
			if c.broken || s.down {
				c.broken = true
				s.fire(Outage)
				return resetErr("write")
			}
		} else if f.RepDelay > 0 {
			s.fire(Latency)
		}
	}
	if f.Kind == Deferred || len(c.queue) > 0 {
		// the request is on its way; it is delivered (in order, per connection) by a background task
		due := time.Now()
		if f.Kind == Deferred {
			s.fire(Deferred)
			due = due.Add(f.ReqDelay)
		}
		if n := len(c.queue); n > 0 && c.queue[n-1].due.After(due) {
			due = c.queue[n-1].due
		}
		c.queue = append(c.queue, pending{cmd: cmd, f: f, due: due})
		if !c.worker {
			c.worker = true
			simrt.GoBg("simredis.deferred-delivery", c.deliver)
		}
		return nil
	}
	c.execute(cmd, f)
	return nil
}

// deliver hands the queued requests of this connection to the server when they are due.
func (c *conn) deliver() {
	for len(c.queue) > 0 {
		if d := time.Until(c.queue[0].due); d > 0 {
			simrt.Sleep(d)
		}
		simrt.Yield("simredis.request")
		p := c.queue[0]
		c.queue = c.queue[1:]
		if p.lost {
			continue
		}
		if c.s.down {
			c.s.fire(Outage)
			c.broken = true
			continue
		}
		c.execute(p.cmd, p.f)
	}
	c.worker = false
}

// execute runs one command at the server, now, and queues its reply.
func (c *conn) execute(cmd Cmd, f Fault) {
	s := c.s
	s.Sync()
	c.pbuf.Reset()
	s.mr.Server().Dispatch(c.peer, cmd.Args)
	c.pw.Flush()
	data := append([]byte(nil), c.pbuf.Bytes()...)
	s.nExec++
	if s.OnExec != nil {
		s.OnExec(&Exec{Seq: s.nExec, Cmd: cmd, Reply: data, At: s.r.Elapsed(), Fault: f.Kind})
	}
	switch f.Kind {
	case DropReply:
		s.fire(DropReply)
		c.awaiting++
	case ResetAfter:
		s.fire(ResetAfter)
		c.replies = append(c.replies, reply{at: time.Now(), eof: true})
	case Truncate:
		s.fire(Truncate)
		c.replies = append(c.replies, reply{data: data[:len(data)/2], at: time.Now(), eof: true})
	default:
		c.replies = append(c.replies, reply{data: data, at: time.Now().Add(f.RepDelay)})
	}
}

func (c *conn) Read(p []byte) (int, error) {
	for {
		if c.closed {
			return 0, net.ErrClosed
		}
		if c.broken {
			return 0, io.EOF
		}
		now := time.Now()
		if len(c.replies) > 0 {
			rp := &c.replies[0]
			if !rp.at.After(now) {
				if len(rp.data) > 0 {
					n := copy(p, rp.data)
					rp.data = rp.data[n:]
					if len(rp.data) == 0 && !rp.eof {
						c.replies = c.replies[1:]
					}
					return n, nil
				}
				if rp.eof {
					c.broken = true
					return 0, io.EOF
				}
				c.replies = c.replies[1:]
				continue
			}
		}
		// nothing readable yet: wait for the next reply or the read deadline
		var until time.Time
		if len(c.replies) > 0 {
			until = c.replies[0].at
		} else if len(c.queue) > 0 {
			// the request is still in the network: its reply cannot come before it is delivered
			until = c.queue[0].due
			if !until.After(now) {
				simrt.Yield("simredis.await-delivery")
				if len(c.replies) == 0 && len(c.queue) > 0 && !c.queue[0].due.After(time.Now()) {
					simrt.Sleep(time.Microsecond)
				}
				continue
			}
		}
		if !c.rdl.IsZero() && (until.IsZero() || c.rdl.Before(until)) {
			if !c.rdl.After(now) {
				c.broken = true
				return 0, timeoutErr{}
			}
			simrt.Sleep(c.rdl.Sub(now))
			continue
		}
		if until.IsZero() {
			// no reply will ever come and the reader set no deadline
			c.s.r.EngineError("simredis: Read with nothing in flight and no deadline (conn %d, awaiting %d)", c.id, c.awaiting)
			c.broken = true
			return 0, io.EOF
		}
		simrt.Sleep(until.Sub(now))
	}
}

// Rates is a simple per-mille fault policy for commands that are not part of
// the connection handshake.
type Rates struct {
	Latency, DropRequest, DropReply, ResetBefore, ResetAfter, ErrReply, Truncate int           // per mille each
	Deferred                                                                     int           // per mille: request delivered late (up to MaxDefer), even after the client gave up
	MaxDefer                                                                     time.Duration // default 5 s (longer than go-redis' 3 s read timeout: the retry can overtake the original)
	MaxDelay                                                                     time.Duration
	ErrMsgs                                                                      []string
	Enabled                                                                      *bool // nil: always; else consulted at each command
}

// Policy builds a Fault function drawing from the run's tape.  A zero draw means "no fault".
func Policy(r *simrt.Run, rt Rates) func(c *Cmd) Fault {
	total := rt.Latency + rt.DropRequest + rt.DropReply + rt.ResetBefore + rt.ResetAfter + rt.ErrReply + rt.Truncate + rt.Deferred
	return func(c *Cmd) Fault {
		if total == 0 || c.Handshake() || (rt.Enabled != nil && !*rt.Enabled) {
			return Fault{}
		}
		v := r.Tape.Intn(1000)
		if v == 0 || v > total {
			return Fault{}
		}
		v--
		pick := func(n int) bool {
			if v < n {
				return true
			}
			v -= n
			return false
		}
		delay := func() time.Duration {
			max := rt.MaxDelay
			if max <= 0 {
				max = 50 * time.Millisecond
			}
			return time.Duration(1 + r.Tape.Intn(int(max)))
		}
		switch {
		case pick(rt.Latency):
			if r.Tape.Bool() {
				return Fault{Kind: Latency, ReqDelay: delay()}
			}
			return Fault{Kind: Latency, RepDelay: delay()}
		case pick(rt.DropRequest):
			return Fault{Kind: DropRequest}
		case pick(rt.DropReply):
			return Fault{Kind: DropReply}
		case pick(rt.ResetBefore):
			return Fault{Kind: ResetBefore}
		case pick(rt.ResetAfter):
			return Fault{Kind: ResetAfter}
		case pick(rt.ErrReply):
			msg := "ERR injected server error"
			if len(rt.ErrMsgs) > 0 {
				msg = rt.ErrMsgs[r.Tape.Intn(len(rt.ErrMsgs))]
			}
			return Fault{Kind: ErrReply, Msg: msg}
		case pick(rt.Truncate):
			return Fault{Kind: Truncate}
		default:
			max := rt.MaxDefer
			if max <= 0 {
				max = 5 * time.Second
			}
			return Fault{Kind: Deferred, ReqDelay: time.Duration(1 + r.Tape.Intn(int(max)))}
		}
	}
}

// ParseInt reads a RESP integer reply (":n\r\n"); ok is false for anything else.
func ParseInt(reply []byte) (int64, bool) {
	if len(reply) < 4 || reply[0] != ':' {
		return 0, false
	}
	v, err := strconv.ParseInt(strings.TrimSuffix(string(reply[1:]), "\r\n"), 10, 64)
	return v, err == nil
}
