// Copyright 2017 The Go Authors. All rights reserved.
// Use of this source code is governed by a BSD-style
// license that can be found in the LICENSE file.

package astapply // vendored copy of golang.org/x/tools@v0.29.0/go/ast/astutil/rewrite.go (BSD license, The Go Authors)

import (
	"fmt"
	"go/ast"
	"reflect"
	"sort"
)

// An ApplyFunc is invoked by Apply for each node n, even if n is nil,
// before and/or after the node's children, using a Cursor describing
// the current node and providing operations on it.
//
// The return value of ApplyFunc controls the syntax tree traversal.
// See Apply for details.
type ApplyFunc func(*Cursor) bool

// Apply traverses a syntax tree recursively, starting with root,
// and calling pre and post for each node as described below.
// Apply returns the syntax tree, possibly modified.
//
// If pre is not nil, it is called for each node before the node's
// children are traversed (pre-order). If pre returns false, no
// children are traversed, and post is not called for that node.
//
// If post is not nil, and a prior call of pre didn't return false,
// post is called for each node after its children are traversed
// (post-order). If post returns false, traversal is terminated and
// Apply returns immediately.
//
// Only fields that refer to AST nodes are considered children;
// i.e., token.Pos, Scopes, Objects, and fields of basic types
// (strings, etc.) are ignored.
//
// Children are traversed in the order in which they appear in the
// respective node's struct definition. A package's files are
// traversed in the filenames' alphabetical order.
func Apply(root ast.Node, pre, post ApplyFunc) (result ast.Node) {
	parent := &struct{ ast.Node }{root}
	defer func() {
		if r := recover(); r != nil && r != abort {
			panic(r)
		}
		result = parent.Node
	}()
	a := &application{pre: pre, post: post}
	a.apply(parent, "Node", nil, root)
	return
}

var abort = new(int) // singleton, to signal termination of Apply

// A Cursor describes a node encountered during Apply.
// Information about the node and its parent is available
// from the Node, Parent, Name, and Index methods.
//
// If p is a variable of type and value of the current parent node
// c.Parent(), and f is the field identifier with name c.Name(),
// the following invariants hold:
//
//	p.f            == c.Node()  if c.Index() <  0
//	p.f[c.Index()] == c.Node()  if c.Index() >= 0
//
// The methods Replace, Delete, InsertBefore, and InsertAfter
// can be used to change the AST without disrupting Apply.
type Cursor struct {
	parent ast.Node
	name   string
	iter   *iterator // valid if non-nil
	node   ast.Node
}

// Node returns the current Node.
func (c *Cursor) Node() ast.Node { return c.node }

// Parent returns the parent of the current Node.
func (c *Cursor) Parent() ast.Node { return c.parent }

// Name returns the name of the parent Node field that contains the current Node.
// If the parent is a *ast.Package and the current Node is a *ast.File, Name returns
// the filename for the current Node.
func (c *Cursor) Name() string { return c.name }

// Index reports the index >= 0 of the current Node in the slice of Nodes that
// contains it, or a value < 0 if the current Node is not part of a slice.
// The index of the current node changes if InsertBefore is called while
// processing the current node.
func (c *Cursor) Index() int {
	if c.iter != nil {
		return c.iter.index
	}
	return -1
}

// field returns the current node's parent field value.
func (c *Cursor) field() reflect.Value {
	return reflect.Indirect(reflect.ValueOf(c.parent)).FieldByName(c.name)
}

// Replace replaces the current Node with n.
// The replacement node is not walked by Apply.
func (c *Cursor) Replace(n ast.Node) {
	if _, ok := c.node.(*ast.File); ok {
		file, ok := n.(*ast.File)
		if !ok {
			panic("attempt to replace *ast.File with non-*ast.File")
		}
		c.parent.(*ast.Package).Files[c.name] = file
		return
	}

	v := c.field()
	if i := c.Index(); i >= 0 {
		v = v.Index(i)
	}
	v.Set(reflect.ValueOf(n))
}

// Delete deletes the current Node from its containing slice.
// If the current Node is not part of a slice, Delete panics.
// As a special case, if the current node is a package file,
// Delete removes it from the package's Files map.
func (c *Cursor) Delete() {
	if _, ok := c.node.(*ast.File); ok {
		delete(c.parent.(*ast.Package).Files, c.name)
		return
	}

	i := c.Index()
	if i < 0 {
		panic("Delete node not contained in slice")
	}
	v := c.field()
	l := v.Len()
	reflect.Copy(v.Slice(i, l), v.Slice(i+1, l))
	v.Index(l - 1).Set(reflect.Zero(v.Type().Elem()))
	v.SetLen(l - 1)
	c.iter.step--
}

// InsertAfter inserts n after the current Node in its containing slice.
// If the current Node is not part of a slice, InsertAfter panics.
// Apply does not walk n.
func (c *Cursor) InsertAfter(n ast.Node) {
	i := c.Index()
	if i < 0 {
		panic("InsertAfter node not contained in slice")
	}
	v := c.field()
	v.Set(reflect.Append(v, reflect.Zero(v.Type().Elem())))
	l := v.Len()
	reflect.Copy(v.Slice(i+2, l), v.Slice(i+1, l))
	v.Index(i + 1).Set(reflect.ValueOf(n))
	c.iter.step++
}

// InsertBefore inserts n before the current Node in its containing slice.
// If the current Node is not part of a slice, InsertBefore panics.
// Apply will not walk n.
func (c *Cursor) InsertBefore(n ast.Node) {
	i := c.Index()
	if i < 0 {
		panic("InsertBefore node not contained in slice")
	}
	v := c.field()
	v.Set(reflect.Append(v, reflect.Zero(v.Type().Elem())))
	l := v.Len()
	reflect.Copy(v.Slice(i+1, l), v.Slice(i, l))
	v.Index(i).Set(reflect.ValueOf(n))
	c.iter.index++
}

// application carries all the shared data so we can pass it around cheaply.
type application struct {
	pre, post ApplyFunc
	cursor    Cursor
	iter      iterator
}

func (a *application) apply(parent ast.Node, name string, iter *iterator, n ast.Node) {
	// convert typed nil into untyped nil
	if v := reflect.ValueOf(n); v.Kind() == reflect.Ptr && v.IsNil() {
		n = nil
	}

	// avoid heap-allocating a new cursor for each apply call; reuse a.cursor instead
	saved := a.cursor
	a.cursor.parent = parent
	a.cursor.name = name
	a.cursor.iter = iter
	a.cursor.node = n

	if a.pre != nil && !a.pre(&a.cursor) {
		a.cursor = saved
		return
	}

	// walk children
	// (the order of the cases matches the order of the corresponding node types in go/ast)
	switch n := n.(type) {
	case nil:
		// nothing to do

	// Comments and fields
	case *ast.Comment:
		// nothing to do

	case *ast.CommentGroup:
		if n != nil {
			a.applyList(n, "List")
		}

	case *ast.Field:
		a.apply(n, "Doc", nil, n.Doc)
		a.applyList(n, "Names")
		a.apply(n, "Type", nil, n.Type)
		a.apply(n, "Tag", nil, n.Tag)
		a.apply(n, "Comment", nil, n.Comment)

	case *ast.FieldList:
		a.applyList(n, "List")

	// Expressions
	case *ast.BadExpr, *ast.Ident, *ast.BasicLit:
		// nothing to do

	case *ast.Ellipsis:
		a.apply(n, "Elt", nil, n.Elt)

	case *ast.FuncLit:
		a.apply(n, "Type", nil, n.Type)
		a.apply(n, "Body", nil, n.Body)

	case *ast.CompositeLit:
		a.apply(n, "Type", nil, n.Type)
		a.applyList(n, "Elts")

	case *ast.ParenExpr:
		a.apply(n, "X", nil, n.X)

	case *ast.SelectorExpr:
		a.apply(n, "X", nil, n.X)
		a.apply(n, "Sel", nil, n.Sel)

	case *ast.IndexExpr:
		a.apply(n, "X", nil, n.X)
		a.apply(n, "Index", nil, n.Index)

	case *ast.IndexListExpr:
		a.apply(n, "X", nil, n.X)
		a.applyList(n, "Indices")

	case *ast.SliceExpr:
		a.apply(n, "X", nil, n.X)
		a.apply(n, "Low", nil, n.Low)
		a.apply(n, "High", nil, n.High)
		a.apply(n, "Max", nil, n.Max)

	case *ast.TypeAssertExpr:
		a.apply(n, "X", nil, n.X)
		a.apply(n, "Type", nil, n.Type)

	case *ast.CallExpr:
		a.apply(n, "Fun", nil, n.Fun)
		a.applyList(n, "Args")

	case *ast.StarExpr:
		a.apply(n, "X", nil, n.X)

	case *ast.UnaryExpr:
		a.apply(n, "X", nil, n.X)

	case *ast.BinaryExpr:
		a.apply(n, "X", nil, n.X)
		a.apply(n, "Y", nil, n.Y)

	case *ast.KeyValueExpr:
		a.apply(n, "Key", nil, n.Key)
		a.apply(n, "Value", nil, n.Value)

	// Types
	case *ast.ArrayType:
		a.apply(n, "Len", nil, n.Len)
		a.apply(n, "Elt", nil, n.Elt)

	case *ast.StructType:
		a.apply(n, "Fields", nil, n.Fields)

	case *ast.FuncType:
		if tparams := n.TypeParams; tparams != nil {
			a.apply(n, "TypeParams", nil, tparams)
		}
		a.apply(n, "Params", nil, n.Params)
		a.apply(n, "Results", nil, n.Results)

	case *ast.InterfaceType:
		a.apply(n, "Methods", nil, n.Methods)

	case *ast.MapType:
		a.apply(n, "Key", nil, n.Key)
		a.apply(n, "Value", nil, n.Value)

	case *ast.ChanType:
		a.apply(n, "Value", nil, n.Value)

	// Statements
	case *ast.BadStmt:
		// nothing to do

	case *ast.DeclStmt:
		a.apply(n, "Decl", nil, n.Decl)

	case *ast.EmptyStmt:
		// nothing to do

	case *ast.LabeledStmt:
		a.apply(n, "Label", nil, n.Label)
		a.apply(n, "Stmt", nil, n.Stmt)

	case *ast.ExprStmt:
		a.apply(n, "X", nil, n.X)

	case *ast.SendStmt:
		a.apply(n, "Chan", nil, n.Chan)
		a.apply(n, "Value", nil, n.Value)

	case *ast.IncDecStmt:
		a.apply(n, "X", nil, n.X)

	case *ast.AssignStmt:
		a.applyList(n, "Lhs")
		a.applyList(n, "Rhs")

	case *ast.GoStmt:
		a.apply(n, "Call", nil, n.Call)

	case *ast.DeferStmt:
		a.apply(n, "Call", nil, n.Call)

	case *ast.ReturnStmt:
		a.applyList(n, "Results")

	case *ast.BranchStmt:
		a.apply(n, "Label", nil, n.Label)

	case *ast.BlockStmt:
		a.applyList(n, "List")

	case *ast.IfStmt:
		a.apply(n, "Init", nil, n.Init)
		a.apply(n, "Cond", nil, n.Cond)
		a.apply(n, "Body", nil, n.Body)
		a.apply(n, "Else", nil, n.Else)

	case *ast.CaseClause:
		a.applyList(n, "List")
		a.applyList(n, "Body")

	case *ast.SwitchStmt:
		a.apply(n, "Init", nil, n.Init)
		a.apply(n, "Tag", nil, n.Tag)
		a.apply(n, "Body", nil, n.Body)

	case *ast.TypeSwitchStmt:
		a.apply(n, "Init", nil, n.Init)
		a.apply(n, "Assign", nil, n.Assign)
		a.apply(n, "Body", nil, n.Body)

	case *ast.CommClause:
		a.apply(n, "Comm", nil, n.Comm)
		a.applyList(n, "Body")

	case *ast.SelectStmt:
		a.apply(n, "Body", nil, n.Body)

	case *ast.ForStmt:
		a.apply(n, "Init", nil, n.Init)
		a.apply(n, "Cond", nil, n.Cond)
		a.apply(n, "Post", nil, n.Post)
		a.apply(n, "Body", nil, n.Body)

	case *ast.RangeStmt:
		a.apply(n, "Key", nil, n.Key)
		a.apply(n, "Value", nil, n.Value)
		a.apply(n, "X", nil, n.X)
		a.apply(n, "Body", nil, n.Body)

	// Declarations
	case *ast.ImportSpec:
		a.apply(n, "Doc", nil, n.Doc)
		a.apply(n, "Name", nil, n.Name)
		a.apply(n, "Path", nil, n.Path)
		a.apply(n, "Comment", nil, n.Comment)

	case *ast.ValueSpec:
		a.apply(n, "Doc", nil, n.Doc)
		a.applyList(n, "Names")
		a.apply(n, "Type", nil, n.Type)
		a.applyList(n, "Values")
		a.apply(n, "Comment", nil, n.Comment)

	case *ast.TypeSpec:
		a.apply(n, "Doc", nil, n.Doc)
		a.apply(n, "Name", nil, n.Name)
		if tparams := n.TypeParams; tparams != nil {
			a.apply(n, "TypeParams", nil, tparams)
		}
		a.apply(n, "Type", nil, n.Type)
		a.apply(n, "Comment", nil, n.Comment)

	case *ast.BadDecl:
		// nothing to do

	case *ast.GenDecl:
		a.apply(n, "Doc", nil, n.Doc)
		a.applyList(n, "Specs")

	case *ast.FuncDecl:
		a.apply(n, "Doc", nil, n.Doc)
		a.apply(n, "Recv", nil, n.Recv)
		a.apply(n, "Name", nil, n.Name)
		a.apply(n, "Type", nil, n.Type)
		a.apply(n, "Body", nil, n.Body)

	// Files and packages
	case *ast.File:
		a.apply(n, "Doc", nil, n.Doc)
		a.apply(n, "Name", nil, n.Name)
		a.applyList(n, "Decls")
		// Don't walk n.Comments; they have either been walked already if
		// they are Doc comments, or they can be easily walked explicitly.

	case *ast.Package:
		// collect and sort names for reproducible behavior
		var names []string
		for name := range n.Files {
			names = append(names, name)
		}
		sort.Strings(names)
		for _, name := range names {
			a.apply(n, name, nil, n.Files[name])
		}

	default:
		panic(fmt.Sprintf("Apply: unexpected node type %T", n))
	}

	if a.post != nil && !a.post(&a.cursor) {
		panic(abort)
	}

	a.cursor = saved
}

// An iterator controls iteration over a slice of nodes.
type iterator struct {
	index, step int
}

func (a *application) applyList(parent ast.Node, name string) {
	// avoid heap-allocating a new iterator for each applyList call; reuse a.iter instead
	saved := a.iter
	a.iter.index = 0
	for {
		// must reload parent.name each time, since cursor modifications might change it
		v := reflect.Indirect(reflect.ValueOf(parent)).FieldByName(name)
		if a.iter.index >= v.Len() {
			break
		}

		// element x may be nil in a bad AST - be cautious
		var x ast.Node
		if e := v.Index(a.iter.index); e.IsValid() {
			x = e.Interface().(ast.Node)
		}

		a.iter.step = 1
		a.apply(parent, name, &a.iter, x)
		a.iter.index += a.iter.step
	}
	a.iter = saved
}
