package instrument

// DefaultPatches are the seam patches described in DESIGN.md 3.3.  Each must
// apply exactly once to the current working tree or the check exits 2.
var DefaultPatches = []Patch{
	{
		File:    "core/stat/usage.go",
		Old:     "func init() {\n\tgo func() {",
		New:     "func init() {\n\tif verifNoRefresher {\n\t\treturn\n\t}\n\tgo func() {",
		Comment: "do not start the real-clock CPU sampler; the workload sets the CPU signal",
	},
	{
		File:    "core/stores/cache/cleaner.go",
		Old:     "func init() {\n\ttw, err := collection.NewTimingWheel(",
		New:     "func init() {\n\tif verifSkipInit {\n\t\treturn\n\t}\n\ttw, err := collection.NewTimingWheel(",
		Comment: "the cleaner's wheel and task runner are built inside the bubble by VerifResetCleaner",
	},
	{
		File:    "core/stores/redis/redisclientmanager.go",
		Old:     "MinIdleConns: idleConns,",
		New:     "MinIdleConns: 0 * idleConns, PoolSize: 160,",
		Comment: "go-redis pre-dials idle connections inside NewClient, before go-zero attaches the dial hook; a real dial must never happen inside a bubble; the pool size (go-redis default 10*GOMAXPROCS, which also is the number of dial errors after which go-redis fails fast) is pinned so that runs do not depend on GOMAXPROCS",
	},
	{
		File:    "core/proc/shutdown.go",
		Old:     "func (lm *listenerManager) addListener(fn func()) (waitForCalled func()) {\n\tlm.waitGroup.Add(1)\n",
		New:     "func (lm *listenerManager) addListener(fn func()) (waitForCalled func()) {\n\tif verifNoListeners {\n\t\treturn func() {}\n\t}\n\tlm.waitGroup.Add(1)\n",
		Comment: "process-global shutdown/wrap-up listener registry (a never-released sync.WaitGroup shared between the outside and the bubbles is a fatal runtime error; registrations would leak from run to run); signal-driven shutdown is outside every simulated property",
	},
}
