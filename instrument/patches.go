package instrument

// DefaultPatches are the seam patches described in DESIGN.md 3.3.
var DefaultPatches = []Patch{}
