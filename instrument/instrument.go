// Package instrument rewrites go-zero source files (from the current working
// tree of the repository) into a scratch directory so that every operation
// whose order relative to other goroutines matters goes through the simulator's
// hooks, and emits a `go build -overlay` file.  Nothing in the repository is
// modified.
package instrument

import (
	"bytes"
	"encoding/json"
	"fmt"
	"go/ast"
	"go/constant"
	"go/format"
	"go/importer"
	"go/parser"
	"go/token"
	"go/types"
	"io"
	"os"
	"os/exec"
	"path/filepath"
	"sort"
	"strconv"
	"strings"

	"verifsim/instrument/astapply"
)

const goZero = "github.com/zeromicro/go-zero/"

// Allow is the list of go-zero packages (relative to the module root) whose
// code is instrumented when it is in the dependency cone of a harness.
var Allow = map[string]bool{
	"core/syncx": true, "core/collection": true, "core/threading": true, "core/mr": true,
	"core/fx": true, "core/executors": true, "core/breaker": true, "core/load": true,
	"core/limit": true, "core/timex": true, "core/mathx": true, "core/rescue": true,
	"core/errorx": true, "core/stringx": true, "core/hash": true, "core/discov": true,
	"core/discov/internal": true, "core/stores/cache": true, "core/stores/redis": true,
	"core/stores/sqlc": true, "core/stores/sqlx": true, "rest/handler": true, "rest/token": true,
	"rest/internal/security": true, "rest/internal/response": true, "rest/httpx": true,
	"zrpc/internal/serverinterceptors": true, "zrpc/internal/clientinterceptors": true,
	"zrpc/resolver/internal": true, "zrpc/resolver/internal/kube": true, "core/lang": true,
}

type listPkg struct {
	ImportPath string
	Dir        string
	Export     string
	GoFiles    []string
	Standard   bool
	DepOnly    bool
	Module     *struct{ Path, Dir string }
	Error      *struct{ Err string }
}

// Patch is a declarative source edit applied (exactly once) before a file is
// instrumented; a patch that does not apply is an error.
type Patch struct {
	File    string // path relative to the repository root
	Old     string
	New     string
	Comment string
}

// Options configure one instrumentation pass.
type Options struct {
	RepoDir    string   // /repo
	VerifDir   string   // /verif (module verifsim)
	OutDir     string   // scratch directory for rewritten files
	Packages   []string // harness packages (relative to VerifDir, e.g. ./harness/c07)
	GoCmd      string   // go1.26.8
	Env        []string
	Patches    []Patch
	SeamsDir   string // directory with added files, mirrored onto the repository tree
	ExtraAllow []string
	Racy       bool // insert statement-level scheduling points (simrt.Y) into the instrumented packages
	Log        io.Writer
}

// Stats reports what was rewritten.
type Stats struct {
	Packages int
	Files    int
	Sites    map[string]int
	Added    []string
	Patched  []string
}

// Run instruments the dependency cone of the given harness packages and
// returns the path of the overlay file.
func Run(o Options) (string, *Stats, error) {
	st := &Stats{Sites: map[string]int{}}
	allow := map[string]bool{}
	for k := range Allow {
		allow[k] = true
	}
	for _, k := range o.ExtraAllow {
		allow[k] = true
	}
	args := append([]string{"list", "-e", "-test", "-export", "-deps", "-tags", "verif", "-json=ImportPath,Dir,Export,GoFiles,Standard,Module,Error"}, o.Packages...)
	cmd := exec.Command(o.GoCmd, args...)
	cmd.Dir = o.VerifDir
	cmd.Env = o.Env
	var stderr bytes.Buffer
	cmd.Stderr = &stderr
	out, err := cmd.Output()
	if err != nil {
		return "", nil, fmt.Errorf("go list: %v\n%s", err, stderr.String())
	}
	exports := map[string]string{}
	inCone := map[string]bool{}
	var targets []*listPkg
	dec := json.NewDecoder(bytes.NewReader(out))
	for dec.More() {
		p := &listPkg{}
		if err := dec.Decode(p); err != nil {
			return "", nil, err
		}
		if strings.Contains(p.ImportPath, " [") || strings.HasSuffix(p.ImportPath, ".test") {
			continue // test variants of the harness packages themselves
		}
		if p.Export != "" {
			exports[p.ImportPath] = p.Export
		}
		if strings.HasPrefix(p.ImportPath, goZero) {
			inCone[strings.TrimPrefix(p.ImportPath, goZero)] = true
		}
		if strings.HasPrefix(p.ImportPath, goZero) && allow[strings.TrimPrefix(p.ImportPath, goZero)] {
			if p.Error != nil {
				return "", nil, fmt.Errorf("package %s: %s", p.ImportPath, p.Error.Err)
			}
			targets = append(targets, p)
		}
	}
	overlay := map[string]string{}
	patchUsed := make([]bool, len(o.Patches))

	fset := token.NewFileSet()
	imp := importer.ForCompiler(fset, "gc", func(path string) (io.ReadCloser, error) {
		f, ok := exports[path]
		if !ok {
			return nil, fmt.Errorf("no export data for %q", path)
		}
		return os.Open(f)
	})
	for _, p := range targets {
		rel := strings.TrimPrefix(p.ImportPath, goZero)
		var files []*ast.File
		var names []string
		for _, gf := range p.GoFiles {
			full := filepath.Join(p.Dir, gf)
			src, err := os.ReadFile(full)
			if err != nil {
				return "", nil, err
			}
			relFile := filepath.ToSlash(filepath.Join(rel, gf))
			for i, pt := range o.Patches {
				if pt.File == relFile {
					if n := strings.Count(string(src), pt.Old); n != 1 {
						return "", nil, fmt.Errorf("seam patch for %s does not apply exactly once (%d matches): %s", pt.File, n, pt.Comment)
					}
					src = []byte(strings.Replace(string(src), pt.Old, pt.New, 1))
					patchUsed[i] = true
					st.Patched = append(st.Patched, relFile)
				}
			}
			f, err := parser.ParseFile(fset, full, src, parser.ParseComments)
			if err != nil {
				return "", nil, fmt.Errorf("parse %s: %v", full, err)
			}
			files = append(files, f)
			names = append(names, gf)
		}
		nOwn := len(files)
		if o.SeamsDir != "" {
			seamFiles, _ := filepath.Glob(filepath.Join(o.SeamsDir, filepath.FromSlash(rel), "*.go"))
			for _, sf := range seamFiles {
				f, err := parser.ParseFile(fset, sf, nil, parser.ParseComments)
				if err != nil {
					return "", nil, fmt.Errorf("parse seam %s: %v", sf, err)
				}
				files = append(files, f)
			}
		}
		info := &types.Info{
			Types:      map[ast.Expr]types.TypeAndValue{},
			Uses:       map[*ast.Ident]types.Object{},
			Defs:       map[*ast.Ident]types.Object{},
			Selections: map[*ast.SelectorExpr]*types.Selection{},
		}
		var terrs []string
		conf := types.Config{Importer: imp, Error: func(err error) { terrs = append(terrs, err.Error()) }}
		if _, err := conf.Check(p.ImportPath, fset, files, info); err != nil {
			if len(terrs) > 5 {
				terrs = terrs[:5]
			}
			return "", nil, fmt.Errorf("type-check %s: %s", p.ImportPath, strings.Join(terrs, "; "))
		}
		outDir := filepath.Join(o.OutDir, "src", rel)
		if err := os.MkdirAll(outDir, 0o755); err != nil {
			return "", nil, err
		}
		for i, f := range files[:nOwn] {
			rw := &rewriter{fset: fset, info: info, file: f, relFile: filepath.ToSlash(filepath.Join(rel, names[i])), st: st, racy: o.Racy}
			rw.rewriteFile()
			var buf bytes.Buffer
			if err := format.Node(&buf, fset, f); err != nil {
				return "", nil, fmt.Errorf("print %s: %v", names[i], err)
			}
			dst := filepath.Join(outDir, names[i])
			if err := os.WriteFile(dst, buf.Bytes(), 0o644); err != nil {
				return "", nil, err
			}
			overlay[filepath.Join(p.Dir, names[i])] = dst
			st.Files++
		}
		st.Packages++
	}
	// patches to files of packages that are in the cone but not instrumented
	for i, pt := range o.Patches {
		if patchUsed[i] || !inCone[filepath.ToSlash(filepath.Dir(pt.File))] {
			continue
		}
		full := filepath.Join(o.RepoDir, filepath.FromSlash(pt.File))
		src, err := os.ReadFile(full)
		if err != nil {
			return "", nil, fmt.Errorf("seam patch target %s: %v", pt.File, err)
		}
		if prev, ok := overlay[full]; ok {
			if src, err = os.ReadFile(prev); err != nil {
				return "", nil, err
			}
		}
		if n := strings.Count(string(src), pt.Old); n != 1 {
			return "", nil, fmt.Errorf("seam patch for %s does not apply exactly once (%d matches): %s", pt.File, n, pt.Comment)
		}
		dst := filepath.Join(o.OutDir, "src", filepath.FromSlash(pt.File))
		os.MkdirAll(filepath.Dir(dst), 0o755)
		if err := os.WriteFile(dst, []byte(strings.Replace(string(src), pt.Old, pt.New, 1)), 0o644); err != nil {
			return "", nil, err
		}
		overlay[full] = dst
		st.Patched = append(st.Patched, pt.File)
	}
	// added seam files: SeamsDir/<rel path>/<file>.go  ->  RepoDir/<rel path>/<file>.go
	if o.SeamsDir != "" {
		filepath.Walk(o.SeamsDir, func(path string, fi os.FileInfo, err error) error {
			if err != nil || fi.IsDir() || !strings.HasSuffix(path, ".go") {
				return nil
			}
			rel, _ := filepath.Rel(o.SeamsDir, path)
			if !inCone[filepath.ToSlash(filepath.Dir(rel))] {
				return nil
			}
			dst := filepath.Join(o.RepoDir, rel)
			if _, err := os.Stat(dst); err == nil {
				st.Added = append(st.Added, "CONFLICT:"+rel)
				return nil
			}
			overlay[dst] = path
			st.Added = append(st.Added, rel)
			return nil
		})
	}
	for _, a := range st.Added {
		if strings.HasPrefix(a, "CONFLICT:") {
			return "", nil, fmt.Errorf("seam file %s collides with a file of the repository", a)
		}
	}
	ov, _ := json.MarshalIndent(map[string]any{"Replace": overlay}, "", " ")
	ovPath := filepath.Join(o.OutDir, "overlay.json")
	if err := os.WriteFile(ovPath, ov, 0o644); err != nil {
		return "", nil, err
	}
	return ovPath, st, nil
}

type rewriter struct {
	fset    *token.FileSet
	info    *types.Info
	file    *ast.File
	relFile string
	st      *Stats
	n       int
	needRT  bool
	racy    bool

	skip      map[ast.Node]bool       // select comm statements and their channel ops
	recv2     map[*ast.UnaryExpr]bool // receive used in a two-value context
	noWrap    map[*ast.CallExpr]bool  // calls of defer/go statements
	rangeKind map[*ast.RangeStmt]int  // 1 chan, 2 map
	labelPre  map[*ast.LabeledStmt][]ast.Stmt
}

func (r *rewriter) site(n ast.Node) ast.Expr {
	p := r.fset.Position(n.Pos())
	return &ast.BasicLit{Kind: token.STRING, Value: strconv.Quote(fmt.Sprintf("%s:%d", r.relFile, p.Line))}
}

func (r *rewriter) uniq(base string) *ast.Ident {
	r.n++
	return ast.NewIdent(fmt.Sprintf("sim%s%d", base, r.n))
}

func (r *rewriter) rt(name string) ast.Expr {
	r.needRT = true
	return &ast.SelectorExpr{X: ast.NewIdent("simrt"), Sel: ast.NewIdent(name)}
}

func (r *rewriter) call(name string, args ...ast.Expr) *ast.CallExpr {
	return &ast.CallExpr{Fun: r.rt(name), Args: args}
}

func unparen(e ast.Expr) ast.Expr {
	for {
		p, ok := e.(*ast.ParenExpr)
		if !ok {
			return e
		}
		e = p.X
	}
}

func isRecv(e ast.Expr) *ast.UnaryExpr {
	u, ok := unparen(e).(*ast.UnaryExpr)
	if ok && u.Op == token.ARROW {
		return u
	}
	return nil
}

func (r *rewriter) pkgFunc(e ast.Expr) (pkg, name string) {
	sel, ok := e.(*ast.SelectorExpr)
	if !ok {
		return "", ""
	}
	obj := r.info.Uses[sel.Sel]
	if obj == nil || obj.Pkg() == nil {
		return "", ""
	}
	if _, isFunc := obj.(*types.Func); !isFunc {
		return "", ""
	}
	return obj.Pkg().Path(), obj.Name()
}

func (r *rewriter) isBuiltin(e ast.Expr, name string) bool {
	id, ok := unparen(e).(*ast.Ident)
	if !ok || id.Name != name {
		return false
	}
	_, isB := r.info.Uses[id].(*types.Builtin)
	return isB
}

func pure(e ast.Expr) bool {
	switch x := e.(type) {
	case *ast.Ident:
		return true
	case *ast.SelectorExpr:
		return pure(x.X)
	case *ast.StarExpr:
		return pure(x.X)
	case *ast.ParenExpr:
		return pure(x.X)
	}
	return false
}

func (r *rewriter) rewriteFile() {
	r.skip = map[ast.Node]bool{}
	r.recv2 = map[*ast.UnaryExpr]bool{}
	r.noWrap = map[*ast.CallExpr]bool{}
	r.rangeKind = map[*ast.RangeStmt]int{}
	r.labelPre = map[*ast.LabeledStmt][]ast.Stmt{}
	f := r.file

	// Comments are dropped except the header (build constraints, package doc) and
	// compiler directives (//go:embed, //go:generate, ...): inserted nodes have no
	// positions and the printer could otherwise place a comment inside an expression.
	var keep []*ast.CommentGroup
	for _, cg := range f.Comments {
		if cg.End() < f.Package {
			keep = append(keep, cg)
			continue
		}
		for _, c := range cg.List {
			if strings.HasPrefix(c.Text, "//go:") {
				keep = append(keep, cg)
				break
			}
		}
	}
	f.Comments = keep

	// imports
	for _, is := range f.Imports {
		path, _ := strconv.Unquote(is.Path.Value)
		var repl, defName string
		switch path {
		case "sync":
			repl, defName = "verifsim/simsync", "sync"
		case "math/rand":
			repl, defName = "verifsim/simrand", "rand"
		}
		if repl != "" {
			is.Path.Value = strconv.Quote(repl)
			if is.Name == nil {
				is.Name = ast.NewIdent(defName)
			}
			r.st.Sites["import:"+path]++
		}
	}

	if r.racy {
		r.addYields()
	}
	astapply.Apply(f, r.pre, r.post)

	// imports whose only uses were replaced become blank imports
	for _, is := range f.Imports {
		path, _ := strconv.Unquote(is.Path.Value)
		if path != "runtime" && path != "time" && path != "context" {
			continue
		}
		local := path
		if is.Name != nil {
			local = is.Name.Name
		}
		if local == "_" || local == "." {
			continue
		}
		used := false
		ast.Inspect(f, func(n ast.Node) bool {
			if sel, ok := n.(*ast.SelectorExpr); ok {
				if id, ok := sel.X.(*ast.Ident); ok && id.Name == local {
					used = true
				}
			}
			return !used
		})
		if !used {
			is.Name = ast.NewIdent("_")
		}
	}

	if r.needRT {
		// add the import as a separate declaration right after the package clause
		imp := &ast.GenDecl{Tok: token.IMPORT, Specs: []ast.Spec{&ast.ImportSpec{
			Name: ast.NewIdent("simrt"), Path: &ast.BasicLit{Kind: token.STRING, Value: `"verifsim/simrt"`}}}}
		// keep it after existing import decls so that doc comments of the first decl stay in place
		idx := 0
		for i, d := range f.Decls {
			if g, ok := d.(*ast.GenDecl); ok && g.Tok == token.IMPORT {
				idx = i + 1
			}
		}
		decls := append([]ast.Decl{}, f.Decls[:idx]...)
		decls = append(decls, imp)
		decls = append(decls, f.Decls[idx:]...)
		f.Decls = decls
	}
}

// addYields inserts a statement-level scheduling point (simrt.Y) before every statement of
// every function body.  It runs on the original tree, before the other rewrites, so that the
// code those generate (the select protocol in particular) is never split.
func (r *rewriter) addYields() {
	clauses := map[*ast.BlockStmt]bool{}
	ast.Inspect(r.file, func(n ast.Node) bool {
		switch b := n.(type) {
		case *ast.SelectStmt:
			clauses[b.Body] = true
		case *ast.SwitchStmt:
			clauses[b.Body] = true
		case *ast.TypeSwitchStmt:
			clauses[b.Body] = true
		case *ast.BlockStmt:
			if !clauses[b] {
				b.List = r.withYields(b.List)
			}
		case *ast.CaseClause:
			b.Body = r.withYields(b.Body)
		case *ast.CommClause:
			b.Body = r.withYields(b.Body)
		}
		return true
	})
}

func (r *rewriter) withYields(list []ast.Stmt) []ast.Stmt {
	out := make([]ast.Stmt, 0, 2*len(list))
	for _, st := range list {
		if _, empty := st.(*ast.EmptyStmt); !empty {
			out = append(out, &ast.ExprStmt{X: r.call("Y", r.site(st))})
			r.st.Sites["stmt-yield"]++
		}
		out = append(out, st)
	}
	return out
}

func (r *rewriter) pre(c *astapply.Cursor) bool {
	switch n := c.Node().(type) {
	case *ast.SelectStmt:
		for _, cl := range n.Body.List {
			cc := cl.(*ast.CommClause)
			if cc.Comm == nil {
				continue
			}
			r.skip[cc.Comm] = true
			switch s := cc.Comm.(type) {
			case *ast.ExprStmt:
				if u := isRecv(s.X); u != nil {
					r.skip[u] = true
				}
			case *ast.AssignStmt:
				if u := isRecv(s.Rhs[0]); u != nil {
					r.skip[u] = true
				}
			}
		}
	case *ast.AssignStmt:
		if len(n.Lhs) == 2 && len(n.Rhs) == 1 {
			if u := isRecv(n.Rhs[0]); u != nil {
				r.recv2[u] = true
			}
		}
	case *ast.ValueSpec:
		if len(n.Names) == 2 && len(n.Values) == 1 {
			if u := isRecv(n.Values[0]); u != nil {
				r.recv2[u] = true
			}
		}
	case *ast.DeferStmt:
		r.noWrap[n.Call] = true
	case *ast.GoStmt:
		r.noWrap[n.Call] = true
	case *ast.RangeStmt:
		if tv, ok := r.info.Types[n.X]; ok && tv.Type != nil {
			switch tv.Type.Underlying().(type) {
			case *types.Chan:
				r.rangeKind[n] = 1
			case *types.Map:
				r.rangeKind[n] = 2
			}
		}
	}
	return true
}

func (r *rewriter) post(c *astapply.Cursor) bool {
	switch n := c.Node().(type) {
	case *ast.SendStmt:
		if r.skip[n] {
			return true
		}
		r.st.Sites["send"]++
		c.Replace(&ast.ExprStmt{X: &ast.CallExpr{
			Fun:  &ast.SelectorExpr{X: r.call("Ch", n.Chan), Sel: ast.NewIdent("Send")},
			Args: []ast.Expr{r.site(n), n.Value}}})
	case *ast.UnaryExpr:
		if n.Op != token.ARROW || r.skip[n] {
			return true
		}
		r.st.Sites["recv"]++
		if r.recv2[n] {
			c.Replace(r.call("Recv2", r.site(n), n.X))
		} else {
			c.Replace(r.call("Recv", r.site(n), n.X))
		}
	case *ast.CallExpr:
		r.postCall(c, n)
	case *ast.SelectorExpr:
		pkg, name := r.pkgFunc(n)
		switch {
		case pkg == "time" && name == "Sleep":
			r.st.Sites["sleep"]++
			c.Replace(r.rt("Sleep"))
		case pkg == "time" && name == "AfterFunc":
			r.st.Sites["afterfunc"]++
			c.Replace(r.rt("AfterFunc"))
		case pkg == "context" && name == "AfterFunc":
			r.st.Sites["ctxafterfunc"]++
			c.Replace(r.rt("CtxAfterFunc"))
		case pkg == "runtime" && name == "Gosched":
			r.st.Sites["gosched"]++
			c.Replace(r.rt("Gosched"))
		}
	case *ast.GoStmt:
		r.postGo(c, n)
	case *ast.SelectStmt:
		r.postSelect(c, n)
	case *ast.LabeledStmt:
		if pre, ok := r.labelPre[n]; ok {
			c.Replace(&ast.BlockStmt{List: append(pre, n)})
		}
	case *ast.RangeStmt:
		switch r.rangeKind[n] {
		case 1:
			r.postRangeChan(c, n)
		case 2:
			r.postRangeMap(c, n)
		}
	}
	return true
}

func (r *rewriter) postCall(c *astapply.Cursor, n *ast.CallExpr) {
	if r.isBuiltin(n.Fun, "make") && len(n.Args) >= 1 && !r.noWrap[n] {
		// channels made while no simulation runs (package-level variables) do not belong to any
		// synctest bubble: blocking on them is not "durably blocked".  simrt keeps a registry of
		// them and polls instead of blocking (simrt.MadeChan is the identity).
		if tv, ok := r.info.Types[n]; ok && tv.Type != nil {
			if _, isChan := tv.Type.Underlying().(*types.Chan); isChan {
				r.st.Sites["make-chan"]++
				wrapped := &ast.CallExpr{Fun: n.Fun, Args: n.Args, Ellipsis: n.Ellipsis, Lparen: n.Lparen, Rparen: n.Rparen}
				r.noWrap[wrapped] = true
				c.Replace(r.call("MadeChan", wrapped))
				return
			}
		}
	}
	if r.isBuiltin(n.Fun, "close") && len(n.Args) == 1 {
		if r.noWrap[n] {
			return // `defer close(ch)`: handled by wrapping below
		}
		r.st.Sites["close"]++
		c.Replace(r.call("Close", r.site(n), n.Args[0]))
		return
	}
	// sync/atomic functions and methods
	var obj types.Object
	switch f := unparen(n.Fun).(type) {
	case *ast.SelectorExpr:
		obj = r.info.Uses[f.Sel]
	case *ast.Ident:
		obj = r.info.Uses[f]
	}
	fn, ok := obj.(*types.Func)
	if !ok || fn.Pkg() == nil || fn.Pkg().Path() != "sync/atomic" {
		return
	}
	if r.noWrap[n] {
		return
	}
	r.st.Sites["atomic"]++
	sig := fn.Type().(*types.Signature)
	if sig.Results().Len() == 1 {
		c.Replace(r.call("AV", r.site(n), n))
		return
	}
	// no result: the call is an expression statement; put a yield in front of it
	// when it sits in a statement list, which is checked by the parent hook below
	if es, ok := c.Parent().(*ast.ExprStmt); ok {
		_ = es
		// replaced at statement level: wrap call in a closure-free helper
		c.Replace(&ast.CallExpr{Fun: r.rt("AVoid"), Args: []ast.Expr{r.site(n), &ast.FuncLit{
			Type: &ast.FuncType{Params: &ast.FieldList{}},
			Body: &ast.BlockStmt{List: []ast.Stmt{&ast.ExprStmt{X: n}}},
		}}})
	}
}

func (r *rewriter) postGo(c *astapply.Cursor, n *ast.GoStmt) {
	r.st.Sites["go"]++
	call := n.Call
	if fl, ok := call.Fun.(*ast.FuncLit); ok && len(call.Args) == 0 {
		c.Replace(&ast.ExprStmt{X: r.call("Go", r.site(n), fl)})
		return
	}
	wrapWhole := false
	if id, ok := unparen(call.Fun).(*ast.Ident); ok {
		if _, isB := r.info.Uses[id].(*types.Builtin); isB {
			wrapWhole = true
		}
	}
	if tv, ok := r.info.Types[call.Fun]; ok && tv.IsType() {
		wrapWhole = true
	}
	if wrapWhole {
		c.Replace(&ast.ExprStmt{X: r.call("Go", r.site(n), &ast.FuncLit{
			Type: &ast.FuncType{Params: &ast.FieldList{}},
			Body: &ast.BlockStmt{List: []ast.Stmt{&ast.ExprStmt{X: call}}},
		})})
		return
	}
	var lhs, rhs []ast.Expr
	var funExpr ast.Expr
	if r.isPlainFunc(call.Fun) {
		funExpr = call.Fun // a declared (possibly generic) function: nothing to evaluate early
	} else {
		fv := r.uniq("f")
		lhs = append(lhs, fv)
		rhs = append(rhs, call.Fun)
		funExpr = fv
	}
	newCall := &ast.CallExpr{Fun: funExpr, Ellipsis: call.Ellipsis}
	for _, a := range call.Args {
		tv := r.info.Types[a]
		if tv.Value != nil || tv.IsNil() || isConstLike(tv) {
			newCall.Args = append(newCall.Args, a)
			continue
		}
		v := r.uniq("a")
		lhs = append(lhs, v)
		rhs = append(rhs, a)
		newCall.Args = append(newCall.Args, v)
	}
	if call.Ellipsis != token.NoPos {
		newCall.Ellipsis = 1
	}
	goCall := &ast.ExprStmt{X: r.call("Go", r.site(n), &ast.FuncLit{
		Type: &ast.FuncType{Params: &ast.FieldList{}},
		Body: &ast.BlockStmt{List: []ast.Stmt{&ast.ExprStmt{X: newCall}}},
	})}
	if len(lhs) == 0 {
		c.Replace(goCall)
		return
	}
	c.Replace(&ast.BlockStmt{List: []ast.Stmt{
		&ast.AssignStmt{Lhs: lhs, Tok: token.DEFINE, Rhs: rhs},
		goCall,
	}})
}

// isPlainFunc reports whether e denotes a declared package-level function
// (possibly instantiated), whose evaluation has no effect and needs no early binding.
func (r *rewriter) isPlainFunc(e ast.Expr) bool {
	switch x := unparen(e).(type) {
	case *ast.IndexExpr:
		return r.isPlainFunc(x.X)
	case *ast.IndexListExpr:
		return r.isPlainFunc(x.X)
	case *ast.Ident:
		if f, ok := r.info.Uses[x].(*types.Func); ok {
			return f.Type().(*types.Signature).Recv() == nil
		}
	case *ast.SelectorExpr:
		if id, ok := x.X.(*ast.Ident); ok {
			if _, isPkg := r.info.Uses[id].(*types.PkgName); isPkg {
				_, isFunc := r.info.Uses[x.Sel].(*types.Func)
				return isFunc
			}
		}
	}
	return false
}

func isConstLike(tv types.TypeAndValue) bool {
	if tv.Value != nil && tv.Value.Kind() != constant.Unknown {
		return true
	}
	if b, ok := tv.Type.(*types.Basic); ok && b.Info()&types.IsUntyped != 0 {
		return true
	}
	return false
}

func (r *rewriter) postSelect(c *astapply.Cursor, n *ast.SelectStmt) {
	nComm := 0
	for _, cl := range n.Body.List {
		if cl.(*ast.CommClause).Comm != nil {
			nComm++
		}
	}
	var pre []ast.Stmt
	if nComm == 0 {
		pre = append(pre, &ast.ExprStmt{X: r.call("Yield", r.site(n))})
	} else {
		r.st.Sites["select"]++
		sel := r.uniq("sel")
		pre = append(pre, &ast.AssignStmt{Lhs: []ast.Expr{sel}, Tok: token.DEFINE, Rhs: []ast.Expr{r.call("NewSel", r.site(n))}})
		for _, cl := range n.Body.List {
			cc := cl.(*ast.CommClause)
			if cc.Comm == nil {
				continue
			}
			postCall := &ast.ExprStmt{X: &ast.CallExpr{Fun: &ast.SelectorExpr{X: sel, Sel: ast.NewIdent("Post")}}}
			cc.Body = append([]ast.Stmt{postCall}, cc.Body...)
			switch s := cc.Comm.(type) {
			case *ast.SendStmt:
				h, v := r.uniq("h"), r.uniq("v")
				pre = append(pre, &ast.AssignStmt{Lhs: []ast.Expr{h}, Tok: token.DEFINE,
					Rhs: []ast.Expr{r.call("SelSend", sel, s.Chan)}})
				pre = append(pre, &ast.AssignStmt{Lhs: []ast.Expr{v}, Tok: token.DEFINE,
					Rhs: []ast.Expr{&ast.CallExpr{Fun: &ast.SelectorExpr{X: h, Sel: ast.NewIdent("Val")}, Args: []ast.Expr{s.Value}}}})
				s.Chan = &ast.SelectorExpr{X: h, Sel: ast.NewIdent("C")}
				s.Value = v
			case *ast.ExprStmt:
				u := isRecv(s.X)
				h := r.uniq("h")
				pre = append(pre, &ast.AssignStmt{Lhs: []ast.Expr{h}, Tok: token.DEFINE,
					Rhs: []ast.Expr{r.call("SelRecv", sel, u.X)}})
				u.X = &ast.StarExpr{X: h}
			case *ast.AssignStmt:
				u := isRecv(s.Rhs[0])
				h := r.uniq("h")
				pre = append(pre, &ast.AssignStmt{Lhs: []ast.Expr{h}, Tok: token.DEFINE,
					Rhs: []ast.Expr{r.call("SelRecv", sel, u.X)}})
				u.X = &ast.StarExpr{X: h}
			}
		}
		if nComm < len(n.Body.List) {
			pre = append(pre, &ast.ExprStmt{X: &ast.CallExpr{Fun: &ast.SelectorExpr{X: sel, Sel: ast.NewIdent("HasDefault")}}})
		}
		pre = append(pre, &ast.ExprStmt{X: &ast.CallExpr{Fun: &ast.SelectorExpr{X: sel, Sel: ast.NewIdent("Poll")}}})
	}
	if ls, ok := c.Parent().(*ast.LabeledStmt); ok {
		r.labelPre[ls] = pre
		return
	}
	c.Replace(&ast.BlockStmt{List: append(pre, n)})
}

func (r *rewriter) postRangeChan(c *astapply.Cursor, n *ast.RangeStmt) {
	r.st.Sites["range-chan"]++
	ch, ok := r.uniq("ch"), r.uniq("ok")
	var head []ast.Stmt
	var assignAfter ast.Stmt
	recv := r.call("Recv2", r.site(n), ch)
	switch {
	case n.Key == nil:
		head = append(head, &ast.AssignStmt{Lhs: []ast.Expr{ast.NewIdent("_"), ok}, Tok: token.DEFINE, Rhs: []ast.Expr{recv}})
	case n.Tok == token.DEFINE:
		head = append(head, &ast.AssignStmt{Lhs: []ast.Expr{n.Key, ok}, Tok: token.DEFINE, Rhs: []ast.Expr{recv}})
	default:
		// `for x = range ch`: x keeps its last value when the channel is closed
		tmp := r.uniq("v")
		head = append(head, &ast.AssignStmt{Lhs: []ast.Expr{tmp, ok}, Tok: token.DEFINE, Rhs: []ast.Expr{recv}})
		assignAfter = &ast.AssignStmt{Lhs: []ast.Expr{n.Key}, Tok: token.ASSIGN, Rhs: []ast.Expr{tmp}}
	}
	head = append(head, &ast.IfStmt{Cond: &ast.UnaryExpr{Op: token.NOT, X: ok},
		Body: &ast.BlockStmt{List: []ast.Stmt{&ast.BranchStmt{Tok: token.BREAK}}}})
	if assignAfter != nil {
		head = append(head, assignAfter)
	}
	if n.Key != nil && n.Tok == token.DEFINE {
		// the key may be unused in the body only if it is blank; nothing to do
	}
	body := &ast.BlockStmt{List: append(head, n.Body.List...)}
	c.Replace(&ast.ForStmt{
		Init: &ast.AssignStmt{Lhs: []ast.Expr{ch}, Tok: token.DEFINE, Rhs: []ast.Expr{n.X}},
		Body: body,
	})
}

func (r *rewriter) postRangeMap(c *astapply.Cursor, n *ast.RangeStmt) {
	if n.Key == nil {
		return // `for range m`: order is irrelevant
	}
	r.st.Sites["range-map"]++
	kv := r.uniq("kv")
	var head []ast.Stmt
	isBlank := func(e ast.Expr) bool {
		id, ok := e.(*ast.Ident)
		return e == nil || (ok && id.Name == "_")
	}
	field := func(name string) ast.Expr { return &ast.SelectorExpr{X: kv, Sel: ast.NewIdent(name)} }
	if pure(n.X) {
		// entries removed during the iteration must not be produced; values are read live
		head = append(head, &ast.IfStmt{
			Cond: &ast.UnaryExpr{Op: token.NOT, X: r.call("MapHas", n.X, field("K"))},
			Body: &ast.BlockStmt{List: []ast.Stmt{&ast.BranchStmt{Tok: token.CONTINUE}}}})
	}
	var lhs, rhs []ast.Expr
	if !isBlank(n.Key) {
		lhs = append(lhs, n.Key)
		rhs = append(rhs, field("K"))
	}
	if !isBlank(n.Value) {
		lhs = append(lhs, n.Value)
		if pure(n.X) {
			rhs = append(rhs, &ast.IndexExpr{X: n.X, Index: field("K")})
		} else {
			rhs = append(rhs, field("V"))
		}
	}
	if len(lhs) > 0 {
		head = append(head, &ast.AssignStmt{Lhs: lhs, Tok: n.Tok, Rhs: rhs})
	}
	n.Body.List = append(head, n.Body.List...)
	n.Key = ast.NewIdent("_")
	n.Value = kv
	n.Tok = token.DEFINE
	n.X = r.call("MapRange", n.X)
}

// SortedSites renders the site counters.
func (s *Stats) SortedSites() string {
	var ks []string
	for k := range s.Sites {
		ks = append(ks, k)
	}
	sort.Strings(ks)
	var b strings.Builder
	for _, k := range ks {
		fmt.Fprintf(&b, "%s=%d ", k, s.Sites[k])
	}
	return b.String()
}
